"""C09 - the output database is complete, duplicate-free and referentially consistent.

Decides: epoch-key provenance of every row built on a run path (R1), single write transaction per
step and who-may-write (R2), session-scope commit / rollback typestate (R3), one contribution per
collection and drained buffers (R4), agent rows before agent-referencing events (R5), epoch coverage
of rows buffered across steps (R6), epoch pairing (R7), state / covariance column slot agreement
(R8).  Does NOT decide numeric values read back or counts for all step / output-step combinations.
"""

from __future__ import annotations

import ast
import re

from rsa.cfg import cfg_of
from rsa.effects import EffectAnalysis
from rsa.model import AnchorError, Undecided, call_name, unparse, walk_no_nested
from rsa.terms import canon, inline_locals, property_body, single_defs
from rsa.util import find_calls, parents_map, require, top_level_stmt

RUN_MODULE_PREFIXES = ("resonaate.agents.", "resonaate.sensors.", "resonaate.tasking.", "resonaate.scenario.scenario", "resonaate.scenario.clock", "resonaate.parallel.", "resonaate.estimation.", "resonaate.dynamics.")
EPOCH_KW = ("julian_date", "epoch_jd")
CANONICAL_ATTRS = {"julian_date_epoch"}
ALLOWED_DB_WRITERS = {
    "resonaate.scenario.scenario.Scenario.saveDatabaseOutput": "per-step output transaction (and the epoch insert it contains)",
    "resonaate.scenario.clock.ScenarioClock.__init__": "pre-inserted epochs at construction",
    "resonaate.scenario.scenario_builder.ScenarioBuilder._loadAgentsIntoDatabase": "setup: agent rows",
    "resonaate.scenario.scenario_builder.ScenarioBuilder._loadEventsIntoDatabase": "setup: event rows and their dependencies",
}


def _canonical(e, fi, p, t, depth=4):
    """Classify an epoch-key expression: 'canonical' | 'copied' | ('param', name) | 'ad-hoc'."""
    if isinstance(e, ast.Attribute) and e.attr in CANONICAL_ATTRS:
        return "canonical"
    if isinstance(e, ast.Attribute) and e.attr in ("julian_date", "current_julian_date"):
        return "copied"  # key of an existing row / the stored step epoch
    if isinstance(e, ast.Name):
        if e.id in fi.all_params:
            return ("param", e.id)
        defs = single_defs(fi.node)
        if e.id in defs and depth > 0:
            return _canonical(defs[e.id], fi, p, t, depth - 1)
        # loop variable over a pending-epoch mapping / epoch list
        for n in walk_no_nested(fi.node):
            if isinstance(n, ast.For) and any(isinstance(x, ast.Name) and x.id == e.id for x in ast.walk(n.target)):
                if "_pending_epochs" in unparse(n.iter):
                    return "copied"
        return "ad-hoc"
    if isinstance(e, ast.Call) and call_name(e) == "convertToJulianDate":
        # clock constructor: <accumulated scenario time>.convertToJulianDate(start)
        return "canonical"
    if isinstance(e, ast.Call) and call_name(e) == "float" and e.args:
        return _canonical(e.args[0], fi, p, t, depth - 1)
    return "ad-hoc"


def rule_r1(chk, p, t):
    r = chk.rule(
        "C09.R1",
        "epoch-key provenance",
        9,
        "the julian_date of every row built on a run path is a canonical epoch source (the clock's / agent's "
        "julian_date_epoch, whose normal forms agree), a copy of an existing row's key, or a parameter all of whose "
        "call sites pass one; never an ad-hoc conversion or arithmetic on a date",
    )
    sinks = []
    for fi in p.all_functions(include_nested=True):
        if not fi.module.name.startswith(RUN_MODULE_PREFIXES):
            continue
        for c in walk_no_nested(fi.node):
            if isinstance(c, ast.Call):
                for k in c.keywords:
                    if k.arg in EPOCH_KW:
                        sinks.append((fi, c, k))
    for fi, c, k in sinks:
        cons = f"{fi.qualname}:{call_name(c)}({k.arg}=)"
        cl = _canonical(k.value, fi, p, t)
        if cl == "canonical":
            r.ok(cons, f"{unparse(k.value)} (canonical epoch source)", fi.loc(c))
        elif cl == "copied":
            r.ok(cons, f"{unparse(k.value)} (copy of an existing key)", fi.loc(c))
        elif isinstance(cl, tuple):
            # follow the parameter to the call sites of this function
            prm = cl[1]
            sites = [(g, cc) for g in p.all_functions(include_nested=True) for cc in walk_no_nested(g.node) if isinstance(cc, ast.Call) and call_name(cc) == fi.name and g.module.name.startswith(RUN_MODULE_PREFIXES)]
            params = fi.params[1:] if fi.cls is not None and fi.kind != "staticmethod" else fi.params
            verdicts = []
            for g, cc in sites:
                arg = None
                if prm in params and params.index(prm) < len(cc.args):
                    arg = cc.args[params.index(prm)]
                for kw in cc.keywords:
                    if kw.arg == prm:
                        arg = kw.value
                if arg is not None:
                    verdicts.append((_canonical(arg, g, p, t), g, cc, arg))
            if fi.name == "fromMeasurement" or not verdicts:
                # forwarding constructor: its own call sites are sinks themselves (epoch_jd=...)
                r.trivial(cons, "parameter forwarded; checked at the call sites", fi.loc(c))
            else:
                bad = [(v, g, cc, a) for v, g, cc, a in verdicts if v == "ad-hoc"]
                if bad:
                    v, g, cc, a = bad[0]
                    r.violation(cons, f"ad-hoc-epoch-arg:{unparse(a)}", f"`{fi.name}` receives its row epoch `{prm}` from `{unparse(a)}` in {g.qualname}: an ad-hoc date that may not equal any Epoch row", g.loc(cc))
                else:
                    r.ok(cons, f"parameter `{prm}` <- {[unparse(a) for _v, _g, _c, a in verdicts]}", fi.loc(c))
        else:
            r.violation(cons, f"ad-hoc-epoch:{unparse(k.value)}", f"the row's epoch key is `{unparse(k.value)}`: rows must be keyed by the canonical step epoch (julian_date_epoch), otherwise they reference an epoch that has no Epoch row", fi.loc(c))
    # the canonical sources agree
    a = p.func("Agent.julian_date_epoch")
    c = p.func("ScenarioClock.julian_date_epoch")

    def agree():
        ba, bc = property_body(a), property_body(c)
        require(ba is not None and bc is not None, "julian_date_epoch is not a single-return property", a.node)
        na = unparse(ba).replace("self._time", "T").replace("self.time", "T")
        nc = unparse(bc).replace("self._time", "T").replace("self.time", "T")
        if na == nc == "T.convertToJulianDate(self.julian_date_start)":
            r.ok("julian_date_epoch:agent==clock", na, a.loc())
        else:
            r.violation("julian_date_epoch:agent==clock", f"sources-differ:{na}|{nc}", f"agents compute their epoch as `{na}` but the clock as `{nc}`: agent rows and Epoch rows get different keys", a.loc())
        init = p.func("Agent.__init__")
        asg = {}
        for n in walk_no_nested(init.node):
            if isinstance(n, ast.Assign) and isinstance(n.targets[0], ast.Attribute):
                asg[n.targets[0].attr] = unparse(n.value)
        if asg.get("julian_date_start") == "clock.julian_date_start" and asg.get("_time") == "clock.time":
            r.ok("Agent.__init__:clock-copy", "agent start date and time are copies of the clock's", init.loc())
        else:
            r.violation("Agent.__init__:clock-copy", f"agent-clock:{asg.get('julian_date_start')}:{asg.get('_time')}", "agents do not take their start date / time from the scenario clock", init.loc())

    r.guard("julian_date_epoch", agree)


def rule_r2(chk, p, t):
    r = chk.rule(
        "C09.R2",
        "one transaction per step, who-may-write",
        5,
        "saveDatabaseOutput passes one list, fed by every row producer, to one unconditional bulkSave at its end; the "
        "only writers of the output database are saveDatabaseOutput, the clock constructor and the builder's setup",
    )
    sdo = p.func("Scenario.saveDatabaseOutput")

    def one():
        bs = find_calls(sdo.node, "bulkSave")
        if len(bs) != 1:
            r.violation(sdo.qualname + ":bulkSave", f"bulkSave-count:{len(bs)}", f"saveDatabaseOutput calls bulkSave {len(bs)} times: a step's rows are committed in several transactions (or none), not all together", sdo.loc())
            return
        top = top_level_stmt(sdo.node, bs[0])
        if not (isinstance(top, ast.Expr) and top.value is bs[0] and sdo.node.body[-1] is top):
            r.violation(sdo.qualname + ":bulkSave", "bulkSave-not-final", "bulkSave is not the unconditional last statement of saveDatabaseOutput: part of a step's rows can be committed separately or not at all", sdo.loc(bs[0]))
            return
        lst = bs[0].args[0]
        require(isinstance(lst, ast.Name), "bulkSave argument is not the output list", bs[0])
        # every producer feeds that list
        prods = []
        for n in walk_no_nested(sdo.node):
            if isinstance(n, ast.Call) and isinstance(n.func, ast.Attribute) and n.func.attr in ("extend", "append") and isinstance(n.func.value, ast.Name):
                prods.append(n)
        # tributaries: a list that is itself merged into the saved list (`saved.extend(part)`, `saved += part`) on
        # every path after each of its own producers feeds the saved list too
        cfg = cfg_of(sdo)
        saved = {lst.id}
        changed = True
        merges = {}
        while changed:
            changed = False
            for n in cfg.nodes:
                a = n.ast
                if n.kind != "stmt" or a is None:
                    continue
                src = dst = None
                if isinstance(a, ast.Expr) and isinstance(a.value, ast.Call) and isinstance(a.value.func, ast.Attribute) and a.value.func.attr == "extend" and isinstance(a.value.func.value, ast.Name) and a.value.args:
                    dst, arg = a.value.func.value.id, a.value.args[0]
                    if isinstance(arg, ast.Name):
                        src = arg.id
                    elif isinstance(arg, (ast.GeneratorExp, ast.ListComp)) and len(arg.generators) == 1 and not arg.generators[0].ifs and isinstance(arg.generators[0].iter, ast.Name) and unparse(arg.elt) == unparse(arg.generators[0].target):
                        src = arg.generators[0].iter.id
                elif isinstance(a, ast.AugAssign) and isinstance(a.op, ast.Add) and isinstance(a.target, ast.Name) and isinstance(a.value, ast.Name):
                    dst, src = a.target.id, a.value.id
                if dst in saved and src is not None and src not in saved and src not in sdo.params:
                    merges.setdefault(src, []).append(n.id)
            for src, sites in merges.items():
                if src not in saved:
                    saved.add(src)
                    changed = True
        late = []
        for x in prods:
            nm = x.func.value.id
            if nm in merges:
                nd = cfg.node_of(x)
                if nd is not None and nd.id not in merges[nm] and not cfg.must_pass(cfg.exit.id, via_nodes=merges[nm], start=nd.id):
                    late.append(x)
        other = [x for x in prods if x.func.value.id not in saved and x.func.value.id not in ("detected_maneuvers",)] + late
        feeding = [x for x in prods if x.func.value.id in saved]
        if other:
            r.violation(sdo.qualname + ":producers", f"other-list:{unparse(other[0])[:60]}", f"`{unparse(other[0])[:70]}` collects rows in a list that is not the one saved", sdo.loc(other[0]))
        elif len(feeding) >= 6:
            r.ok(sdo.qualname + ":producers", f"{len(feeding)} producers extend `{lst.id}`, saved by one bulkSave", sdo.loc(bs[0]))
        else:
            r.violation(sdo.qualname + ":producers", f"producers:{len(feeding)}", f"only {len(feeding)} row producers feed the saved list (truth x2, estimates, maneuvers, observations, misses, tasks, filter steps expected)", sdo.loc())
        # required producers by callee
        need = ["getCurrentEphemeris", "getDetectedManeuvers", "getCurrentObservations", "getCurrentMissedObservations", "getCurrentTasking", "getFilterSteps"]
        for nm in need:
            calls = find_calls(sdo.node, nm)
            if not calls:
                r.violation(sdo.qualname + f":{nm}", f"producer-missing:{nm}", f"saveDatabaseOutput no longer collects the rows of {nm}()", sdo.loc())
            else:
                r.ok(sdo.qualname + f":{nm}", f"{len(calls)} call(s)", sdo.loc(calls[0]))

    r.guard(sdo.qualname, one)
    # who may write
    n = 0
    for fi in p.all_functions(include_nested=True):
        for c in walk_no_nested(fi.node):
            if isinstance(c, ast.Call) and isinstance(c.func, ast.Attribute) and c.func.attr in ("insertData", "bulkSave", "deleteData", "_insertData", "resetData"):
                if fi.cls is not None and fi.cls.name in ("DataInterface", "ImporterDatabase", "ResonaateDatabase"):
                    continue
                if not fi.module.name.startswith("resonaate.") or fi.module.name.startswith(("resonaate.data.", "resonaate.common.")):
                    if not fi.module.name.startswith("resonaate.data.events"):
                        continue
                n += 1
                cons = f"{fi.qualname}:{c.func.attr}"
                epoch_only = c.func.attr == "insertData" and len(c.args) == 1 and isinstance(c.args[0], ast.Call) and call_name(c.args[0]) == "Epoch" and fi.qualname.endswith("Scenario.stepForward")
                if fi.qualname in ALLOWED_DB_WRITERS:
                    r.ok(cons, ALLOWED_DB_WRITERS[fi.qualname], fi.loc(c))
                elif epoch_only:
                    r.ok(cons, "epoch insert of the step (insert-if-absent, C09.R6 form a)", fi.loc(c))
                else:
                    r.violation(cons, f"unexpected-writer:{c.func.attr}", f"`{unparse(c)[:70]}` writes the database outside the per-step transaction (allowed writers: saveDatabaseOutput, the clock constructor, the builder's setup)", fi.loc(c))


def rule_r3(chk, p, t):
    r = chk.rule(
        "C09.R3",
        "session typestate",
        4,
        "_getSessionScope commits only on the normal path after the yield, rolls back and re-raises on the handled "
        "exception path, closes on all paths; every writing method runs inside the scope",
    )
    di = p.cls("resonaate.data.data_interface.DataInterface")
    sc = di.methods.get("_getSessionScope")

    def one():
        require(sc is not None, "_getSessionScope not found", di.node)
        tries = [n for n in walk_no_nested(sc.node) if isinstance(n, ast.Try)]
        require(len(tries) == 1, "one try statement expected", sc.node)
        tr = tries[0]
        body_calls = [unparse(s) for s in tr.body]
        bad = []
        yi = [i for i, s in enumerate(tr.body) if isinstance(s, ast.Expr) and isinstance(s.value, ast.Yield)]
        ci = [i for i, s in enumerate(tr.body) if isinstance(s, ast.Expr) and isinstance(s.value, ast.Call) and call_name(s.value) == "commit"]
        if len(yi) != 1 or len(ci) != 1 or not yi[0] < ci[0]:
            bad.append(f"try body is {body_calls}: expected `yield session` then `session.commit()`")
        for part, name in ((tr.finalbody, "finally"), (tr.orelse, "else")):
            for s in part:
                if any(isinstance(x, ast.Call) and call_name(x) == "commit" for x in ast.walk(s)):
                    bad.append(f"commit in the {name} block (would commit after an error)" if name == "finally" else "")
        for h in tr.handlers:
            txt = [unparse(s) for s in h.body]
            if any(isinstance(x, ast.Call) and call_name(x) == "commit" for s in h.body for x in ast.walk(s)):
                bad.append("commit inside an exception handler")
            if not any(isinstance(x, ast.Call) and call_name(x) == "rollback" for s in h.body for x in ast.walk(s)):
                bad.append(f"handler {unparse(h.type) if h.type else 'bare'} does not roll back")
            if not any(isinstance(s, ast.Raise) and s.exc is None for s in h.body):
                bad.append(f"handler {unparse(h.type) if h.type else 'bare'} swallows the exception ({txt})")
        if not tr.handlers:
            bad.append("no exception handler: a failed step is never rolled back")
        if not any(isinstance(x, ast.Call) and call_name(x) == "close" for s in tr.finalbody for x in ast.walk(s)):
            bad.append("session is not closed in finally")
        bad = [b for b in bad if b]
        decs = [unparse(d) for d in sc.node.decorator_list]
        if "contextmanager" not in decs:
            bad.append("not a @contextmanager")
        if bad:
            r.violation(sc.qualname, "session-scope:" + ";".join(bad), "the transactional scope is broken: " + "; ".join(bad), sc.loc())
        else:
            r.ok(sc.qualname, "yield; commit | except: rollback; raise | finally: close", sc.loc())

    r.guard("session-scope", one)
    for name in ("insertData", "bulkSave", "deleteData"):
        m = di.methods.get(name)

        def two(m=m, name=name):
            require(m is not None, f"{name} not found", di.node)
            withs = [n for n in walk_no_nested(m.node) if isinstance(n, ast.With) and any(isinstance(i.context_expr, ast.Call) and call_name(i.context_expr) == "_getSessionScope" for i in n.items)]
            writes = [c for c in walk_no_nested(m.node) if isinstance(c, ast.Call) and isinstance(c.func, ast.Attribute) and c.func.attr in ("add", "add_all", "delete", "bulk_save_objects", "merge")]
            inside = [c for c in writes if any(c in list(ast.walk(w)) for w in withs)]
            commits = [c for c in walk_no_nested(m.node) if isinstance(c, ast.Call) and call_name(c) == "commit"]
            if writes and len(inside) == len(writes) and len(withs) == 1 and not commits:
                r.ok(f"{di.qualname}.{name}", "writes only inside one session scope, no explicit commit", m.loc())
            else:
                r.violation(f"{di.qualname}.{name}", f"unscoped-write:{len(writes)}:{len(inside)}:{len(withs)}:{len(commits)}", f"{name} writes outside the transactional scope, opens several scopes or commits by itself: a step's rows are no longer all-or-nothing", m.loc())

        r.guard(f"{di.qualname}.{name}", two)


def rule_r4(chk, p, t):
    r = chk.rule(
        "C09.R4",
        "one contribution per collection; drained buffers",
        6,
        "each agent collection contributes one ephemeris per agent per call (read-only producers); maneuver and "
        "filter-step buffers are drained by their accessors; tasks are produced once per (target, sensor) pair",
    )
    sdo = p.func("Scenario.saveDatabaseOutput")
    ea = EffectAnalysis(p, t)

    def one():
        comps = [n for n in walk_no_nested(sdo.node) if isinstance(n, (ast.ListComp, ast.GeneratorExp)) and isinstance(n.elt, ast.Call) and call_name(n.elt) == "getCurrentEphemeris"]

        def strip(it):
            while isinstance(it, ast.Call) and call_name(it) in ("list", "tuple", "iter") and len(it.args) == 1:
                it = it.args[0]
            return unparse(it)

        colls = [strip(c.generators[0].iter) for c in comps]
        # the same collection written as a statement loop: `for a in coll: out.append(a.getCurrentEphemeris())`
        cfg = cfg_of(sdo)
        pm = parents_map(sdo.node)
        in_comp = {id(c.elt) for c in comps}
        for c in find_calls(sdo.node, "getCurrentEphemeris"):
            if id(c) in in_comp or not (isinstance(c.func, ast.Attribute) and isinstance(c.func.value, ast.Name)):
                continue
            cur, loop = c, None
            while cur in pm:
                cur = pm[cur]
                if isinstance(cur, ast.For) and isinstance(cur.target, ast.Name) and cur.target.id == c.func.value.id:
                    loop = cur
                    break
            require(loop is not None, "getCurrentEphemeris is not called on the element of a loop over an agent collection", c)
            colls.append(strip(loop.iter))
            nd = cfg.node_of(c)
            inner = [cfg.nodes[cid] for cid, _lab in cfg.control_conditions(nd.id)] if nd is not None else []
            if any(x.kind == "cond" and any(y is x.ast for y in ast.walk(loop)) for x in inner):
                r.violation(sdo.qualname + ":ephemerides", f"filtered:{unparse(loop.iter)[:60]}", "an agent collection is filtered: some agents get no record for the epoch", sdo.loc(c))
        exp = {"self.target_agents.values()", "self.sensor_agents.values()", "self.estimate_agents.values()"}
        if sorted(colls) == sorted(exp):
            r.ok(sdo.qualname + ":ephemerides", "one pass over targets, sensors, estimates each", sdo.loc())
        else:
            r.violation(sdo.qualname + ":ephemerides", f"collections:{sorted(colls)}", f"ephemerides are collected over {sorted(colls)}; each of targets / sensors / estimates must be iterated exactly once (a second pass duplicates every row of that epoch)", sdo.loc())
        for c in comps:
            if c.generators[0].ifs:
                r.violation(sdo.qualname + ":ephemerides", f"filtered:{unparse(c)[:60]}", "an agent collection is filtered: some agents get no record for the epoch", sdo.loc(c))

    r.guard(sdo.qualname, one)
    for q in ("TargetAgent.getCurrentEphemeris", "SensingAgent.getCurrentEphemeris", "EstimateAgent.getCurrentEphemeris"):
        m = p.func(q)
        effs = [e for e in ea.effects(m) if e.root == "self"]
        if effs:
            r.violation(m.qualname, f"producer-writes:{effs[0].path}", f"{m.name} modifies the agent ({effs[0].path}): output cadence would feed back into the simulation", m.loc())
        else:
            r.ok(m.qualname, "read-only producer", m.loc())
    for q, buf in (("EstimateAgent.getDetectedManeuvers", "_detected_maneuvers"), ("EstimateAgent.getFilterSteps", "_filter_info")):
        m = p.func(q)

        def drain(m=m, buf=buf):
            body = [s for s in m.node.body if not (isinstance(s, ast.Expr) and isinstance(s.value, ast.Constant))]
            rets = [s for s in body if isinstance(s, ast.Return)]
            require(len(rets) == 1 and isinstance(rets[0].value, ast.Name), f"{m.name} is not `x = self.buf; self.buf = []; return x`", m.node)
            local = rets[0].value.id
            src = reset = None
            for i, s in enumerate(body):
                if isinstance(s, ast.Assign) and isinstance(s.targets[0], ast.Name) and s.targets[0].id == local and isinstance(s.value, ast.Attribute):
                    src = (i, s.value.attr)
                if isinstance(s, ast.Assign) and isinstance(s.targets[0], ast.Attribute) and unparse(s.value) in ("[]", "list()"):
                    reset = (i, s.targets[0].attr)
            if src and reset and src[1] == reset[1] and src[0] < reset[0]:
                r.ok(m.qualname, f"drains self.{src[1]}", m.loc())
            else:
                r.violation(m.qualname, f"not-drained:{src}:{reset}", f"{m.name} does not drain its buffer (read, rebind empty, return): the same rows are written at every output step", m.loc())

        r.guard(m.qualname, drain)
    gt = p.func("CentralizedTaskingEngine.getCurrentTasking")

    def tasks():
        loops = [n for n in walk_no_nested(gt.node) if isinstance(n, ast.For)]
        its = sorted(unparse(l.iter) for l in loops)
        ys = [n for n in walk_no_nested(gt.node) if isinstance(n, ast.Yield)]
        ok = its == ["self.sensor_indices.items()", "self.target_indices.items()"] and len(ys) == 1
        if ok:
            kws = {k.arg: unparse(k.value) for k in ys[0].value.keywords}
            tv = [unparse(x) for l in loops for x in ast.walk(l.target) if isinstance(x, ast.Name)]
            ok = kws.get("julian_date") == gt.params[1] and kws.get("target_id") in tv and kws.get("sensor_id") in tv
            for col in ("visibility", "reward", "decision"):
                v = kws.get(col, "")
                ok = ok and v.startswith(f"self.{col}_matrix[") and all(x in v for x in tv if x.endswith("ind"))
        if ok:
            r.ok(gt.qualname, "one Task per (target, sensor) pair, matrices read at that pair's indices", gt.loc())
        else:
            r.violation(gt.qualname, "task-rows", "getCurrentTasking does not yield exactly one Task per (target, sensor) pair with that pair's matrix entries", gt.loc())

    r.guard(gt.qualname, tasks)
    # output condition
    pt = p.func("Scenario.propagateTo")

    def outcond():
        calls = find_calls(pt.node, "saveDatabaseOutput")
        require(len(calls) == 1, "propagateTo does not call saveDatabaseOutput once", pt.node)
        pm = parents_map(pt.node)
        cur = calls[0]
        cond = None
        while cur in pm:
            cur = pm[cur]
            if isinstance(cur, ast.If):
                cond = cur.test
                break
        want = canon(ast.parse("self.clock.time % self.output_time_step == 0", mode="eval").body)
        if cond is not None and canon(cond) == want:
            r.ok(pt.qualname + ":output-step", "output when clock.time % output_time_step == 0", pt.loc(calls[0]))
        else:
            r.violation(pt.qualname + ":output-step", f"output-cond:{unparse(cond) if cond is not None else None}", "database output is not triggered by `self.clock.time % self.output_time_step == 0`", pt.loc(calls[0]))

    r.guard(pt.qualname, outcond)


def rule_r5(chk, p, t):
    r = chk.rule(
        "C09.R5",
        "agent rows exist before agent-referencing events",
        5,
        "every event configuration whose event stores an agent id declares an AgentModel data dependency (with "
        "creation attributes for additions, query-only for removals), and the builder loads agents before events and "
        "dependencies before the events that need them",
    )
    base = p.cls("resonaate.scenario.config.event_configs.EventConfigBase")
    event = p.cls("resonaate.data.events.base.Event")
    for cs in p.subclasses(base):
        gec = cs.methods.get("getEventClass")
        if gec is None:
            continue
        rets = [n for n in walk_no_nested(gec.node) if isinstance(n, ast.Return) and isinstance(n.value, ast.Name)]
        if not rets:
            continue
        ev = p.classes.get(p.resolve_dotted(cs.module, rets[0].value.id))
        if ev is None or ev not in p.subclasses(event):
            continue
        # does the event carry an agent foreign key?
        fk = any("agents.unique_id" in unparse(v) for v in list(ev.class_attrs.values()) + [m.node for m in ev.methods.values()])
        gdd = cs.methods.get("getDataDependencies")
        cons = cs.qualname
        if not fk:
            r.trivial(cons, f"{ev.name} stores no agent foreign key")
            continue
        if gdd is None:
            r.violation(cons, "dependency-missing", f"{ev.name} rows reference the agents table but {cs.name} declares no data dependency: the event row can dangle", cs.loc())
            continue
        deps = [c for c in walk_no_nested(gdd.node) if isinstance(c, ast.Call) and call_name(c) == "DataDependency"]
        ok = len(deps) == 1 and deps[0].args and unparse(deps[0].args[0]) == "AgentModel" and len(deps[0].args) >= 2 and "AgentModel.unique_id ==" in unparse(deps[0].args[1])
        appended = any(isinstance(c, ast.Call) and call_name(c) == "append" and deps and deps[0] in list(ast.walk(c)) for c in walk_no_nested(gdd.node))
        returns = any(isinstance(n, ast.Return) and n.value is not None and unparse(n.value) != "[]" for n in walk_no_nested(gdd.node))
        adds = "addition" in cs.name.lower() or "priority" in cs.name.lower()
        has_attrs = ok and len(deps[0].args) >= 3
        if not (ok and appended and returns):
            r.violation(cons, "dependency-shape", f"{cs.name}.getDataDependencies does not return an AgentModel dependency queried by the agent's unique_id", gdd.loc())
        elif adds and not has_attrs:
            r.violation(cons, "dependency-not-creatable", f"{cs.name} adds an agent but its dependency has no creation attributes: the agent row is never inserted", gdd.loc())
        else:
            # the id queried is the id the event stores
            q = unparse(deps[0].args[1])
            r.ok(cons, f"AgentModel dependency: {q[:80]}", gdd.loc())
    b = p.func("ScenarioBuilder.__init__")

    def order():
        la = find_calls(b.node, "_loadAgentsIntoDatabase")
        le = find_calls(b.node, "_loadEventsIntoDatabase")
        require(len(la) == 1 and len(le) == 1, "builder does not call both loaders once", b.node)
        if la[0].lineno < le[0].lineno:
            r.ok(b.qualname + ":order", "agents loaded before events", b.loc(la[0]))
        else:
            r.violation(b.qualname + ":order", "events-before-agents", "events are loaded before the agent rows they reference", b.loc(le[0]))
        lev = p.func("ScenarioBuilder._loadEventsIntoDatabase")
        ins = find_calls(lev.node, "insertData")
        dep_ins = [c for c in ins if "dependency" in unparse(c)]
        ev_ins = [c for c in ins if "built_events" in unparse(c)]
        if dep_ins and ev_ins and all(d.lineno < e.lineno for d in dep_ins for e in ev_ins):
            r.ok(lev.qualname, "dependencies inserted before the events", lev.loc())
        else:
            r.violation(lev.qualname, "dependency-after-event", "event rows are inserted before / without their data dependencies", lev.loc())
        cfgl = cfg_of(lev)
        crt = find_calls(lev.node, "createDependency")
        if crt:
            node = cfgl.node_of(crt[0])
            conds = cfgl.control_conditions(node.id)
            found = any("getData" in unparse(cfgl.nodes[cid].ast) and lab is False for cid, lab in conds)
            if found:
                r.ok(lev.qualname + ":insert-if-absent", "dependency created only when the query finds nothing", lev.loc(crt[0]))
            else:
                r.violation(lev.qualname + ":insert-if-absent", "dependency-duplicated", "a data dependency is created without first checking that it is absent: duplicate agent rows", lev.loc(crt[0]))

    r.guard(b.qualname, order)


def rule_r6_r7(chk, p, t):
    r6 = chk.rule(
        "C09.R6",
        "epoch coverage of buffered rows",
        2,
        "rows are produced at every step but written at output steps: either every step ensures its Epoch row after "
        "the tick, or every step records its epoch in a pending collection that saveDatabaseOutput ensures "
        "(insert-if-absent) before the bulk save and only then clears, or runs beyond the pre-inserted span are refused",
    )
    r7 = chk.rule(
        "C09.R7",
        "epoch pairing",
        2,
        "in every Epoch(...) construction of a run path the Julian date and the ISO timestamp come from the same time "
        "value, and the existence test uses the timestamp that is inserted",
    )
    step = p.func("Scenario.stepForward")
    sdo = p.func("Scenario.saveDatabaseOutput")

    scn = step.cls

    def expand(stmts):
        """Top-level statements with argument-less `self.<helper>()` statements replaced by the helper's body."""
        out = []
        for s in stmts:
            if isinstance(s, ast.Expr) and isinstance(s.value, ast.Call) and isinstance(s.value.func, ast.Attribute) and isinstance(s.value.func.value, ast.Name) and s.value.func.value.id == "self" and not s.value.args and not s.value.keywords and scn is not None:
                h = p.lookup_method(scn, s.value.func.attr)
                if h is not None and h.module.name.startswith("resonaate.scenario"):
                    defs = single_defs(h.node)
                    for b in h.node.body:
                        if isinstance(b, ast.Expr) and isinstance(b.value, ast.Constant):
                            continue
                        if isinstance(b, ast.Assign) and isinstance(b.targets[0], ast.Name) and b.targets[0].id in defs:
                            continue
                        out.append(ast.copy_location(inline_locals(h, b), s) if isinstance(b, (ast.Assign, ast.Expr)) else b)
                    continue
            out.append(s)
        return out

    def cover():
        tics = find_calls(step.node, "ticToc")
        require(len(tics) == 1, "one ticToc expected", step.node)
        tic_top = top_level_stmt(step.node, tics[0])
        ti = step.node.body.index(tic_top)
        step_after = expand(step.node.body[ti + 1 :])
        sdo_body = expand(sdo.node.body)
        # form (a): unconditional insert-if-absent of an Epoch after the tick
        form_a = False
        for s in step.node.body[ti + 1 :]:
            if any(isinstance(c, ast.Call) and call_name(c) == "Epoch" for c in ast.walk(s)) and any(isinstance(c, ast.Call) and call_name(c) == "insertData" for c in ast.walk(s)):
                form_a = True
        # form (b): pending collection
        pend = None
        for s in step_after:
            if isinstance(s, ast.Assign) and isinstance(s.targets[0], ast.Subscript) and isinstance(s.targets[0].value, ast.Attribute) and isinstance(s.targets[0].value.value, ast.Name) and s.targets[0].value.value.id == "self":
                key = unparse(s.targets[0].slice)
                val = unparse(s.value)
                if "datetime_epoch.isoformat" in key:
                    pend = (s.targets[0].value.attr, s, key, val)
            if isinstance(s, ast.Expr) and isinstance(s.value, ast.Call) and call_name(s.value) in ("append", "add") and "epoch" in unparse(s.value).lower():
                f = s.value.func.value
                if isinstance(f, ast.Attribute):
                    pend = (f.attr, s, unparse(s.value), unparse(s.value))
        # form (c): propagateTo refuses targets beyond the pre-inserted span
        pt = p.func("Scenario.propagateTo")
        form_c = any(isinstance(n, ast.Compare) and ("julian_date_stop" in unparse(n) or "stop_time" in unparse(n) or "time_span" in unparse(n)) for n in walk_no_nested(pt.node)) and any(isinstance(n, ast.Raise) for n in walk_no_nested(pt.node))
        cons = step.qualname + ":epoch-recorded"
        if form_a:
            r6.ok(cons, "form (a): the step ensures its Epoch row after the tick", step.loc())
            r6.trivial(sdo.qualname + ":pending-ensured", "form (a) needs no pending collection")
            return None
        if pend is None and not form_c:
            r6.violation(
                cons,
                "epochs-of-intermediate-steps-never-inserted",
                "rows are buffered at every step (observations, misses, maneuvers, filter steps) but Epoch rows exist only for the configured span and for output steps: with an output step larger than the physics step, rows of intermediate steps beyond the configured stop reference epochs that are never inserted",
                step.loc(),
            )
            return None
        if pend is None and form_c:
            r6.ok(cons, "form (c): runs beyond the pre-inserted span are refused", pt.loc())
            r6.trivial(sdo.qualname + ":pending-ensured", "form (c)")
            return None
        fld, stmt, key, val = pend
        r6.ok(cons, f"form (b): self.{fld}[{key[:50]}] = {val}", step.loc(stmt))
        # the recorded Julian date is the clock's own value for that epoch - the float every buffered row carries as
        # its foreign key - not a value recomputed by another route (equal only up to one unit in the last place)
        own_jd = {"self.clock.julian_date_epoch"}
        for n in walk_no_nested(step.node):
            if isinstance(n, ast.Assign) and unparse(n.value) == "self.clock.julian_date_epoch" and n.lineno > tic_top.lineno:
                own_jd.add(unparse(n.targets[0]))
        c3 = step.qualname + ":epoch-julian-date"
        if val in own_jd and key.startswith("self.clock.datetime_epoch.isoformat("):
            r6.ok(c3, f"pending epoch = (clock timestamp, {val})", step.loc(stmt))
        else:
            r6.violation(c3, f"pending-julian-date:{val[:60]}", f"the pending Epoch of a step is recorded as `{key[:60]}` -> `{val[:60]}`: its Julian date must be the clock's own `self.clock.julian_date_epoch` (the value the step's rows carry as foreign key); a date recomputed from the timestamp differs by one unit in the last place for most start times, so rows of steps beyond the pre-inserted span reference no Epoch", step.loc(stmt))
        # saveDatabaseOutput ensures every pending epoch before bulkSave and clears afterwards
        loops = [n for n in walk_no_nested(sdo.node) if isinstance(n, ast.For) and f"self.{fld}" in unparse(n.iter)]
        bs = find_calls(sdo.node, "bulkSave")
        c2 = sdo.qualname + ":pending-ensured"
        if len(loops) != 1 or not bs:
            r6.violation(c2, "pending-not-ensured", f"saveDatabaseOutput does not iterate self.{fld} to ensure the recorded epochs", sdo.loc())
            return None
        lp = loops[0]
        ins = [c for c in ast.walk(lp) if isinstance(c, ast.Call) and call_name(c) == "insertData"]
        ep = [c for c in ast.walk(lp) if isinstance(c, ast.Call) and call_name(c) == "Epoch"]
        guard = [n for n in ast.walk(lp) if isinstance(n, ast.If) and "getData" in unparse(n.test)]
        # insert-if-absent, however the branch is written: the insert is reached only when the lookup found nothing
        absent_only = False
        if ins:
            cfg_s = cfg_of(sdo)
            try:
                inode = cfg_s.node_of(ins[0])
                for cid, lab in cfg_s.control_conditions(inode.id):
                    tst = cfg_s.nodes[cid].ast
                    txt = unparse(tst)
                    if "getData" in txt:
                        neg = isinstance(tst, ast.UnaryOp) and isinstance(tst.op, ast.Not)
                        if (neg and lab is True) or (not neg and lab is False):
                            absent_only = True
            except KeyError:
                pass
        clears = [n for n in walk_no_nested(sdo.node) if (isinstance(n, ast.Assign) and unparse(n.targets[0]) == f"self.{fld}" and unparse(n.value) in ("{}", "dict()", "[]", "set()")) or (isinstance(n, ast.Call) and call_name(n) == "clear" and f"self.{fld}" in unparse(n))]
        bad = []
        if not ins or not ep:
            bad.append("the loop does not insert an Epoch row")
        if not absent_only:
            bad.append("the insert is not guarded by `if not <lookup>` (duplicate epochs violate the unique key)")
        if lp.lineno > bs[0].lineno:
            bad.append("epochs are ensured after the bulk save")
        if not clears:
            bad.append("the pending collection is never cleared")
        elif clears[0].lineno < lp.lineno:
            bad.append("the pending collection is cleared before it is ensured")
        if any(isinstance(a, ast.If) for a in _anc(lp, parents_map(sdo.node))):
            bad.append("the ensure loop is conditional")
        if bad:
            r6.violation(c2, "pending:" + ";".join(bad), "pending epochs are not reliably inserted: " + "; ".join(bad), sdo.loc(lp))
        else:
            r6.ok(c2, "every pending epoch is inserted if absent before bulkSave, then the collection is cleared", sdo.loc(lp))
        # the current epoch is part of the pending set at save time (initial save happens before any step)
        cur = [n for n in sdo_body if isinstance(n, ast.Assign) and isinstance(n.targets[0], ast.Subscript) and f"self.{fld}" in unparse(n.targets[0]) and n.lineno < lp.lineno]
        if cur and unparse(cur[0].value) not in ("self.clock.julian_date_epoch", "self.current_julian_date"):
            r6.violation(sdo.qualname + ":current-epoch", f"current-epoch-julian-date:{unparse(cur[0].value)[:60]}", f"saveDatabaseOutput records the current epoch with `{unparse(cur[0].value)[:60]}` instead of the clock's own Julian date: the Epoch row and the rows that reference it carry different floats", sdo.loc(cur[0]))
        elif cur:
            r6.ok(sdo.qualname + ":current-epoch", "the current epoch is added to the pending set before ensuring", sdo.loc(cur[0]))
        else:
            r6.violation(sdo.qualname + ":current-epoch", "current-epoch-not-ensured", "saveDatabaseOutput does not ensure the current epoch (the initial save runs before any step)", sdo.loc())
        return (fld, lp, ep[0] if ep else None, guard[0] if guard else None)

    info = r6.guard("epoch-coverage", cover)

    def pairing():
        ci = p.func("ScenarioClock.__init__")
        eps = [c for c in walk_no_nested(ci.node) if isinstance(c, ast.Call) and call_name(c) == "Epoch"]
        require(len(eps) == 1, "clock constructor builds one Epoch per iteration", ci.node)
        kws = {k.arg: k.value for k in eps[0].keywords}
        defs = single_defs(ci.node)
        jd = kws.get("julian_date")
        jd_e = defs.get(jd.id) if isinstance(jd, ast.Name) else jd
        ts = kws.get("timestampISO")
        vars_jd = {n.id for n in ast.walk(jd_e) if isinstance(n, ast.Name)} if jd_e is not None else set()
        vars_ts = {n.id for n in ast.walk(ts) if isinstance(n, ast.Name)} if ts is not None else set()
        loopvar = vars_jd & vars_ts - {"timedelta", "start_date"}
        start_alias = any(isinstance(n, ast.Assign) and unparse(n.targets[0]) == "self.datetime_start" and unparse(n.value) == "start_date" for n in walk_no_nested(ci.node))
        ts_txt = unparse(ts) if ts is not None else ""
        base_ok = "start_date + timedelta(seconds=" in ts_txt or (start_alias and "self.datetime_start + timedelta(seconds=" in ts_txt)
        loopvar = loopvar - {"self"}
        # the same scenario time converted by its own method is the same instant
        for v_ in sorted(loopvar):
            if f"{v_}.convertToDatetime(start_date)" in ts_txt or (start_alias and f"{v_}.convertToDatetime(self.datetime_start)" in ts_txt):
                base_ok = True
        ok = bool(loopvar) and "convertToJulianDate(self.julian_date_start)" in unparse(jd_e) and base_ok and "isoformat(timespec='microseconds')" in ts_txt
        if ok:
            r7.ok(ci.qualname, f"both from `{sorted(loopvar)[0]}`", ci.loc(eps[0]))
        else:
            r7.violation(ci.qualname, f"pairing:{unparse(jd_e) if jd_e is not None else None}|{unparse(ts) if ts is not None else None}", "the pre-inserted epochs pair a Julian date and a timestamp that are not computed from the same scenario time", ci.loc(eps[0]))
        eps2 = [c for c in walk_no_nested(sdo.node) if isinstance(c, ast.Call) and call_name(c) == "Epoch"]
        if not eps2:
            r7.trivial(sdo.qualname, "saveDatabaseOutput builds no Epoch")
            return
        k2 = {k.arg: unparse(k.value) for k in eps2[0].keywords}
        # same pair that was recorded / same clock state; lookup uses the inserted timestamp
        tests = [unparse(n) for n in walk_no_nested(sdo.node) if isinstance(n, ast.Compare) and "timestampISO" in unparse(n)]
        same_ts = any(k2.get("timestampISO") in tt for tt in tests)
        pair_ok = False
        for lp in [n for n in walk_no_nested(sdo.node) if isinstance(n, ast.For) and eps2[0] in list(ast.walk(n))]:
            tv = [x.id for x in ast.walk(lp.target) if isinstance(x, ast.Name)]
            if len(tv) == 2 and k2.get("timestampISO") == tv[0] and k2.get("julian_date") == tv[1] and ".items()" in unparse(lp.iter):
                pair_ok = True
        if "clock.julian_date_epoch" in k2.get("julian_date", "") and "clock.datetime_epoch" in k2.get("timestampISO", ""):
            pair_ok = True
        if same_ts and pair_ok:
            r7.ok(sdo.qualname, "Epoch(julian_date, timestampISO) is the recorded pair; lookup by the same timestamp", sdo.loc(eps2[0]))
        else:
            r7.violation(sdo.qualname, f"pairing:{sorted(k2.items())}:{tests}", "the inserted Epoch does not pair the recorded Julian date with its own timestamp, or the existence test looks up another timestamp", sdo.loc(eps2[0]))
        # the recorded pair belongs to one clock state
        recs = [n for n in walk_no_nested(step.node) if isinstance(n, ast.Assign) and isinstance(n.targets[0], ast.Subscript) and "_pending_epochs" in unparse(n.targets[0])]
        recs += [n for n in walk_no_nested(sdo.node) if isinstance(n, ast.Assign) and isinstance(n.targets[0], ast.Subscript) and "_pending_epochs" in unparse(n.targets[0])]
        for n in recs:
            key, val = unparse(n.targets[0].slice), unparse(n.value)
            good = key == "self.clock.datetime_epoch.isoformat(timespec='microseconds')" and val in ("self.clock.julian_date_epoch", "self.current_julian_date")
            cons = f"record@{n.lineno}"
            if good:
                r7.ok("pending-record:" + val, "timestamp and Julian date of the same clock state", step.loc(n))
            else:
                r7.violation("pending-record:" + val, f"record:{key}:{val}", f"the recorded epoch pairs `{key}` with `{val}`", step.loc(n))
            _ = cons

    r7.guard("epoch-pairing", pairing)


def _anc(node, pm):
    out = []
    cur = node
    while cur in pm:
        cur = pm[cur]
        out.append(cur)
    return out


def rule_r8(chk, p, t):
    r = chk.rule(
        "C09.R8",
        "column slot agreement",
        6,
        "each of the 6 state and 36 covariance columns is written from index [i] / [i][j] and read back at the same "
        "position (the column name encodes the index); MUTABLE_COLUMN_NAMES lists every column",
    )
    STATE = ["pos_x_km", "pos_y_km", "pos_z_km", "vel_x_km_p_sec", "vel_y_km_p_sec", "vel_z_km_p_sec"]

    def writes(fn, src):
        out = {}
        for n in walk_no_nested(fn.node):
            if isinstance(n, ast.Assign) and isinstance(n.targets[0], ast.Subscript) and isinstance(n.targets[0].slice, ast.Constant) and isinstance(n.targets[0].slice.value, str):
                col = n.targets[0].slice.value
                v = n.value
                idx = []
                while isinstance(v, ast.Subscript) and isinstance(v.slice, ast.Constant) and isinstance(v.slice.value, int):
                    idx.append(v.slice.value)
                    v = v.value
                if isinstance(v, ast.Subscript) and isinstance(v.slice, ast.Constant) and v.slice.value == src:
                    out[col] = tuple(reversed(idx))
        return out

    for q in ("TruthEphemeris.fromECIVector", "EstimateEphemeris.fromCovarianceMatrix"):
        fn = p.func(q)

        def one(fn=fn):
            w = writes(fn, "eci")
            bad = [f"{c} <- eci[{w.get(c)}]" for i, c in enumerate(STATE) if w.get(c) != (i,)]
            if bad:
                r.violation(fn.qualname + ":state", "state-slots:" + ";".join(bad), f"state columns are written from the wrong vector index: {bad}", fn.loc())
            else:
                r.ok(fn.qualname + ":state", "6 state columns <- eci[0..5]", fn.loc(), obligations=6)
            if "Covariance" in fn.name:
                wc = writes(fn, "covariance")
                badc = []
                for i in range(6):
                    for j in range(6):
                        if wc.get(f"covar_{i}{j}") != (i, j):
                            badc.append(f"covar_{i}{j} <- covariance{list(wc.get(f'covar_{i}{j}') or [])}")
                if badc:
                    r.violation(fn.qualname + ":covariance", "covariance-slots:" + ";".join(badc[:6]), f"covariance columns are written from the wrong matrix element: {badc[:6]}", fn.loc())
                else:
                    r.ok(fn.qualname + ":covariance", "36 covariance columns <- covariance[i][j]", fn.loc(), obligations=36)
            dels = [unparse(n) for n in walk_no_nested(fn.node) if isinstance(n, ast.Delete)]
            rets = [n for n in walk_no_nested(fn.node) if isinstance(n, ast.Return) and n.value is not None]
            if not (rets and unparse(rets[-1].value) == f"{fn.params[0]}(**kwargs)"):
                r.violation(fn.qualname + ":ctor", "ctor", "the row is not built from the parsed keyword arguments", fn.loc())

        r.guard(fn.qualname, one)
    mix = p.cls("resonaate.data.ephemeris._EphemerisMixin")

    def reads():
        eci = mix.methods.get("eci")
        body = property_body(eci)
        require(isinstance(body, ast.List), "eci property is not a list literal", eci.node)
        cols = [e.attr if isinstance(e, ast.Attribute) else None for e in body.elts]
        if cols == STATE:
            r.ok(mix.qualname + ".eci", "read back in column order", eci.loc(), obligations=6)
        else:
            r.violation(mix.qualname + ".eci", f"read-order:{cols}", f"eci reads the columns back as {cols}", eci.loc())
        est = p.cls("resonaate.data.ephemeris.EstimateEphemeris")
        cov = est.methods.get("covariance")
        b = property_body(cov)
        require(isinstance(b, ast.List) and len(b.elts) == 6, "covariance property is not a 6x6 list literal", cov.node)
        bad = []
        for i, row in enumerate(b.elts):
            for j, e in enumerate(row.elts):
                if not (isinstance(e, ast.Attribute) and e.attr == f"covar_{i}{j}"):
                    bad.append(f"[{i}][{j}]={unparse(e)}")
        if bad:
            r.violation(est.qualname + ".covariance", "read-slots:" + ";".join(bad[:6]), f"covariance is read back with misplaced elements: {bad[:6]}", cov.loc())
        else:
            r.ok(est.qualname + ".covariance", "36 elements read back at [i][j]", cov.loc(), obligations=36)
        # MUTABLE_COLUMN_NAMES completeness
        for cls in (p.cls("resonaate.data.ephemeris.TruthEphemeris"), est):
            m = cls.class_attrs.get("MUTABLE_COLUMN_NAMES")
            names = [e.value for e in m.elts if isinstance(e, ast.Constant)] if isinstance(m, ast.Tuple) else []
            need = ["julian_date", "agent_id"] + STATE + ([f"covar_{i}{j}" for i in range(6) for j in range(6)] + ["source"] if cls is est else [])
            missing = [n for n in need if n not in names]
            dup = [n for n in names if names.count(n) > 1]
            if missing or dup:
                r.violation(cls.qualname + ".MUTABLE_COLUMN_NAMES", f"columns:{missing}:{sorted(set(dup))}", f"MUTABLE_COLUMN_NAMES misses {missing} / repeats {sorted(set(dup))}: equality and dictionaries ignore those columns", cls.loc())
            else:
                r.ok(cls.qualname + ".MUTABLE_COLUMN_NAMES", f"{len(names)} columns listed", cls.loc())

    r.guard("read-back", reads)
    obs = p.cls("resonaate.data.observation.Observation")

    def obs_slots():
        init = obs.methods.get("__init__")
        asg = {}
        for n in walk_no_nested(init.node):
            tg = n.targets[0] if isinstance(n, ast.Assign) else (n.target if isinstance(n, ast.AnnAssign) else None)
            if tg is not None and isinstance(tg, ast.Attribute) and n.value is not None:
                asg[tg.attr] = unparse(n.value)
        bad = [f"{c}={asg.get(c)}" for i, c in enumerate(STATE) if asg.get(c) != f"sensor_eci[{i}]"]
        se = p.lookup_method(obs, "sensor_eci")
        b = property_body(se) if se is not None else None
        cols = []
        if b is not None:
            lst = b.args[0] if isinstance(b, ast.Call) and b.args else b
            if isinstance(lst, (ast.List, ast.Tuple)):
                cols = [e.attr if isinstance(e, ast.Attribute) else None for e in lst.elts]
        if bad or cols != STATE:
            r.violation(obs.qualname + ":sensor_eci", f"obs-slots:{bad}:{cols}", f"the observation's sensor state columns are written {bad} / read back {cols}", obs.loc())
        else:
            r.ok(obs.qualname + ":sensor_eci", "sensor state written from sensor_eci[i] and read back in order", obs.loc(), obligations=12)
        for col, prm in (("azimuth_rad", "azimuth_rad"), ("elevation_rad", "elevation_rad"), ("range_km", "range_km"), ("range_rate_km_p_sec", "range_rate_km_p_sec"), ("julian_date", "float(julian_date)"), ("sensor_id", "sensor_id"), ("target_id", "target_id")):
            if asg.get(col) != prm:
                r.violation(obs.qualname + f":{col}", f"obs-col:{col}={asg.get(col)}", f"Observation.{col} is set from `{asg.get(col)}`", obs.loc())
        r.ok(obs.qualname + ":measurement-columns", "measurement and key columns set from their own arguments", obs.loc())

    r.guard(obs.qualname, obs_slots)



def rule_r10(chk, p, t):
    """Epoch-key sources may be cached only coherently (shared analysis rsa/memo.py, B)."""
    from rules.shared_memo import coherence_rule

    A, C = "resonaate.agents.agent_base.Agent", "resonaate.scenario.clock.ScenarioClock"
    coherence_rule(
        chk, p, t, "C09.R10",
        [(A, "julian_date_epoch"), (A, "datetime_epoch"), (A, "time"), (C, "julian_date_epoch"), (C, "datetime_epoch")],
        "the epoch-key sources of every stored row (Agent / ScenarioClock julian_date_epoch, datetime_epoch, time)",
    )

def rule_r11(chk, p, t):
    r = chk.rule(
        "C09.R11",
        "one clock per agent: job target times come from the registrant's own time",
        4,
        "every row an agent writes is stamped with the agent's `time`, which processResults copies from the job result; "
        "the result's time is the target time of the submission.  So every submission field typed ScenarioTime must be "
        "built from the registrant's own clock - `self._registrant.time` (start) or `self._registrant.time + "
        "self._registrant.dt_step` (target) - and never from another object's clock (a filter's, a sensor's): an object "
        "that joined the scenario late, or was rebuilt, carries a different time and the rows it produces land on "
        "other epochs than the rest of the step.  Likewise every object an agent builder creates with a time argument "
        "receives the same clock expression the agent itself starts from (`clock.time`, Agent.__init__)",
        "the numeric values of the times",
    )
    PAR = "resonaate.parallel."
    n_fields = 0
    for mod in sorted(p.modules.values(), key=lambda m: m.name):
        if not mod.name.startswith(PAR):
            continue
        # submission classes: annotated fields typed ScenarioTime
        tfields = {}
        for ci in mod.classes.values():
            names = [k for k, a in ci.class_annots.items() if "ScenarioTime" in unparse(a) and "None" not in unparse(a)]
            if names:
                tfields[ci.name] = names
        if not tfields:
            continue
        for ci in mod.classes.values():
            gen = ci.methods.get("generateSubmission")
            if gen is None:
                continue

            def one(ci=ci, gen=gen, tfields=tfields):
                nonlocal n_fields
                ctors = [c for c in walk_no_nested(gen.node) if isinstance(c, ast.Call) and call_name(c) in tfields]
                require(ctors, f"{ci.name}.generateSubmission builds no submission with a time field", gen.node)
                for c in ctors:
                    cname = call_name(c)
                    sub_ci = next(x for x in mod.classes.values() if x.name == cname)
                    order = list(sub_ci.class_annots)
                    for fld in tfields[cname]:
                        val = next((k.value for k in c.keywords if k.arg == fld), None)
                        if val is None and fld in order and order.index(fld) < len(c.args):
                            val = c.args[order.index(fld)]
                        require(val is not None, f"{cname}.{fld} is not passed", c)
                        e = inline_locals(gen, val)
                        txt = unparse(e)
                        n_fields += 1
                        ok = txt in ("self._registrant.time", "self._registrant.time + self._registrant.dt_step", "self._registrant.dt_step + self._registrant.time")
                        if ok:
                            r.ok(f"{ci.qualname}:{fld}", txt, gen.loc(c))
                        elif ".time" in txt or "time" in txt:
                            r.violation(
                                ci.qualname,
                                f"job-time:{fld}={txt[:60]}",
                                f"{ci.name}.generateSubmission sets {cname}.{fld} = `{txt}`: the job's time is not the registrant's own "
                                "`time` (+ `dt_step`); the result time is copied into the agent and stamps its rows, so an object whose clock "
                                "differs from the agent's (joined late, rebuilt) shifts every row of that agent to other epochs",
                                gen.loc(c),
                            )
                        else:
                            r.undecided(f"{ci.qualname}:{fld}", f"time field built from `{txt}`", gen.loc(c))

            r.guard(ci.qualname, one)
    # agent builders: every time argument is the clock's current time
    base = p.cls("resonaate.agents.agent_base.Agent")
    init = base.methods.get("__init__")

    def clock_expr():
        for n in walk_no_nested(init.node):
            if isinstance(n, ast.Assign) and len(n.targets) == 1 and unparse(n.targets[0]) == "self._time":
                return unparse(n.value)
        raise Undecided("Agent.__init__ does not set self._time", init.node)

    want = clock_expr()
    for ci in p.subclasses(base, include_self=False):
        fc = ci.methods.get("fromConfig")
        if fc is None:
            continue

        def two(ci=ci, fc=fc):
            for c in walk_no_nested(fc.node):
                if not isinstance(c, ast.Call):
                    continue
                callee = None
                nm = call_name(c)
                cands = [f for f in p.all_functions() if f.name == nm and f.cls is None]
                if len(cands) == 1:
                    callee = cands[0]
                if callee is None:
                    continue
                for i, prm in enumerate(callee.params):
                    ann = callee.param_annotation(prm)
                    if ann is None or "ScenarioTime" not in unparse(ann) or prm in ("time_step", "dt_step"):
                        continue
                    arg = c.args[i] if i < len(c.args) else next((k.value for k in c.keywords if k.arg == prm), None)
                    if arg is None:
                        continue
                    txt = unparse(inline_locals(fc, arg))
                    if txt == want:
                        r.ok(f"{ci.qualname}.fromConfig:{nm}.{prm}", txt, fc.loc(c))
                    else:
                        r.violation(
                            ci.qualname,
                            f"builder-time:{nm}.{prm}={txt[:50]}",
                            f"{ci.name}.fromConfig passes `{txt}` as `{prm}` of {nm}(): the agent itself starts at `{want}` (Agent.__init__); for "
                            "an agent added to a running scenario the two differ and the object's epochs no longer match the agent's",
                            fc.loc(c),
                        )

        r.guard(ci.qualname + ".fromConfig", two)


def rule_r12(chk, p, t):
    from rules.shared_engine import rule_transactional_engine

    rule_transactional_engine(chk, p, t, "C09.R12")


def run(chk, p, t):
    chk.explanation = (
        "Static decision of structural necessary conditions of C09: (R1) every row built on a run path is keyed by a "
        "canonical epoch source; (R2) one list -> one final bulkSave per step and a closed set of database writers; "
        "(R3) the session scope commits only after a clean yield, rolls back and re-raises otherwise, always closes; "
        "(R4) one ephemeris per agent per output, drained buffers; (R5) agent rows are ensured before events that "
        "reference them; (R6) the epoch of every step whose rows are buffered is ensured before the bulk save; (R7) "
        "Julian date / timestamp pairing of Epoch rows; (R8) the 6 state and 36 covariance columns are written and "
        "read back at the index their name encodes. NOT decided: numeric values read back, row counts over all "
        "step / output-step combinations."
    )
    chk.assumptions += ["SQLAlchemy session semantics (commit / rollback / close)", "SQLite does not enforce the declared foreign keys (hence the static obligation)", "rows loaded from the importer are epoch aligned (external input)"]
    steps = [("C09.R1", rule_r1), ("C09.R2", rule_r2), ("C09.R3", rule_r3), ("C09.R4", rule_r4), ("C09.R5", rule_r5), ("C09.R6", rule_r6_r7), ("C09.R8", rule_r8), ("C09.R9", rule_r9), ("C09.R10", rule_r10), ("C09.R11", rule_r11), ("C09.R12", rule_r12)]
    for rid, fn in steps:
        if chk.only_rule is not None and chk.only_rule != rid and not (chk.only_rule == "C09.R7" and rid == "C09.R6"):
            continue
        try:
            fn(chk, p, t)
        except (Undecided, AnchorError) as e:
            rr = chk.rule(rid + ".x", fn.__name__, 0, "-")
            (rr.undecided if isinstance(e, Undecided) else rr.error)(fn.__name__, str(e))


_ = re


def rule_r9(chk, p, t):
    r = chk.rule(
        "C09.R9",
        "snapshot results replace, they do not accumulate",
        1,
        "a result field that is a snapshot of a buffer of the worker's copy of the agent (which started as a copy of "
        "the driver's buffer, still holding the not-yet-written rows) must replace the driver's buffer; appending it "
        "re-adds every buffered row at every step (duplicate rows whenever the output step exceeds the physics step)",
    )
    ea = EffectAnalysis(p, t)
    reg_base = p.cls("resonaate.parallel.Registration")
    n = 0
    for sc in p.subclasses(reg_base):
        pr = sc.methods.get("processResults")
        if pr is None:
            continue
        res = pr.params[1] if len(pr.params) > 1 else "results"
        # the worker of this registration's module
        workers = [f for f in sc.module.functions.values() if any("ray.remote" in unparse(d) for d in f.node.decorator_list)]
        if len(workers) != 1:
            continue
        w = workers[0]
        ctor = [c for c in walk_no_nested(w.node) if isinstance(c, ast.Call) and isinstance(c.func, ast.Name) and c.func.id.endswith("Result")]
        if not ctor:
            continue
        snap = {}
        for k in ctor[-1].keywords:
            v = k.value
            if isinstance(v, ast.Attribute) and isinstance(v.value, ast.Name):
                snap[k.arg] = v.attr  # result field <- <copy>.<buffer>
        # direct merges in processResults
        for node in walk_no_nested(pr.node):
            tgt = val = kind = None
            if isinstance(node, ast.Assign) and isinstance(node.targets[0], ast.Attribute):
                tgt, val, kind = node.targets[0], node.value, "rebind"
            elif isinstance(node, ast.AugAssign) and isinstance(node.target, ast.Attribute):
                tgt, val, kind = node.target, node.value, "accum"
            elif isinstance(node, ast.Call) and isinstance(node.func, ast.Attribute) and node.func.attr in ("extend", "append", "update") and isinstance(node.func.value, ast.Attribute) and node.args:
                tgt, val, kind = node.func.value, node.args[0], "accum"
            if tgt is None or not (isinstance(val, ast.Attribute) and isinstance(val.value, ast.Name) and val.value.id == res):
                continue
            if not unparse(tgt).startswith("self._registrant."):
                continue
            g = val.attr
            if snap.get(g) != tgt.attr:
                continue
            n += 1
            cons = f"{pr.qualname}:{tgt.attr}"
            if kind == "rebind":
                r.ok(cons, f"`{tgt.attr}` is replaced by the worker's snapshot results.{g}", pr.loc(node))
            else:
                r.violation(
                    cons,
                    f"snapshot-accumulated:{tgt.attr}",
                    f"results.{g} is the worker copy's whole `{tgt.attr}` buffer (it already contains the driver's not-yet-written entries); `{unparse(node)[:80]}` appends it to the driver's buffer, so buffered rows are duplicated at every step until the next output",
                    pr.loc(node),
                )
    if n == 0:
        r.error("snapshot-merges", "no snapshot merge site found (EstUpdateRegistration._detected_maneuvers confirmed by hand)")
    _ = ea
