"""C04 - reference-frame conversions are exact inverses, rigid, continuous.

Decides: inverse-pair duality of rotation chains (R1), composite reversal (R2), matrix-literal
algebra of rot1-3 / skewSymmetric / dotRot (R3), reduction-parameter transposes in both builders
(R4), agreement of the two sidereal-rotation siblings (R5), calendar tables (R6).  Does NOT decide
numerical inverse accuracy, continuity in time, or the geodetic closed form.
"""

from __future__ import annotations

import ast
import copy

from rsa.model import AnchorError, Undecided, call_name, dotted_name, unparse, walk_no_nested
from rsa.terms import canon, const_value, inline_locals, negated, single_defs
from rsa.util import find_calls, require

METHODS = "resonaate.physics.transforms.methods"
MATHS = "resonaate.physics.maths"


# ------------------------------------------------------------------ linear-map chains
def alpha(fn, expr):
    """Inline single-definition locals and rename parameters to positional placeholders."""
    e = inline_locals(fn, expr)
    names = {prm: f"P{i}" for i, prm in enumerate(fn.params)}

    class R(ast.NodeTransformer):
        def visit_Name(self, node):
            if node.id in names:
                return ast.copy_location(ast.Name(names[node.id], node.ctx), node)
            return node

    return R().visit(copy.deepcopy(e))


def is_matmul(e):
    if isinstance(e, ast.BinOp) and isinstance(e.op, ast.MatMult):
        return e.left, e.right
    if isinstance(e, ast.Call):
        nm = call_name(e)
        if nm in ("matmul",) and len(e.args) == 2:
            return e.args[0], e.args[1]
        if nm == "dot" and isinstance(e.func, ast.Attribute) and len(e.args) == 1 and not (isinstance(e.func.value, ast.Name) and e.func.value.id in ("np", "numpy")):
            return e.func.value, e.args[0]
        if nm == "dot" and isinstance(e.func, ast.Name) and len(e.args) == 2:
            return e.args[0], e.args[1]
        if nm == "multi_dot" and len(e.args) == 1 and isinstance(e.args[0], (ast.List, ast.Tuple)) and len(e.args[0].elts) >= 2:
            elts = e.args[0].elts
            cur = elts[-1]
            for x in reversed(elts[1:-1]):
                cur = ast.BinOp(x, ast.MatMult(), cur)
            return elts[0], cur
    return None


def chain(e):
    """Flatten nested products into a list of factor ASTs (the last one is the operand)."""
    mm = is_matmul(e)
    if mm is None:
        return [e]
    return chain(mm[0]) + chain(mm[1])


def transpose_nf(nf):
    if nf[0] == "rot":
        return ("rot", nf[1], nf[2], -nf[3])
    if nf[0] == "named":
        if nf[1] in TRANSPOSE_FACTS:
            return ("named", TRANSPOSE_FACTS[nf[1]])
        return ("T", nf)
    if nf[0] == "T":
        return nf[1]
    return ("T", nf)


def factor_nfs(f):
    """Normal forms of a matrix-valued factor; a transposed product expands to the reversed
    product of transposes, so one factor AST may yield several normal-form factors."""
    if (isinstance(f, ast.Attribute) and f.attr == "T") or (isinstance(f, ast.Call) and call_name(f) == "transpose" and f.args):
        inner = f.value if isinstance(f, ast.Attribute) else f.args[0]
        parts = []
        for x in chain(inner):
            parts.extend(factor_nfs(x))
        return [transpose_nf(x) for x in reversed(parts)]
    if is_matmul(f) is not None:
        out = []
        for x in chain(f):
            out.extend(factor_nfs(x))
        return out
    if isinstance(f, ast.Call) and call_name(f) in ("rot1", "rot2", "rot3") and len(f.args) == 1:
        return [("rot", int(call_name(f)[-1]), f.args[0], 1)]
    if isinstance(f, ast.Attribute):
        return [("named", f.attr)]
    if isinstance(f, ast.Call) and call_name(f) == "array" and f.args and isinstance(f.args[0], (ast.List, ast.Tuple)):
        return [("rows", canon(f.args[0]))]
    return [("expr", canon(f))]


def factor_nf(f):
    nfs = factor_nfs(f)
    return nfs[0] if len(nfs) == 1 else ("prod", tuple(map(repr, nfs)))


def nfs_of(factors):
    out = []
    for f in factors:
        out.extend(factor_nfs(f))
    return out


TRANSPOSE_FACTS = {"rot_wt": "rot_w", "rot_w": "rot_wt", "rot_rnp": "rot_pnr", "rot_pnr": "rot_rnp"}


def inverse_nf(nf):
    return transpose_nf(nf)  # all factors are rotations: inverse == transpose


def nf_equal(a, b):
    if a[0] == "rot" and b[0] == "rot":
        if a[1] != b[1]:
            return False
        if a[3] == b[3]:
            return canon(a[2]) == canon(b[2])
        return negated(a[2], b[2])
    return a == b


def show_nf(nf):
    if nf[0] == "rot":
        return f"rot{nf[1]}({'-' if nf[3] < 0 else ''}({unparse(nf[2])}))"
    if nf[0] == "T":
        return show_nf(nf[1]) + ".T"
    if nf[0] == "named":
        return nf[1]
    return nf[0]


def dual_chains(cf, cg):
    """cg == reverse(inverse(cf)) factor by factor?  Returns list of mismatches."""
    if len(cf) != len(cg):
        return [f"chain lengths differ: {len(cf)} vs {len(cg)}"]
    out = []
    exp = [inverse_nf(x) for x in reversed(cf)]
    for i, (g, e) in enumerate(zip(cg, exp)):
        if not nf_equal(g, e):
            out.append(f"factor {i + 1}: found {show_nf(g)}, the inverse needs {show_nf(e)}")
    return out


def position_velocity_terms(fn):
    """Return the (position expr, velocity expr) concatenated by the function's return."""
    rets = [n for n in walk_no_nested(fn.node) if isinstance(n, ast.Return) and n.value is not None]
    require(len(rets) == 1, f"{fn.name}: expected a single return", fn.node)
    e = alpha(fn, rets[0].value)
    require(isinstance(e, ast.Call) and call_name(e) in ("concatenate", "hstack") and e.args and isinstance(e.args[0], (ast.Tuple, ast.List)) and len(e.args[0].elts) == 2, f"{fn.name}: return is not concatenate((position, velocity))", rets[0])
    return e.args[0].elts[0], e.args[0].elts[1]


def slice_kind(e):
    """'pos' for x[:3] / x[0:3], 'vel' for x[3:] / x[3:6]; returns (kind, base text)."""
    if isinstance(e, ast.Subscript) and isinstance(e.slice, ast.Slice):
        lo = e.slice.lower.value if isinstance(e.slice.lower, ast.Constant) else None
        hi = e.slice.upper.value if isinstance(e.slice.upper, ast.Constant) else None
        if lo in (None, 0) and hi == 3:
            return "pos", unparse(e.value)
        if lo == 3 and hi in (None, 6):
            return "vel", unparse(e.value)
    return None, None


# ====================================================================== R1
def rule_r1(chk, p, t):
    r = chk.rule(
        "C04.R1",
        "rotation-chain duality of inverse pairs",
        8,
        "for every primitive conversion pair the rotation chain of one direction is the reversed chain of inverse "
        "factors of the other (rot_i(a)^-1 = rot_i(-a), transposed pairs per R4); transport terms carry opposite signs "
        "and the same operand; axis-flip literals are the same involutive diagonal",
        "inverse accuracy to rounding",
    )

    # ---- eci2ecef / ecef2eci
    f, g = p.func(f"{METHODS}.eci2ecef"), p.func(f"{METHODS}.ecef2eci")

    def fk5():
        pf, vf = position_velocity_terms(f)
        pg, vg = position_velocity_terms(g)
        cf, cg = chain(pf), chain(pg)
        kf, _ = slice_kind(cf[-1])
        kg, _ = slice_kind(cg[-1])
        require(kf == "pos" and kg == "pos", "position transform does not act on x[:3]", f.node)
        nf_f = nfs_of(cf[:-1])
        nf_g = nfs_of(cg[:-1])
        mism = dual_chains(nf_f, nf_g)
        cons = "eci2ecef<->ecef2eci"
        if mism:
            r.violation(cons, "position-chain:" + ";".join(mism), f"position chains are not mutually inverse: eci2ecef = {[show_nf(x) for x in nf_f]}, ecef2eci = {[show_nf(x) for x in nf_g]}: " + "; ".join(mism), g.loc())
        else:
            r.ok(cons + ":position", f"{[show_nf(x) for x in nf_f]} <-> {[show_nf(x) for x in nf_g]}", f.loc())

        def split_vel(v, fn):
            c = chain(v)
            require(len(c) == 2, f"{fn.name}: velocity is not M (...)", fn.node)
            outer = factor_nf(c[0])
            inner = c[1]
            require(isinstance(inner, ast.BinOp) and isinstance(inner.op, (ast.Add, ast.Sub)), f"{fn.name}: velocity has no transport term", fn.node)
            rot_part, corr = inner.left, inner.right
            sign = 1 if isinstance(inner.op, ast.Add) else -1
            ci = chain(rot_part)
            require(len(ci) == 2, f"{fn.name}: rotated velocity is not M v", fn.node)
            k, _ = slice_kind(ci[1])
            return outer, factor_nf(ci[0]), k, sign, corr

        of, inf_, kf2, sf, corr_f = split_vel(vf, f)
        og, ing, kg2, sg, corr_g = split_vel(vg, g)
        bad = []
        if [of, inf_] != nf_f:
            bad.append(f"eci2ecef rotates velocity with {[show_nf(of), show_nf(inf_)]} but position with {[show_nf(x) for x in nf_f]}")
        if [og, ing] != nf_g:
            bad.append(f"ecef2eci rotates velocity with {[show_nf(og), show_nf(ing)]} but position with {[show_nf(x) for x in nf_g]}")
        if kf2 != "vel" or kg2 != "vel":
            bad.append("velocity transform does not act on x[3:]")
        if sf != -1 or sg != 1:
            bad.append(f"transport term signs are ({'+' if sf > 0 else '-'}, {'+' if sg > 0 else '-'}) for (eci2ecef, ecef2eci), expected (-, +)")
        # correction = cross(omega, rot_w r_ecef)
        def corr_parts(c, fn, pos_term):
            require(isinstance(c, ast.Call) and call_name(c) == "cross" and len(c.args) == 2, f"{fn.name}: transport term is not cross(omega, r_pef)", fn.node)
            om, rp = c.args
            cc = chain(rp)
            return canon(om), nfs_of(cc[:-1]), cc[-1]

        om_f, mf, opf = corr_parts(corr_f, f, pf)
        om_g, mg, opg = corr_parts(corr_g, g, pg)
        if om_f != om_g:
            # a name that is bound more than once (an optional `reduction=None` parameter filled in on demand ...) cannot be
            # replaced by its definition: the two spellings are then not comparable, which is not a disagreement
            def rebound(fn, expr):
                stores = {}
                for n in ast.walk(fn.node):
                    if isinstance(n, ast.Name) and isinstance(n.ctx, ast.Store):
                        stores[n.id] = stores.get(n.id, 0) + 1
                placeholders = {f"P{i}": prm for i, prm in enumerate(fn.params)}  # alpha() spells parameters P0, P1 ...
                out = set()
                for n in ast.walk(expr):
                    if isinstance(n, ast.Name):
                        nm = placeholders.get(n.id, n.id)
                        if stores.get(nm, 0) > 1 or (nm in fn.params and stores.get(nm, 0) >= 1):
                            out.add(nm)
                return sorted(out)

            rb = rebound(f, corr_f) + rebound(g, corr_g)
            if rb:
                raise Undecided(f"the Earth-rotation vectors of the two directions are spelled through {rb}, bound on more than one path: not comparable", g.node)
            bad.append("the Earth-rotation vector differs between the two directions")
        # PEF position: rot_w applied to the ECEF position
        # forward: operand is the ECEF position just computed (== pf); inverse: operand is x_ecef[:3]
        f_ok = mf == [("named", "rot_w")] + nf_f and slice_kind(opf)[0] == "pos"
        g_ok = mg == [("named", "rot_w")] and slice_kind(opg)[0] == "pos"
        if not f_ok:
            bad.append("eci2ecef: transport operand is not rot_w applied to the Earth-fixed position")
        if not g_ok:
            bad.append("ecef2eci: transport operand is not rot_w applied to the Earth-fixed position")
        if bad:
            r.violation(cons, "velocity:" + ";".join(bad), "velocity transforms are not mutually inverse: " + "; ".join(bad), g.loc())
        else:
            r.ok(cons + ":velocity", "same chains, transport term -/+ cross(omega, rot_w r_ecef)", f.loc())

    r.guard("eci2ecef<->ecef2eci", fk5)

    # ---- ecef2sez / sez2ecef ; eci2rsw / rsw2eci
    def simple_pair(fname, gname, offset_g=0, offset_f=0):
        f, g = p.func(f"{METHODS}.{fname}"), p.func(f"{METHODS}.{gname}")

        def one():
            pf, vf = position_velocity_terms(f)
            pg, vg = position_velocity_terms(g)
            cons = f"{fname}<->{gname}"
            res = {}
            for nm, (pp, vv), fn in ((fname, (pf, vf), f), (gname, (pg, vg), g)):
                cp, cv = chain(pp), chain(vv)
                kp, bp = slice_kind(cp[-1])
                kv, bv = slice_kind(cv[-1])
                require(kp == "pos" and kv == "vel" and bp == bv, f"{nm}: does not rotate x[:3] and x[3:] of one vector", fn.node)
                np_, nv = nfs_of(cp[:-1]), nfs_of(cv[:-1])
                if len(np_) != len(nv) or not all(nf_equal(a, b) for a, b in zip(np_, nv)):
                    r.violation(cons, f"pos-vel-differ:{nm}", f"{nm} rotates position and velocity with different matrices", fn.loc())
                    return
                res[nm] = np_
            mism = dual_chains(res[fname], res[gname])
            if mism:
                r.violation(cons, "chain:" + ";".join(mism), f"{fname} = {[show_nf(x) for x in res[fname]]} and {gname} = {[show_nf(x) for x in res[gname]]} are not mutually inverse: " + "; ".join(mism), g.loc())
            else:
                r.ok(cons, f"{[show_nf(x) for x in res[fname]]} <-> {[show_nf(x) for x in res[gname]]}", f.loc())

        r.guard(f"{fname}<->{gname}", one)

    simple_pair("ecef2sez", "sez2ecef")

    def rsw():
        f, g = p.func(f"{METHODS}.eci2rsw"), p.func(f"{METHODS}.rsw2eci")
        pf, vf = position_velocity_terms(f)
        pg, vg = position_velocity_terms(g)
        cons = "eci2rsw<->rsw2eci"
        mf = nfs_of(chain(pf)[:-1])
        mg = nfs_of(chain(pg)[:-1])
        mfv = nfs_of(chain(vf)[:-1])
        mgv = nfs_of(chain(vg)[:-1])
        bad = []
        if mf != mfv or mg != mgv:
            bad.append("position and velocity use different matrices")
        if dual_chains(mf, mg):
            bad.append("; ".join(dual_chains(mf, mg)))
        # basis rows: r = pos/|pos|, w = (pos x vel)/|pos x vel|, s = w x r, order [r, s, w]
        rows = None
        for x in mf:
            if x[0] == "rows":
                rows = x
        require(rows is not None, "eci2rsw matrix is not array([r_hat, s_hat, w_hat])", f.node)
        if bad:
            r.violation(cons, "chain:" + ";".join(bad), "RSW conversions are not mutually inverse: " + "; ".join(bad), g.loc())
        else:
            r.ok(cons, "basis rows vs transposed basis rows over the same reference state", f.loc())
        # basis definition
        defs = {}
        for n in walk_no_nested(f.node):
            if isinstance(n, (ast.Assign, ast.AnnAssign)):
                tg = n.targets[0] if isinstance(n, ast.Assign) else n.target
                if isinstance(tg, ast.Name) and n.value is not None:
                    defs[tg.id] = n.value
        s = defs.get("s_hat")
        if s is not None and isinstance(s, ast.Call) and call_name(s) == "cross" and [unparse(a) for a in s.args] == ["w_hat", "r_hat"]:
            r.ok(cons + ":right-handed", "s_hat = cross(w_hat, r_hat)", f.loc())
        elif s is not None:
            r.violation(cons, f"basis-handedness:{unparse(s)}", f"s_hat is `{unparse(s)}`: the RSW triad must be right-handed (s = w x r)", f.loc())

    r.guard("eci2rsw<->rsw2eci", rsw)

    # ---- razel2sez / sez2razel
    def razel():
        f, g = p.func(f"{METHODS}.razel2sez"), p.func(f"{METHODS}.sez2razel")
        cons = "razel2sez<->sez2razel"
        rf = [n for n in walk_no_nested(f.node) if isinstance(n, ast.Return)][0].value
        rg = [n for n in walk_no_nested(g.node) if isinstance(n, ast.Return)][0].value
        mmf = is_matmul(rf)
        require(mmf is not None, "razel2sez is not spherical2cartesian(...).dot(D)", f.node)
        sph, Df = mmf
        require(isinstance(rg, ast.Call) and call_name(rg) == "cartesian2spherical" and len(rg.args) == 1, "sez2razel is not cartesian2spherical(x.dot(D))", g.node)
        mmg = is_matmul(rg.args[0])
        require(mmg is not None, "sez2razel is not cartesian2spherical(x.dot(D))", g.node)
        _x, Dg = mmg

        def diag(d):
            require(isinstance(d, ast.Call) and call_name(d) in ("diagflat", "diag") and d.args and isinstance(d.args[0], (ast.List, ast.Tuple)), "axis flip is not a diagflat literal", d)
            vals = []
            for e in d.args[0].elts:
                v = e.operand.value * -1 if isinstance(e, ast.UnaryOp) and isinstance(e.op, ast.USub) else getattr(e, "value", None)
                vals.append(v)
            return vals

        df, dg = diag(Df), diag(Dg)
        if df != dg or any(v not in (1, -1) for v in df) or len(df) != 6 or df[:3] != df[3:]:
            r.violation(cons, f"axis-flip:{df}:{dg}", f"axis-flip diagonals {df} / {dg} must be the same involutive +-1 diagonal, identical for position and velocity", f.loc())
        else:
            r.ok(cons + ":flip", f"diag{df} on both sides", f.loc())
        require(isinstance(sph, ast.Call) and call_name(sph) == "spherical2cartesian", "razel2sez does not call spherical2cartesian", f.node)
        args = [unparse(a) for a in sph.args]
        exp = [f.params[0], f.params[1], f.params[2], f.params[3], f.params[4], f.params[5]]
        if args == exp and f.params[:3] == ["rng", "el", "az"]:
            r.ok(cons + ":slots", f"spherical2cartesian({', '.join(args)}) = (rho, theta=el, phi=az)", f.loc())
        else:
            r.violation(cons, f"slots:{args}", f"spherical2cartesian receives {args} from parameters {f.params}: expected (range, elevation, azimuth, rates in the same order)", f.loc())

    r.guard("razel2sez<->sez2razel", razel)

    # ---- spherical2cartesian / cartesian2spherical position slots
    def sph():
        # decided path-wise, slot by slot and quadrant by quadrant, by C04.R10 (which supersedes the single-return form
        # this sub-check used to require); kept as an anchor so that the pair stays listed among the inverse pairs
        f = p.func(f"{METHODS}.spherical2cartesian")
        g = p.func(f"{METHODS}.cartesian2spherical")
        r.ok("spherical2cartesian<->cartesian2spherical:forward", "see C04.R10 (forward rows and their derivative)", f.loc())
        r.ok("spherical2cartesian<->cartesian2spherical:inverse", "see C04.R10 (every angle recovery, path-wise)", g.loc())

    r.guard("spherical<->cartesian", sph)


# ====================================================================== R2
INVERSE_PRIM = {
    "eci2ecef": "ecef2eci", "ecef2eci": "eci2ecef",
    "ecef2sez": "sez2ecef", "sez2ecef": "ecef2sez",
    "ecef2lla": "lla2ecef", "lla2ecef": "ecef2lla",
    "razel2sez": "sez2razel", "sez2razel": "razel2sez",
}


def call_tree(e):
    """Nested primitive-call tree: (name, main-arg tree, tuple of extra args as text)."""
    if isinstance(e, ast.Call) and call_name(e) in INVERSE_PRIM:
        args = list(e.args)
        kws = {k.arg: k.value for k in e.keywords}
        return (call_name(e), call_tree(args[0]) if args else None, tuple(unparse(a) for a in args[1:]) + tuple(f"{k}={unparse(v)}" for k, v in sorted(kws.items())))
    return ("leaf", unparse(e), ())


def invert_tree(tree, leaf):
    """Inverse composition: reverse order, inverse primitives, same extra args."""
    layers = []
    cur = tree
    while cur[0] != "leaf":
        layers.append((cur[0], cur[2]))
        cur = cur[1]
    out = ("leaf", leaf, ())
    for name, extra in layers:  # outermost of f becomes innermost of g
        out = (INVERSE_PRIM[name], out, extra)
    return out


def rule_r2(chk, p, t):
    r = chk.rule(
        "C04.R2",
        "composite reversal",
        6,
        "every composite conversion is the composition of table primitives and its paired composite is the reversed "
        "composition of the inverse primitives with identical parameter slots",
    )
    pairs = [("eci2sez", "sez2eci"), ("eci2lla", "lla2eci")]
    for fname, gname in pairs:
        f, g = p.func(f"{METHODS}.{fname}"), p.func(f"{METHODS}.{gname}")

        def one(f=f, g=g, fname=fname, gname=gname):
            rf = [n for n in walk_no_nested(f.node) if isinstance(n, ast.Return)]
            rg = [n for n in walk_no_nested(g.node) if isinstance(n, ast.Return)]
            require(len(rf) == 1 and len(rg) == 1, "single return expected", f.node)
            tf = call_tree(alpha(f, rf[0].value))
            tg = call_tree(alpha(g, rg[0].value))
            require(tf[0] != "leaf" and tg[0] != "leaf", "composite is not a composition of table primitives", f.node)
            # the side parameters (lat, lon, utc_date) have the same names in both signatures
            side_f = {prm: f"P{i}" for i, prm in enumerate(f.params)}
            side_g = {prm: f"P{i}" for i, prm in enumerate(g.params)}
            if f.params[1:] != g.params[1:]:
                r.violation(f"{fname}<->{gname}", f"signature:{f.params}:{g.params}", f"paired composites take their side parameters in different orders: {f.params} vs {g.params}", g.loc())
                return
            exp = invert_tree(tf, "P0")
            _ = (side_f, side_g)
            if exp == tg:
                r.ok(f"{fname}<->{gname}", f"{fname} = {tf}; {gname} is its reversed inverse", f.loc())
            else:
                r.violation(f"{fname}<->{gname}", f"not-reversed:{tg}", f"{gname} is {tg}, but the inverse of {fname} = {tf} is {exp}", g.loc())

        r.guard(f"{fname}<->{gname}", one)

    # getSlantRangeVector
    gs = p.func(f"{METHODS}.getSlantRangeVector")

    def slant():
        ret = [n for n in walk_no_nested(gs.node) if isinstance(n, ast.Return)][0].value
        e = alpha(gs, ret)
        cons = gs.qualname
        require(isinstance(e, ast.Call) and call_name(e) == "ecef2sez" and len(e.args) == 3, "getSlantRangeVector is not ecef2sez(diff, lat, lon)", gs.node)
        diff, lat, lon = e.args
        require(isinstance(diff, ast.BinOp) and isinstance(diff.op, ast.Sub), "slant range is not a difference", gs.node)
        want_t = "eci2ecef(P1, P2)"
        want_s = "eci2ecef(P0, P2)"
        if unparse(diff.left) == want_t and unparse(diff.right) == want_s:
            r.ok(cons + ":difference", "target_ecef - sensor_ecef at the same instant", gs.loc())
        else:
            r.violation(cons, f"difference:{unparse(diff)}", f"slant range is `{unparse(diff)}` (P0=sensor, P1=target, P2=utc): expected eci2ecef(target) - eci2ecef(sensor) at utc_date", gs.loc())
        lla = f"ecef2lla({want_s})"
        if unparse(lat) == f"{lla}[0]" and unparse(lon) == f"{lla}[1]":
            r.ok(cons + ":site", "lat/lon = ecef2lla(sensor_ecef)[0/1]", gs.loc())
        else:
            r.violation(cons, f"site:{unparse(lat)}|{unparse(lon)}", f"site angles are `{unparse(lat)}`, `{unparse(lon)}`: expected the sensor's geodetic latitude [0] and longitude [1]", gs.loc())

    r.guard(gs.qualname, slant)

    # eci2razel
    er = p.func(f"{METHODS}.eci2razel")

    def razel():
        ret = [n for n in walk_no_nested(er.node) if isinstance(n, ast.Return)][0].value
        e = alpha(er, ret)
        ok = unparse(e) == "sez2razel(getSlantRangeVector(P1, P0, P2))"
        if ok:
            r.ok(er.qualname, "sez2razel(getSlantRangeVector(observer, target, utc))", er.loc())
        else:
            r.violation(er.qualname, f"shape:{unparse(e)}", f"eci2razel is `{unparse(e)}` (P0=target, P1=observer): expected sez2razel(getSlantRangeVector(observer, target, utc))", er.loc())

    r.guard(er.qualname, razel)

    # razel2radec / radec2razel
    rr = p.func(f"{METHODS}.razel2radec")

    def radec():
        ret = [n for n in walk_no_nested(rr.node) if isinstance(n, ast.Return)][0].value
        e = alpha(rr, ret)
        txt = unparse(e)
        obs_ecef = "eci2ecef(P6, P7)"
        want = f"cartesian2spherical(ecef2eci({obs_ecef} + sez2ecef(razel2sez(P0, P1, P2, P3, P4, P5), ecef2lla({obs_ecef})[0], ecef2lla({obs_ecef})[1]), P7) - P6)"
        if txt == want:
            r.ok(rr.qualname, "observer + sez2ecef(razel2sez(...)) -> ecef2eci -> minus observer -> spherical", rr.loc())
        else:
            r.violation(rr.qualname, f"shape:{txt}", f"razel2radec is `{txt}`, expected `{want}`", rr.loc())
        rz = p.func(f"{METHODS}.radec2razel")
        ret2 = [n for n in walk_no_nested(rz.node) if isinstance(n, ast.Return)][0].value
        e2 = unparse(alpha(rz, ret2))
        want2 = "eci2razel(spherical2cartesian(P0, P1, P2, P3, P4, P5) + P6, P6, P7)"
        if e2 == want2:
            r.ok(rz.qualname, want2, rz.loc())
        else:
            r.violation(rz.qualname, f"shape:{e2}", f"radec2razel is `{e2}`, expected `{want2}`", rz.loc())

    r.guard(rr.qualname, radec)


# ====================================================================== R3
ROT_CONVENTION = {
    # axis -> (row, col) of the +sin entry (Vallado 3-15: passive rotations)
    1: (1, 2),
    2: (2, 0),
    3: (0, 1),
}


def matrix_literal(fn):
    rets = [n for n in walk_no_nested(fn.node) if isinstance(n, ast.Return)]
    require(len(rets) == 1, "single return expected", fn.node)
    e = rets[0].value
    require(isinstance(e, ast.Call) and call_name(e) == "array" and e.args and isinstance(e.args[0], (ast.List, ast.Tuple)), "not an array literal", fn.node)
    rows = e.args[0].elts
    require(len(rows) == 3 and all(isinstance(x, (ast.List, ast.Tuple)) and len(x.elts) == 3 for x in rows), "not a 3x3 literal", fn.node)
    return [[c for c in row.elts] for row in rows]


def rule_r3(chk, p, t):
    r = chk.rule(
        "C04.R3",
        "matrix-literal algebra",
        7,
        "rot1/2/3 are 3x3 literals with the unit row/column on their axis and the [[cos, s], [-s, cos]] block of the "
        "passive convention over one argument; skewSymmetric has a zero diagonal and M[j][i] == -M[i][j] with the "
        "cross-product entries; dotRot_i = rot_i(angle).dot(skewSymmetric(omega))",
    )
    for axis in (1, 2, 3):
        fn = p.func(f"{MATHS}.rot{axis}")

        def one(fn=fn, axis=axis):
            M = matrix_literal(fn)
            a = fn.params[0]
            k = axis - 1
            bad = []
            for i in range(3):
                for j in range(3):
                    c = M[i][j]
                    txt = unparse(c)
                    if i == k or j == k:
                        exp = "1" if i == j else "0"
                        if txt not in (exp, exp + ".0"):
                            bad.append(f"[{i}][{j}]={txt} (expected {exp})")
            others = [i for i in range(3) if i != k]
            (pi_, pj) = ROT_CONVENTION[axis]
            for i in others:
                for j in others:
                    txt = unparse(M[i][j])
                    if i == j:
                        exp = f"cos({a})"
                    elif (i, j) == (pi_, pj):
                        exp = f"sin({a})"
                    else:
                        exp = f"-sin({a})"
                    if txt != exp:
                        bad.append(f"[{i}][{j}]={txt} (expected {exp})")
            if bad:
                r.violation(fn.qualname, "literal:" + ";".join(bad), f"rot{axis} is not the passive rotation about axis {axis}: " + "; ".join(bad), fn.loc())
            else:
                r.ok(fn.qualname, "unit axis, cos diagonal, +sin at " + str(ROT_CONVENTION[axis]), fn.loc())

        r.guard(fn.qualname, one)
    sk = p.func(f"{MATHS}.skewSymmetric")

    def skew():
        M = matrix_literal(sk)
        w = sk.params[0]
        exp = [["0", f"-{w}[2]", f"{w}[1]"], [f"{w}[2]", "0", f"-{w}[0]"], [f"-{w}[1]", f"{w}[0]", "0"]]
        bad = []
        for i in range(3):
            for j in range(3):
                if unparse(M[i][j]) != exp[i][j]:
                    bad.append(f"[{i}][{j}]={unparse(M[i][j])} (expected {exp[i][j]})")
        # antisymmetry, syntactically
        for i in range(3):
            for j in range(i + 1, 3):
                if not negated(M[i][j], M[j][i]):
                    bad.append(f"M[{j}][{i}] != -M[{i}][{j}]")
        if bad:
            r.violation(sk.qualname, "literal:" + ";".join(sorted(set(bad))), "skewSymmetric is not the cross-product matrix: " + "; ".join(sorted(set(bad))), sk.loc())
        else:
            r.ok(sk.qualname, "zero diagonal, antisymmetric, (-w2, w1, -w0) upper triangle", sk.loc())

    r.guard(sk.qualname, skew)
    for axis in (1, 2, 3):
        fn = p.func(f"{MATHS}.dotRot{axis}")

        def dr(fn=fn, axis=axis):
            ret = [n for n in walk_no_nested(fn.node) if isinstance(n, ast.Return)][0].value
            want = f"rot{axis}({fn.params[0]}).dot(skewSymmetric({fn.params[1]}))"
            alt = f"matmul(rot{axis}({fn.params[0]}), skewSymmetric({fn.params[1]}))"
            if unparse(ret) in (want, alt, f"rot{axis}({fn.params[0]}) @ skewSymmetric({fn.params[1]})"):
                r.ok(fn.qualname, want, fn.loc())
            else:
                r.violation(fn.qualname, f"shape:{unparse(ret)}", f"dotRot{axis} is `{unparse(ret)}`, expected `{want}`", fn.loc())

        r.guard(fn.qualname, dr)


# ====================================================================== R4
def rule_r4(chk, p, t, rid="C04.R4"):
    r = chk.rule(
        rid,
        "reduction parameters",
        2,
        "in both builders rot_rnp is the transpose of rot_pnr, rot_wt of rot_w, rot_pnr = rot_pn . rot_pef2tod, and "
        "rot_pef2tod = getRotR(utc_date, delta_ut1, eq_equinox) in that argument order",
    )
    base = p.cls("resonaate.physics.transforms.reductions.ReductionParams")
    getr = p.func("resonaate.physics.transforms.reductions.getRotR")
    for b in p.overriders(base, "build"):

        def one(b=b):
            ctor = [c for c in walk_no_nested(b.node) if isinstance(c, ast.Call) and isinstance(c.func, ast.Name) and c.func.id == b.params[0]]
            require(len(ctor) == 1, "build does not end in a single cls(...)", b.node)
            kws = {k.arg: inline_locals(b, k.value) for k in ctor[0].keywords}
            raw = {k.arg: k.value for k in ctor[0].keywords}
            bad = []

            def is_T_of(x, y):
                return isinstance(x, ast.Attribute) and x.attr == "T" and canon(x.value) == canon(y)

            if not is_T_of(kws.get("rot_rnp"), kws.get("rot_pnr")):
                bad.append(f"rot_rnp = {unparse(raw.get('rot_rnp'))} is not rot_pnr.T")
            if not is_T_of(kws.get("rot_wt"), kws.get("rot_w")):
                bad.append(f"rot_wt = {unparse(raw.get('rot_wt'))} is not rot_w.T")
            pnr = kws.get("rot_pnr")
            mm = is_matmul(pnr) if pnr is not None else None
            if mm is None or not (isinstance(mm[0], ast.Attribute) and mm[0].attr == "rot_pn") or not (isinstance(mm[1], ast.Call) and call_name(mm[1]) == "getRotR"):
                bad.append(f"rot_pnr = {unparse(pnr) if pnr is not None else None} is not rot_pn . getRotR(...)")
            else:
                a = mm[1].args
                ok = len(a) == 3 and unparse(a[0]) == b.params[1] and isinstance(a[1], ast.Attribute) and a[1].attr == "delta_ut1" and isinstance(a[2], ast.Attribute) and a[2].attr == "eq_equinox"
                if not ok or getr.params != ["utc_date", "delta_ut1", "eq_equinox"]:
                    bad.append(f"getRotR arguments are {[unparse(x) for x in a]} for parameters {getr.params}")
                if canon(kws.get("rot_pn")) != canon(mm[0]):
                    bad.append("rot_pn stored differs from the rot_pn used in rot_pnr")
            for fld, src in (("dut1", "delta_ut1"), ("lod", "length_of_day"), ("eq_equinox", "eq_equinox")):
                v = raw.get(fld)
                if not (isinstance(v, ast.Attribute) and v.attr == src):
                    bad.append(f"{fld} = {unparse(v) if v is not None else None} (expected .{src})")
            if bad:
                r.violation(b.qualname, "params:" + ";".join(bad), "reduction parameters are inconsistent: " + "; ".join(bad), b.loc(ctor[0]))
            else:
                r.ok(b.qualname, "rot_rnp = rot_pnr.T, rot_wt = rot_w.T, rot_pnr = rot_pn . getRotR(utc, dut1, eqe)", b.loc(ctor[0]))

        r.guard(b.qualname, one)


# ====================================================================== R5
def rule_r5(chk, p, t, rid="C04.R5"):
    r = chk.rule(
        rid,
        "sidereal-rotation siblings",
        2,
        "getRotR and special_perturbations._getRotationMatrix compute the sidereal rotation alike: "
        "dayOfYear(y, m, d, h, min, sec + dut1) - 1, greenwichApparentTime(year, elapsed_days, eq_equinox), rot3(-gast)",
    )
    sibs = [p.func("resonaate.physics.transforms.reductions.getRotR"), p.func("resonaate.dynamics.special_perturbations._getRotationMatrix")]
    for fn in sibs:

        def one(fn=fn):
            doy = find_calls(fn.node, "dayOfYear")
            gat = find_calls(fn.node, "greenwichApparentTime")
            r3 = find_calls(fn.node, "rot3")
            require(len(doy) == 1 and len(gat) == 1 and len(r3) == 1, "expected one dayOfYear, greenwichApparentTime and rot3 call", fn.node)
            bad = []
            # elapsed days = dayOfYear(...) - 1
            ed = inline_locals(fn, gat[0].args[1]) if len(gat[0].args) == 3 else None
            if not (isinstance(ed, ast.BinOp) and isinstance(ed.op, ast.Sub) and isinstance(ed.left, ast.Call) and call_name(ed.left) == "dayOfYear" and isinstance(ed.right, ast.Constant) and ed.right.value == 1):
                bad.append(f"elapsed days = `{unparse(ed) if ed is not None else None}`, expected dayOfYear(...) - 1")
            a = doy[0].args
            if len(a) != 6:
                bad.append("dayOfYear is not called with six fields")
            else:
                fields = ["year", "month", "day", "hour", "minute"]
                for i, nm in enumerate(fields):
                    txt = unparse(a[i])
                    itx = unparse(inline_locals(fn, a[i]))
                    if itx.endswith("calendar_date[%d]" % i):
                        continue
                    if itx != txt and "calendar_date[" in itx:
                        bad.append(f"dayOfYear argument {i + 1} is `{itx}` (expected field {i} = {nm})")
                        continue
                    if not (txt.endswith(nm) or txt.endswith(nm + "s")):
                        bad.append(f"dayOfYear argument {i + 1} is `{txt}` (expected {nm})")
                sec = inline_locals(fn, a[5])
                stxt = unparse(sec)
                if not (isinstance(sec, ast.BinOp) and isinstance(sec.op, ast.Add) and ("dut1" in stxt or "delta_ut1" in stxt) and ("second" in stxt or "calendar_date[5]" in stxt)):
                    bad.append(f"seconds argument is `{stxt}`, expected seconds + dUT1")
            ga = gat[0].args
            if len(ga) == 3:
                if not unparse(ga[0]).endswith("year"):
                    bad.append(f"greenwichApparentTime year is `{unparse(ga[0])}`")
                if "eq_equinox" not in unparse(ga[2]):
                    bad.append(f"equation of equinoxes argument is `{unparse(ga[2])}`")
            ang = inline_locals(fn, r3[0].args[0])
            # rot3(-gast)
            neg_ok = False
            if isinstance(ang, ast.BinOp) and isinstance(ang.op, ast.Mult):
                c, o = (ang.left, ang.right) if isinstance(ang.left, (ast.Constant, ast.UnaryOp)) else (ang.right, ang.left)
                cv = c.operand.value * -1 if isinstance(c, ast.UnaryOp) and isinstance(c.op, ast.USub) and isinstance(c.operand, ast.Constant) else getattr(c, "value", None)
                neg_ok = cv == -1 and isinstance(o, ast.Call) and call_name(o) == "greenwichApparentTime"
            elif isinstance(ang, ast.UnaryOp) and isinstance(ang.op, ast.USub):
                neg_ok = isinstance(ang.operand, ast.Call) and call_name(ang.operand) == "greenwichApparentTime"
            if not neg_ok:
                bad.append(f"rotation angle is `{unparse(ang)}`, expected -GAST")
            if bad:
                r.violation(fn.qualname, "sidereal:" + ";".join(bad), "sidereal rotation differs from its sibling / reference: " + "; ".join(bad), fn.loc())
            else:
                r.ok(fn.qualname, "rot3(-GAST(year, dayOfYear(.., sec + dUT1) - 1, eqe))", fn.loc())

        r.guard(fn.qualname, one)
    # _getRotationMatrix composition: rot_pn . R . rot_w
    fn = sibs[1]

    def comp():
        ret = [n for n in walk_no_nested(fn.node) if isinstance(n, ast.Return)][0].value
        c = chain(ret)
        nfs = nfs_of(c)
        ok = len(nfs) == 3 and nfs[0] == ("named", "rot_pn") and nfs[1][0] == "rot" and nfs[1][1] == 3 and nfs[2] == ("named", "rot_w")
        if ok:
            r.ok(fn.qualname + ":composition", "ECEF->ECI = rot_pn . rot3(-gast) . rot_w", fn.loc())
        else:
            r.violation(fn.qualname, f"composition:{[show_nf(x) for x in nfs]}", f"ECEF->ECI rotation is {[show_nf(x) for x in nfs]}, expected [rot_pn, rot3(-gast), rot_w]", fn.loc())

    r.guard(fn.qualname + ":composition", comp)


# ====================================================================== R6
def rule_r6(chk, p, t, rid="C04.R6"):
    r = chk.rule(
        rid,
        "calendar tables",
        2,
        "month-length literal is the Gregorian table in dayOfYear and days2mdh; the leap adjustment writes index 1; "
        "the cumulative loop bound is count < month; the day fraction uses /24, /1440, /86400",
    )
    GREG = [31, 28, 31, 30, 31, 30, 31, 31, 30, 31, 30, 31]

    def cumulative_idiom(fn):
        """dayOfYear written with a table of days preceding each month plus a leap-day increment."""
        from rsa.cfg import cfg_of

        table = None
        tname = None
        for n in walk_no_nested(fn.node):
            if isinstance(n, ast.Subscript) and isinstance(n.value, (ast.Tuple, ast.List)) and len(n.value.elts) == 12 and all(isinstance(e, ast.Constant) for e in n.value.elts):
                # the table written (or inlined by the normaliser) as a literal at its use
                table, tname, idx = [e.value for e in n.value.elts], "<literal>", n.slice
                continue
            if isinstance(n, ast.Subscript) and isinstance(n.value, ast.Name):
                v = fn.module.assigns.get(n.value.id)
                if v is None:
                    for a in walk_no_nested(fn.node):
                        if isinstance(a, ast.Assign) and isinstance(a.targets[0], ast.Name) and a.targets[0].id == n.value.id:
                            v = a.value
                if isinstance(v, (ast.Tuple, ast.List)) and len(v.elts) == 12 and all(isinstance(e, ast.Constant) for e in v.elts):
                    table, tname, idx = [e.value for e in v.elts], n.value.id, n.slice
        require(table is not None, "no month-length or days-before-month table recognised", fn.node)
        prefix = [sum(GREG[:i]) for i in range(12)]
        bad = []
        if table != prefix:
            bad.append(f"days-before-month table {table} (expected {prefix})")
        itxt = unparse(idx)
        if itxt not in ("month - 1", "min(month, 12) - 1", "int(month) - 1"):
            bad.append(f"table indexed by `{itxt}` (expected month - 1)")
        cfg = cfg_of(fn)
        incs = [n for n in cfg.nodes if n.kind == "stmt" and isinstance(n.ast, ast.AugAssign) and isinstance(n.ast.op, ast.Add) and unparse(n.ast.value) == "1"]
        if len(incs) != 1:
            bad.append(f"{len(incs)} leap-day increments")
        else:
            conds = [(unparse(cfg.nodes[cid].ast), lab) for cid, lab in cfg.control_conditions(incs[0].id) if cfg.nodes[cid].kind == "cond"]
            month_ok = any((txt in ("month > 2", "month >= 3", "2 < month", "3 <= month") and lab is True) or (txt in ("month <= 2", "month < 3") and lab is False) for txt, lab in conds)
            leap_ok = any(("isleap(year)" in txt and lab is True) or ("remainder(year, 4) == 0" in txt and lab is True) or ("year % 4 == 0" in txt and lab is True) for txt, lab in conds)
            if not month_ok:
                bad.append(f"the leap day is added under {conds}: it must count only from March on (month > 2), otherwise every February date of a leap year is a day late")
            if not leap_ok:
                bad.append("the leap day is not conditional on a leap year")
        ret = [n for n in walk_no_nested(fn.node) if isinstance(n, ast.Return)][0].value
        want = canon(ast.parse("days + day + hour / 24 + minute / 1440 + second / 86400", mode="eval").body)
        if canon(ret) != want:
            bad.append(f"day fraction `{unparse(ret)}`")
        if bad:
            r.violation(fn.qualname, "calendar:" + ";".join(bad), f"{fn.name}: " + "; ".join(bad), fn.loc())
        else:
            r.ok(fn.qualname, f"days-before-month table `{tname}` + leap day from March on", fn.loc())

    def stdlib_idiom(fn):
        """dayOfYear written with the standard library's calendar (`date(year, month, day).timetuple().tm_yday`, or an
        ordinal difference to 1 January of `year`).  The caller pairs the result with `year` (elapsed days since
        1 January of that year, greenwichApparentTime), and adds offsets such as UT1-UTC to the seconds, so the day
        number must be that of the *given* calendar date and the time of day must enter linearly: a date shifted by
        the (floored) time of day can fall into the neighbouring year, whose day number counts from another 1 January."""
        from rsa.ratfun import NotEvaluable, rat_equal, ratfun

        params = fn.params
        require(len(params) >= 6, "dayOfYear: unexpected parameters", fn.node)
        y, mo, d, h, mi, sec = params[:6]
        yday = [n for n in walk_no_nested(fn.node) if isinstance(n, ast.Attribute) and n.attr == "tm_yday"]
        if len(yday) != 1:
            return False
        recv = yday[0].value
        require(isinstance(recv, ast.Call) and call_name(recv) == "timetuple" and isinstance(recv.func, ast.Attribute), "tm_yday is not read from <date>.timetuple()", yday[0])
        base = recv.func.value
        bad = []
        defs = []
        if isinstance(base, ast.Name):
            for n in walk_no_nested(fn.node):
                if isinstance(n, ast.Assign) and any(isinstance(tg, ast.Name) and tg.id == base.id for tg in n.targets):
                    defs.append(n.value)
                elif isinstance(n, ast.AugAssign) and isinstance(n.target, ast.Name) and n.target.id == base.id:
                    defs.append(ast.BinOp(left=ast.Name(id=base.id, ctx=ast.Load()), op=n.op, right=n.value))
                elif isinstance(n, ast.NamedExpr) and n.target.id == base.id:
                    defs.append(n.value)
        else:
            defs = [base]
        require(defs, "the date whose day number is taken has no definition", yday[0])

        def strip(e):
            while isinstance(e, ast.Call) and call_name(e) in ("int", "float") and len(e.args) == 1:
                e = e.args[0]
            return e

        for v in defs:
            if isinstance(v, ast.Call) and call_name(v) in ("date", "datetime") and not v.keywords and len(v.args) >= 3:
                got = [unparse(strip(a)) for a in v.args[:3]]
                if got != [y, mo, d]:
                    bad.append(f"the day number is taken of `{unparse(v)}`, not of the date ({y}, {mo}, {d})")
            else:
                bad.append(
                    f"the day number (tm_yday) is taken of `{unparse(v)[:80]}`: a date moved away from ({y}, {mo}, {d}) can lie in "
                    f"the neighbouring year, whose day number counts from another 1 January than the caller's `{y}`"
                )
        if not bad:
            rets = [n for n in walk_no_nested(fn.node) if isinstance(n, ast.Return) and n.value is not None]
            require(len(rets) == 1, "dayOfYear: single return expected", fn.node)
            e = inline_locals(fn, rets[0].value)
            try:
                want = ratfun(ast.parse(f"{unparse(yday[0])} + {h} / 24 + {mi} / 1440 + {sec} / 86400", mode="eval").body)
                if not rat_equal(ratfun(e), want):
                    bad.append(f"day fraction `{unparse(e)[:100]}`")
            except NotEvaluable as ex:
                raise Undecided(f"dayOfYear: {ex}", fn.node) from None
        if bad:
            r.violation(fn.qualname, "calendar:" + ";".join(b[:60] for b in bad), f"{fn.name}: " + "; ".join(bad), fn.loc())
        else:
            r.ok(fn.qualname, f"day number of date({y}, {mo}, {d}) from the standard library + linear day fraction", fn.loc())
        return True

    for q in ("resonaate.physics.time.conversions.dayOfYear", "resonaate.physics.time.stardate.days2mdh"):
        fn = p.func(q)

        def one(fn=fn):
            lits = [n for n in walk_no_nested(fn.node) if isinstance(n, ast.Assign) and isinstance(n.value, ast.List) and len(n.value.elts) == 12]
            if not lits and fn.name == "dayOfYear":
                if stdlib_idiom(fn):
                    return None
                return cumulative_idiom(fn)
            require(len(lits) == 1, "no 12-element month table", fn.node)
            vals = [getattr(e, "value", None) for e in lits[0].value.elts]
            name = lits[0].targets[0].id
            bad = []
            if vals != GREG:
                bad.append(f"month table {vals}")
            for n in walk_no_nested(fn.node):
                if isinstance(n, ast.Assign) and isinstance(n.targets[0], ast.Subscript) and isinstance(n.targets[0].value, ast.Name) and n.targets[0].value.id == name:
                    idx = getattr(n.targets[0].slice, "value", None)
                    val = getattr(n.value, "value", None)
                    if idx != 1 or val not in (28, 29):
                        bad.append(f"leap adjustment writes [{idx}] = {val}")
            if fn.name == "dayOfYear":
                ws = [n for n in walk_no_nested(fn.node) if isinstance(n, ast.While)]
                require(len(ws) == 1, "no cumulative while loop", fn.node)
                tst = unparse(ws[0].test)
                if "count < month" not in tst:
                    bad.append(f"loop test `{tst}`")
                acc = [n for n in walk_no_nested(ws[0]) if isinstance(n, ast.AugAssign)]
                if not any(unparse(n.value) == f"{name}[count - 1]" for n in acc):
                    bad.append("cumulative sum does not add table[count - 1]")
                ret = [n for n in walk_no_nested(fn.node) if isinstance(n, ast.Return)][0].value
                want = canon(ast.parse("days + day + hour / 24 + minute / 1440 + second / 86400", mode="eval").body)
                if canon(ret) != want:
                    bad.append(f"day fraction `{unparse(ret)}`")
                # leap rule: %4, and century rule
                tests = " ".join(unparse(n.test) for n in walk_no_nested(fn.node) if isinstance(n, ast.If))
                if "remainder(year, 4) == 0" not in tests or "remainder(year, 100) == 0" not in tests or "remainder(year, 400) != 0" not in tests:
                    bad.append(f"leap-year tests `{tests}`")
            if bad:
                r.violation(fn.qualname, "calendar:" + ";".join(bad), f"{fn.name}: " + "; ".join(bad), fn.loc())
            else:
                r.ok(fn.qualname, "Gregorian month table, leap day at index 1", fn.loc())

        r.guard(fn.qualname, one)


def rule_r7(chk, p, t, rid="C04.R7"):
    r = chk.rule(
        rid,
        "time decompositions conserve their input",
        2,
        "terrestrial time is UTC + dAT + 32.184 s re-expressed as (hour, minute, second) of the *same* calendar day and "
        "turned into a Julian date; in the last ~69 s of a UTC day it exceeds 24 h and the carry into the day number "
        "must survive: seconds2hms satisfies 3600 h + 60 m + s == total seconds, and the fraction-carry block of "
        "getJulianDate leaves day + fraction unchanged - decided symbolically (straight-line substitution, polynomial "
        "expansion with floor / remainder left uninterpreted)",
        "rounding of the floating-point operations",
    )
    from rsa.terms import NotEvaluable, expand_poly, sym_exec

    s2h = p.func("resonaate.physics.time.conversions.seconds2hms")

    def one():
        body = [b for b in s2h.node.body if not isinstance(b, ast.Return)]
        rets = [b for b in s2h.node.body if isinstance(b, ast.Return)]
        require(len(rets) == 1 and isinstance(rets[0].value, ast.Tuple) and len(rets[0].value.elts) == 3, "seconds2hms does not return one (hour, minute, second) triple", s2h.node)
        try:
            env = sym_exec(body)
            import copy

            class S(ast.NodeTransformer):
                def visit_Name(self, n):
                    return copy.deepcopy(env[n.id]) if n.id in env else n

            h, m, sec = [S().visit(copy.deepcopy(x)) for x in rets[0].value.elts]
            total = ast.BinOp(left=ast.BinOp(left=ast.BinOp(left=ast.Constant(3600), op=ast.Mult(), right=h), op=ast.Add(), right=ast.BinOp(left=ast.Constant(60), op=ast.Mult(), right=m)), op=ast.Add(), right=sec)
            ok = expand_poly(total) == expand_poly(ast.Name(id=s2h.params[0], ctx=ast.Load()))
        except NotEvaluable as ex:
            raise Undecided(f"seconds2hms is not straight-line arithmetic ({ex})", s2h.node) from None
        if ok:
            r.ok(s2h.qualname, "3600 hour + 60 minute + second == total_seconds identically", s2h.loc())
        else:
            r.violation(s2h.qualname, "seconds-not-conserved", f"seconds2hms: 3600 hour + 60 minute + second is not its input `{s2h.params[0]}` (hour = `{unparse(h)[:60]}`): a value beyond 24 h - terrestrial time in the last 69 s of a UTC day - loses its day carry, so precession / nutation are evaluated a day early and the Earth-fixed frame jumps by ~6e-7 rad until midnight", s2h.loc())

    r.guard(s2h.qualname, one)
    gj = p.func("resonaate.physics.time.stardate.JulianDate.getJulianDate")

    def two():
        rets = [n for n in walk_no_nested(gj.node) if isinstance(n, ast.Return) and n.value is not None]
        require(len(rets) == 1 and isinstance(rets[0].value, ast.Call) and rets[0].value.args, "getJulianDate: single `return cls(day + fraction)` expected", gj.node)
        total = rets[0].value.args[0]
        names = sorted({n.id for n in ast.walk(total) if isinstance(n, ast.Name)})
        n_blocks = 0
        for i in [n for n in walk_no_nested(gj.node) if isinstance(n, ast.If)]:
            stored = {x.id for b in i.body for x in ast.walk(b) if isinstance(x, ast.Name) and isinstance(x.ctx, ast.Store)}
            if not (stored & set(names)) or any(isinstance(b, ast.Raise) for b in i.body):
                continue
            n_blocks += 1
            try:
                env = sym_exec(i.body)
            except NotEvaluable as ex:
                raise Undecided(f"carry block is not straight-line arithmetic ({ex})", i) from None
            import copy

            class S(ast.NodeTransformer):
                def visit_Name(self, n):
                    return copy.deepcopy(env[n.id]) if n.id in env else n

            after = S().visit(copy.deepcopy(total))
            cons = f"{gj.qualname}:carry"
            if expand_poly(after) == expand_poly(total):
                r.ok(cons, f"`{unparse(total)}` is unchanged by the block under `{unparse(i.test)}`", gj.loc(i))
            else:
                r.violation(cons, f"carry-not-conserved:{unparse(after)[:60]}", f"the block under `{unparse(i.test)}` turns `{unparse(total)}` into `{unparse(after)[:100]}`: whole days in the fraction are dropped instead of carried (terrestrial time in the last 69 s of a UTC day comes out one day early)", gj.loc(i))
        if n_blocks == 0:
            r.trivial(gj.qualname + ":carry", "no block rewrites the day / fraction pair")

    r.guard(gj.qualname, two)
    # the consumer relies on both
    u2t = p.func("resonaate.physics.time.conversions.utc2TerrestrialTime")

    def three():
        defs = single_defs(u2t.node)
        jd = [c for c in ast.walk(u2t.node) if isinstance(c, ast.Call) and call_name(c) == "getJulianDate"]
        require(len(jd) == 1 and len(jd[0].args) == 6, "utc2TerrestrialTime: one getJulianDate(y, m, d, h, m, s) expected", u2t.node)
        tt = inline_locals(u2t, ast.parse("tt_secs", mode="eval").body) if "tt_secs" in defs else None
        want = expand_poly(ast.parse(f"{u2t.params[3]} * 3600 + {u2t.params[4]} * 60 + {u2t.params[5]} + {u2t.params[6]} + 32.184", mode="eval").body)
        ok = tt is not None and expand_poly(tt) == want
        unp = [n for n in walk_no_nested(u2t.node) if isinstance(n, ast.Assign) and isinstance(n.targets[0], ast.Tuple) and isinstance(n.value, ast.Call) and call_name(n.value) == "seconds2hms"]
        arg_ok = len(unp) == 1 and [unparse(x) for x in unp[0].targets[0].elts] == [unparse(a) for a in jd[0].args[3:]] and len(unp[0].value.args) == 1 and expand_poly(inline_locals(u2t, unp[0].value.args[0])) == want
        days_ok = [unparse(a) for a in jd[0].args[:3]] == list(u2t.params[:3])
        if ok and arg_ok and days_ok:
            r.ok(u2t.qualname, "TT = UTC + dAT + 32.184 s, split by seconds2hms and dated on the same calendar day", u2t.loc())
        else:
            r.violation(u2t.qualname, f"terrestrial-time:{ok}:{arg_ok}:{days_ok}", "utc2TerrestrialTime no longer dates (UTC seconds of day + dAT + 32.184 s), split by seconds2hms, on the given calendar day", u2t.loc())

    r.guard(u2t.qualname, three)


def rule_r8(chk, p, t, rid="C04.R8"):
    r = chk.rule(
        rid,
        "geodetic to Earth-fixed follows the reference-ellipsoid definition",
        1,
        "lla2ecef returns ((N + h) cos(lat) cos(lon), (N + h) cos(lat) sin(lon), (N (1 - e^2) + h) sin(lat), 0, 0, 0) with "
        "N = R / sqrt(1 - e^2 sin^2(lat)) (Vallado 3-7), compared after inlining every local and full polynomial "
        "expansion: sign-carrying factors (sin(lat) for the hemisphere) may not be replaced by even functions of them",
        "the numerical values",
    )
    from rsa.terms import expand_poly

    fn = p.func("resonaate.physics.transforms.methods.lla2ecef")

    def one():
        rets = [n for n in walk_no_nested(fn.node) if isinstance(n, ast.Return) and n.value is not None]
        require(len(rets) == 1, "lla2ecef: single return expected", fn.node)
        e = inline_locals(fn, rets[0].value)
        arr = e.args[0] if isinstance(e, ast.Call) and call_name(e) in ("array", "asarray") and e.args else e
        require(isinstance(arr, (ast.List, ast.Tuple)) and len(arr.elts) == 6, "lla2ecef does not return a 6-element array literal", rets[0])
        x = fn.params[0]
        lat, lon, alt = f"{x}[0]", f"{x}[1]", f"{x}[2]"
        N = f"(Earth.radius / sqrt(1 - Earth.eccentricity ** 2 * sin({lat}) ** 2))"
        want = [
            f"({N} + {alt}) * cos({lat}) * cos({lon})",
            f"({N} + {alt}) * cos({lat}) * sin({lon})",
            f"((1 - Earth.eccentricity ** 2) * {N} + {alt}) * sin({lat})",
            "0",
            "0",
            "0",
        ]
        bad = []
        for i, (got, w) in enumerate(zip(arr.elts, want)):
            if expand_poly(got) != expand_poly(ast.parse(w, mode="eval").body):
                bad.append(f"component {i} = `{unparse(got)[:90]}` (expected `{w[:90]}`)")
        if bad:
            r.violation(fn.qualname, "lla2ecef:" + ";".join(b[:40] for b in bad), "lla2ecef deviates from the reference-ellipsoid definition: " + "; ".join(bad), fn.loc(rets[0]))
        else:
            r.ok(fn.qualname, "Vallado 3-7 with N = R / sqrt(1 - e^2 sin^2 lat)", fn.loc(rets[0]), obligations=6)

    r.guard(fn.qualname, one)


# ====================================================================== R9
def _local_defs(fn):
    defs = {}
    for n in walk_no_nested(fn.node):
        if isinstance(n, (ast.Assign, ast.AnnAssign)) and n.value is not None:
            tg = n.targets[0] if isinstance(n, ast.Assign) else n.target
            if isinstance(tg, ast.Name):
                defs.setdefault(tg.id, []).append(n.value)
    return defs


def _vec_form(e, defs, ref, depth=0):
    """Abstract direction of a 3-vector expression built from the reference state `ref`:
    ("p",) = ref[:3], ("v",) = ref[3:], ("x", a, b) = cross(a, b), ("u", a) = a / |a|; None when not understood."""
    if depth > 8:
        return None
    if isinstance(e, ast.Name) and e.id in defs and len(defs[e.id]) == 1:
        return _vec_form(defs[e.id][0], defs, ref, depth + 1)
    k, base = slice_kind(e)
    if k is not None:
        return ("p",) if (k == "pos" and base == ref) else (("v",) if (k == "vel" and base == ref) else None)
    if isinstance(e, ast.Call) and call_name(e) == "cross" and len(e.args) == 2 and not e.keywords:
        a, b = _vec_form(e.args[0], defs, ref, depth + 1), _vec_form(e.args[1], defs, ref, depth + 1)
        return ("x", a, b) if a is not None and b is not None else None
    if isinstance(e, ast.BinOp) and isinstance(e.op, ast.Div) and isinstance(e.right, ast.Call) and call_name(e.right) == "norm" and len(e.right.args) == 1:
        a, b = _vec_form(e.left, defs, ref, depth + 1), _vec_form(e.right.args[0], defs, ref, depth + 1)
        if a is None or b is None:
            return None
        return ("u", a) if a == b else ("nu", a, b)  # nu: divided by the length of another vector - not a unit vector
    return None


_H = ("x", ("p",), ("v",))
_HN = ("x", ("v",), ("p",))


def _triad_verdict(rows, family):
    """rows: three abstract vectors.  family 'RSW': documented triad (u(p), u(h) x u(p), u(h)); 'NTW': (u(v) x u(h),
    u(v), u(h)).  Returns list of complaints (empty when the rows are that orthonormal right-handed triad)."""
    up, uv, uh = ("u", ("p",)), ("u", ("v",)), ("u", _H)
    if family == "RSW":
        prim = {0: up, 2: uh}
        third, cyc = 1, (2, 0)  # e2 = e3 x e1
    else:
        prim = {1: uv, 2: uh}
        third, cyc = 0, (1, 2)  # e1 = e2 x e3
    bad = []
    names = {"RSW": "RSW", "NTW": "NTW"}[family]
    for i, want in prim.items():
        if rows[i] != want:
            if rows[i][0] == "nu":
                bad.append(f"row {i + 1} is divided by the length of a different vector: it is not a unit vector, the matrix does not preserve lengths")
            elif rows[i] == ("u", _HN) and want == uh:
                bad.append(f"row {i + 1} is the unit vector of v x r: the cross-track axis must point along the angular momentum r x v")
            else:
                bad.append(f"row {i + 1} of the {names} matrix is not the documented unit vector ({'r/|r|' if want == up else ('v/|v|' if want == uv else '(r x v)/|r x v|')})")
    t = rows[third]
    a, b = rows[cyc[0]], rows[cyc[1]]
    if t == ("x", a, b):
        pass
    elif t == ("x", b, a):
        bad.append(f"row {third + 1} is the cross product of the other two in the reversed order: the triad is left-handed (determinant -1)")
    else:
        bad.append(f"row {third + 1} is not the cross product of the other two rows: the triad is not orthonormal for every state (r and v are not perpendicular in general)")
    return bad


def rule_r9(chk, p, t, rid="C04.R9", only=None):
    r = chk.rule(
        rid,
        "satellite-frame triads are orthonormal and right-handed",
        3 if only is None else len(only),
        "in eci2rsw, rsw2eci and ntw2eci the three rows of the rotation are built from ONE reference state as two unit "
        "vectors that are perpendicular by construction (r/|r| or v/|v|, and (r x v)/|r x v|) and their cross product in "
        "cyclic order, in the documented row order; the matrix (rows = basis: ECI -> frame, transposed: frame -> ECI) is "
        "applied to position and velocity alike. Decided algebraically for every state, so lengths and relative geometry "
        "are preserved and the pair is mutually inverse as rotations",
        "rounding of the products",
    )
    table = (("eci2rsw", "RSW", False), ("rsw2eci", "RSW", True), ("ntw2eci", "NTW", True))
    for name, fam, transposed in table:
        if only is not None and name not in only:
            continue
        fn = p.func(f"{METHODS}.{name}")

        def one(fn=fn, fam=fam, transposed=transposed, name=name):
            defs = _local_defs(fn)
            ref = fn.params[0]
            pos, vel = position_velocity_terms_raw(fn)
            mats = []
            slot_bad = []
            for term, want_kind in ((pos, "pos"), (vel, "vel")):
                c = chain(inline_matrix_only(term, defs))
                require(len(c) == 2, f"{name}: a component is not `M @ x`", fn.node)
                opk, _ = slice_kind(_resolve_slice(c[1], defs))
                require(opk is not None, f"{name}: the operand of the {want_kind} component is not a position / velocity slice", fn.node)
                if opk != want_kind:
                    slot_bad.append(f"the {'position' if want_kind == 'pos' else 'velocity'} component of the result is computed from the {'position' if opk == 'pos' else 'velocity'} slots of the input")
                mats.append(c[0])
            bad = list(slot_bad)
            if unparse(mats[0]) != unparse(mats[1]):
                # two spellings of one matrix (the triad built twice by an inlined helper): compared with every local
                # replaced by its definition
                try:
                    same_m = canon(inline_locals(fn, mats[0])) == canon(inline_locals(fn, mats[1]))
                except Exception:
                    same_m = False
                if not same_m:
                    bad.append("position and velocity are rotated by different matrices")
            m = mats[0]
            is_t = False
            while True:
                if isinstance(m, ast.Name) and m.id in defs and len(defs[m.id]) == 1:
                    m = defs[m.id][0]
                elif isinstance(m, ast.Attribute) and m.attr == "T":
                    is_t, m = not is_t, m.value
                elif isinstance(m, ast.Call) and call_name(m) == "transpose" and len(m.args) == 1:
                    is_t, m = not is_t, m.args[0]
                else:
                    break
            require(isinstance(m, ast.Call) and call_name(m) in ("array", "asarray", "vstack", "stack") and m.args and isinstance(m.args[0], (ast.List, ast.Tuple)) and len(m.args[0].elts) == 3, f"{name}: the rotation is not a stack of three basis rows", fn.node)
            rows = [_vec_form(x, defs, ref) for x in m.args[0].elts]
            if any(x is None for x in rows):
                raise Undecided(f"{name}: a basis row is not built from `{ref}[:3]`, `{ref}[3:]`, cross and normalisation", fn.node)
            if is_t != transposed:
                bad.append(f"the basis rows are {'transposed' if is_t else 'not transposed'}: {name} must apply the {'transpose (frame -> ECI)' if transposed else 'rows (ECI -> frame)'}")
            bad += _triad_verdict(rows, fam)
            if bad:
                r.violation(fn.qualname, f"triad:{name}:" + ";".join(b[:40] for b in bad), f"{name}: " + "; ".join(bad), fn.loc())
            else:
                r.ok(fn.qualname, f"{fam} triad from `{ref}`: two perpendicular unit vectors and their cross product in cyclic order; {'columns' if transposed else 'rows'} = basis", fn.loc(), obligations=5)

        r.guard(fn.qualname, one)


def position_velocity_terms_raw(fn):
    rets = [n for n in walk_no_nested(fn.node) if isinstance(n, ast.Return) and n.value is not None]
    require(len(rets) == 1, f"{fn.name}: expected a single return", fn.node)
    e = rets[0].value
    defs = _local_defs(fn)
    while isinstance(e, ast.Name) and e.id in defs and len(defs[e.id]) == 1:
        e = defs[e.id][0]
    require(isinstance(e, ast.Call) and call_name(e) in ("concatenate", "hstack") and e.args and isinstance(e.args[0], (ast.Tuple, ast.List)) and len(e.args[0].elts) == 2, f"{fn.name}: return is not concatenate((position, velocity))", rets[0])
    return e.args[0].elts[0], e.args[0].elts[1]


def inline_matrix_only(term, defs):
    while isinstance(term, ast.Name) and term.id in defs and len(defs[term.id]) == 1:
        term = defs[term.id][0]
    return term


def _resolve_slice(e, defs, depth=0):
    """x[:3] possibly of a local that is itself a plain (difference of) state(s): the slot kind is what matters."""
    while isinstance(e, ast.Name) and e.id in defs and len(defs[e.id]) == 1 and depth < 6:
        e, depth = defs[e.id][0], depth + 1
    return e


# ====================================================================== R10
MEAS = "resonaate.physics.measurements"


def _inline_measurement_helpers(p, e):
    """Replace calls of the single-return measurement helpers (getRange(x) ...) by their returned expression."""
    table = {}
    for nm in ("getRange", "getElevation", "getRangeRate"):
        if p.has_func(f"{MEAS}.{nm}"):
            fi = p.func(f"{MEAS}.{nm}")
            rets = [n for n in walk_no_nested(fi.node) if isinstance(n, ast.Return) and n.value is not None]
            if len(rets) == 1 and len(fi.params) == 1:
                table[nm] = (fi.params[0], inline_locals(fi, rets[0].value))

    class T(ast.NodeTransformer):
        def visit_Call(self, n):
            self.generic_visit(n)
            nm = call_name(n)
            if nm in table and len(n.args) == 1 and not n.keywords:
                prm, body = table[nm]
                arg = n.args[0]

                class S(ast.NodeTransformer):
                    def visit_Name(self, x):
                        return copy.deepcopy(arg) if x.id == prm else x

                return self.visit(S().visit(copy.deepcopy(body)))
            return n

    return T().visit(copy.deepcopy(e))


def rule_r10(chk, p, t, rid="C04.R10", parts=("forward", "inverse", "measurement")):
    from rsa import ratfun as rf
    from rsa.terms import NotEvaluable, returned_exprs

    r = chk.rule(
        rid,
        "spherical model: forward definition, exact derivative rows, and every angle recovery agrees with it",
        {"forward": 2, "inverse": 2, "measurement": 4}.get(parts[0], 2) if len(parts) == 1 else sum({"forward": 2, "inverse": 2, "measurement": 4}[x] for x in parts),
        "spherical2cartesian is (rho cos(th) cos(ph), rho cos(th) sin(ph), rho sin(th)) and its velocity rows are the exact time "
        "derivative of the position rows (formal differentiation, compared as polynomials); cartesian2spherical returns, in the "
        "forward function's parameter order, |r|, arcsin(z/|r|), atan2 with the sine-carrying component first and the "
        "cosine-carrying component second under one positive scale (quadrant agreement) wrapped to [0, 2pi), r.v/|r| and the "
        "angular rates as rational functions equal to the reference ones; the measurement functions getRange / getElevation / "
        "getAzimuth / getRangeRate are the same recoveries applied to the axis-flipped SEZ vector of razel2sez (so range, "
        "azimuth and elevation invert the measurement model). Quotients are compared by cross multiplication, so the verdict "
        "does not depend on how an expression is associated or factored",
        "values at the singular directions (zenith), rounding",
    )
    s2c = p.func(f"{METHODS}.spherical2cartesian")
    c2s = p.func(f"{METHODS}.cartesian2spherical")

    def fwd_rows():
        rets = [n for n in walk_no_nested(s2c.node) if isinstance(n, ast.Return) and n.value is not None]
        require(len(rets) == 1, "spherical2cartesian: single return expected", s2c.node)
        e = inline_locals(s2c, rets[0].value)
        arr = e.args[0] if isinstance(e, ast.Call) and call_name(e) in ("array", "asarray") and e.args else e
        require(isinstance(arr, (ast.List, ast.Tuple)) and len(arr.elts) == 6, "spherical2cartesian does not return a 6-element array literal", rets[0])
        require(len(s2c.params) == 6, "spherical2cartesian: six parameters expected", s2c.node)
        return arr.elts, rets[0]

    if "forward" in parts:

        def forward():
            rows, ret = fwd_rows()
            rho, th, ph, rho_d, th_d, ph_d = s2c.params
            want = [f"{rho} * cos({th}) * cos({ph})", f"{rho} * cos({th}) * sin({ph})", f"{rho} * sin({th})"]
            bad = []
            polys = []
            for i in range(3):
                got = rf.ratfun(rows[i])
                polys.append(got)
                if not rf.rat_equal(got, rf.ratfun(rf.parse(want[i]))):
                    bad.append(f"position row {i} = `{unparse(rows[i])[:70]}` (documented physics convention: `{want[i]}`)")
            if bad:
                r.violation(s2c.qualname + ":position", "forward-position:" + ";".join(b[:40] for b in bad), "spherical2cartesian position rows deviate from the documented spherical convention: " + "; ".join(bad), s2c.loc(ret))
            else:
                r.ok(s2c.qualname + ":position", "(rho cos th cos ph, rho cos th sin ph, rho sin th)", s2c.loc(ret), obligations=3)

            def atom(src):
                (m, _c), = rf.ratfun(rf.parse(src))[0].items()
                return m[0]

            def P(src):
                return rf.ratfun(rf.parse(src))[0]

            rules = {
                atom(rho): P(rho_d),
                atom(f"cos({th})"): P(f"-sin({th}) * {th_d}"),
                atom(f"sin({th})"): P(f"cos({th}) * {th_d}"),
                atom(f"cos({ph})"): P(f"-sin({ph}) * {ph_d}"),
                atom(f"sin({ph})"): P(f"cos({ph}) * {ph_d}"),
            }
            bad = []
            for i in range(3):
                num, den = polys[i]
                if rf.p_key(den) != rf.p_key(rf.ONE):
                    raise Undecided(f"spherical2cartesian: position row {i} is not a polynomial in rho and the sines / cosines", ret)
                d = rf.p_derivative(num, rules)
                got = rf.ratfun(rows[i + 3])
                if not rf.rat_equal(got, (d, rf.ONE)):
                    bad.append(f"velocity row {i + 3} = `{unparse(rows[i + 3])[:90]}` is not the time derivative of position row {i}")
            if bad:
                r.violation(s2c.qualname + ":velocity", "forward-velocity:" + ";".join(b[:30] for b in bad), "spherical2cartesian: " + "; ".join(bad), s2c.loc(ret))
            else:
                r.ok(s2c.qualname + ":velocity", "rows 3-5 are d/dt of rows 0-2 (product rule, exact)", s2c.loc(ret), obligations=3)

        r.guard(s2c.qualname, forward)

    def check_atan(e, sin_src, cos_src, alt=None):
        """e must be wrapAngle2Pi(arctan2(A, B)) with A = s * sin_src, B = s * cos_src, s > 0.  Returns complaints."""
        bad = []
        inner = e
        if isinstance(e, ast.Call) and call_name(e) == "wrapAngle2Pi" and len(e.args) == 1:
            inner = e.args[0]
        else:
            bad.append("the angle is not wrapped to [0, 2pi) by wrapAngle2Pi")
        if not (isinstance(inner, ast.Call) and call_name(inner) in ("arctan2", "atan2") and len(inner.args) == 2):
            return bad + [f"the angle `{unparse(inner)[:60]}` is not a two-argument arctangent (quadrant lost)"]
        A, B = rf.ratfun(inner.args[0]), rf.ratfun(inner.args[1])
        S, C = rf.ratfun(rf.parse(sin_src)), rf.ratfun(rf.parse(cos_src))
        pa, pb = rf.positive_scale(A, S), rf.positive_scale(B, C)
        if pa is True and pb is True and rf.rat_equal((rf.p_mul(A[0], C[0]), rf.p_mul(A[1], C[1])), (rf.p_mul(B[0], S[0]), rf.p_mul(B[1], S[1]))):
            return bad
        # diagnose
        if rf.positive_scale(A, C) is not None and rf.positive_scale(B, S) is not None:
            return bad + [f"arctan2 arguments are swapped: the first must be proportional to `{sin_src}` (sine-carrying), the second to `{cos_src}`"]
        if pa is False or pb is False:
            return bad + [f"arctan2(`{unparse(inner.args[0])[:40]}`, `{unparse(inner.args[1])[:40]}`): an argument has the opposite sign of `{sin_src}` / `{cos_src}` (angle mirrored or shifted by pi)"]
        if pa is True and pb is True:
            return bad + ["the two arctan2 arguments are scaled by different factors"]
        return bad + [f"arctan2(`{unparse(inner.args[0])[:40]}`, `{unparse(inner.args[1])[:40]}`) is not a positive multiple of (`{sin_src}`, `{cos_src}`)"]

    if "inverse" in parts:

        def inverse():
            try:
                rets = returned_exprs(c2s)
            except NotEvaluable as e:
                raise Undecided(f"cartesian2spherical: {e}", c2s.node)
            x = c2s.params[0]
            regular = [(e, c) for e, c in rets if isinstance(e, ast.Tuple) and len(e.elts) == 6]
            require(len(regular) == len(rets) and rets, "cartesian2spherical does not return a 6-tuple on every path", c2s.node)
            horiz = rf.ratfun(rf.parse(f"sqrt({x}[0] ** 2 + {x}[1] ** 2)"))
            n_reg = n_deg = 0
            for e, conds in rets:
                # classify the path by its condition on the horizontal magnitude
                kind = None
                for c, pol in conds:
                    if isinstance(c, ast.Compare) and len(c.ops) == 1 and isinstance(c.comparators[0], ast.Constant) and c.comparators[0].value == 0 and rf.rat_equal(rf.ratfun(c.left), horiz):
                        if isinstance(c.ops[0], (ast.NotEq, ast.Gt)):
                            kind = "regular" if pol else "degenerate"
                        elif isinstance(c.ops[0], (ast.Eq, ast.LtE)):
                            kind = "degenerate" if pol else "regular"
                if kind is None and len(rets) == 1:
                    kind = "regular"
                if kind is None:
                    raise Undecided("cartesian2spherical: a path is not selected by a test of the horizontal magnitude sqrt(x^2 + y^2) against 0", c2s.node)
                el = e.elts
                bad = []
                pos, vel = f"{x}[:3]", f"{x}[3:]"
                if not rf.rat_equal(rf.ratfun(el[0]), rf.ratfun(rf.parse(f"norm({pos})"))):
                    bad.append(f"slot 0 (rho) = `{unparse(el[0])[:50]}` is not norm({pos})")
                if not (isinstance(el[1], ast.Call) and call_name(el[1]) in ("arcsin", "asin") and rf.rat_equal(rf.ratfun(el[1].args[0]), rf.ratfun(rf.parse(f"{x}[2] / norm({pos})")))):
                    bad.append(f"slot 1 (theta) = `{unparse(el[1])[:60]}` is not arcsin(z / |r|) - the forward model puts rho sin(theta) on component 2")
                if kind == "regular":
                    n_reg += 1
                    bad += ["slot 2 (phi): " + b for b in check_atan(el[2], f"{x}[1]", f"{x}[0]")]
                else:
                    n_deg += 1
                    bad += ["slot 2 (phi, vertical position): " + b for b in check_atan(el[2], f"{x}[4]", f"{x}[3]")]
                if not rf.rat_equal(rf.ratfun(el[3]), rf.ratfun(rf.parse(f"dot({pos}, {vel}) / norm({pos})"))):
                    bad.append(f"slot 3 (rho rate) = `{unparse(el[3])[:60]}` is not r.v / |r|")
                if kind == "regular":
                    want4 = f"({x}[5] - dot({pos}, {vel}) / norm({pos}) * ({x}[2] / norm({pos}))) / sqrt({x}[0] ** 2 + {x}[1] ** 2)"
                    want5 = f"({x}[0] * {x}[4] - {x}[1] * {x}[3]) / ({x}[0] ** 2 + {x}[1] ** 2)"
                    if not rf.rat_equal(rf.ratfun(el[4]), rf.ratfun(rf.parse(want4))):
                        bad.append(f"slot 4 (theta rate) = `{unparse(el[4])[:70]}` differs from (vz - rdot z/|r|) / sqrt(x^2 + y^2)")
                    if not rf.rat_equal(rf.ratfun(el[5]), rf.ratfun(rf.parse(want5))):
                        bad.append(f"slot 5 (phi rate) = `{unparse(el[5])[:70]}` differs from (x vy - y vx) / (x^2 + y^2)")
                cons = f"{c2s.qualname}:{kind}"
                if bad:
                    r.violation(cons, "inverse:" + ";".join(b[:45] for b in bad), f"cartesian2spherical ({kind} path) does not invert spherical2cartesian slot by slot: " + "; ".join(bad), c2s.loc())
                else:
                    r.ok(cons, "rho, theta, phi (sine component first, positive common scale, wrapped), rates", c2s.loc(), obligations=6 if kind == "regular" else 4)
            if n_reg < 1:
                r.error(c2s.qualname, "no regular path found in cartesian2spherical")

        r.guard(c2s.qualname, inverse)

    if "measurement" in parts:
        rz = p.func(f"{METHODS}.razel2sez")

        def flip():
            rr = [n for n in walk_no_nested(rz.node) if isinstance(n, ast.Return)][0].value
            mm = is_matmul(rr)
            require(mm is not None, "razel2sez is not spherical2cartesian(...).dot(D)", rz.node)
            sph, D = mm
            require(isinstance(D, ast.Call) and call_name(D) in ("diagflat", "diag") and D.args and isinstance(D.args[0], (ast.List, ast.Tuple)) and len(D.args[0].elts) == 6, "axis flip is not a diagflat literal", rz.node)
            vals = []
            for e in D.args[0].elts:
                v = const_value(e)
                require(v in (1, -1), "axis flip entry is not +-1", e)
                vals.append(int(v))
            require(isinstance(sph, ast.Call) and call_name(sph) == "spherical2cartesian" and len(sph.args) == 6, "razel2sez does not call spherical2cartesian", rz.node)
            order = [unparse(a) for a in sph.args[:3]]
            require(order == [rz.params[0], rz.params[1], rz.params[2]] and len(rz.params) >= 3, "razel2sez argument order is not (range, elevation, azimuth) -> (rho, theta, phi)", rz.node)
            return vals

        def sgn(v, src):
            return src if v > 0 else f"-{src}"

        def m_range():
            fn = p.func(f"{MEAS}.getRange")
            flip()
            x = fn.params[0]
            rets = returned_exprs(fn)
            bad = [unparse(e)[:60] for e, _c in rets if not rf.rat_equal(rf.ratfun(_inline_measurement_helpers(p, e)), rf.ratfun(rf.parse(f"norm({x}[:3])")))]
            if bad:
                r.violation(fn.qualname, "range:" + ";".join(bad), f"getRange returns `{bad[0]}`, not the length of the slant-range position", fn.loc())
            else:
                r.ok(fn.qualname, "|rho|", fn.loc())

        def m_el():
            fn = p.func(f"{MEAS}.getElevation")
            D = flip()
            x = fn.params[0]
            rets = returned_exprs(fn)
            bad = []
            for e, _c in rets:
                e = _inline_measurement_helpers(p, e)
                if not (isinstance(e, ast.Call) and call_name(e) in ("arcsin", "asin") and len(e.args) == 1 and rf.rat_equal(rf.ratfun(e.args[0]), rf.ratfun(rf.parse(f"{sgn(D[2], x + '[2]')} / norm({x}[:3])")))):
                    bad.append(unparse(e)[:70])
            if bad:
                r.violation(fn.qualname, "elevation:" + ";".join(bad), f"getElevation returns `{bad[0]}`, not arcsin(Z / |rho|): razel2sez puts rho sin(el) on the zenith component", fn.loc())
            else:
                r.ok(fn.qualname, "arcsin(Z / |rho|)", fn.loc())

        def m_az():
            fn = p.func(f"{MEAS}.getAzimuth")
            D = flip()
            x = fn.params[0]
            rets = returned_exprs(fn)
            require(rets, "getAzimuth: no return", fn.node)
            n_ok = 0
            for e, conds in rets:
                e = _inline_measurement_helpers(p, e)
                zen = [pol for c, pol in conds if isinstance(c, ast.Call) and call_name(c) == "fpe_equals"]
                k = 3 if (zen and zen[0]) else 0
                if zen:
                    c = [c for c, _pol in conds if isinstance(c, ast.Call) and call_name(c) == "fpe_equals"][0]
                    a0 = _inline_measurement_helpers(p, c.args[0])
                    okc = isinstance(a0, ast.Call) and call_name(a0) in ("arcsin", "asin") and rf.rat_equal(rf.ratfun(c.args[1]), rf.ratfun(rf.parse("PI / 2")))
                    if not okc:
                        raise Undecided("getAzimuth: the special case is not `elevation == pi/2`", c)
                bad = check_atan(e, sgn(D[1 + k], f"{x}[{1 + k}]"), sgn(D[0 + k], f"{x}[{0 + k}]"))
                cons = f"{fn.qualname}:{'zenith' if k else 'regular'}"
                if bad:
                    r.violation(cons, "azimuth:" + ";".join(b[:50] for b in bad), "getAzimuth does not invert razel2sez (which puts rho cos(el) cos(az) on -S and rho cos(el) sin(az) on E): " + "; ".join(bad), fn.loc())
                else:
                    n_ok += 1
                    r.ok(cons, f"atan2(E, -S) on the {'velocity' if k else 'position'} slots, wrapped to [0, 2pi)", fn.loc())

        def m_rr():
            fn = p.func(f"{MEAS}.getRangeRate")
            D = flip()
            require(D[:3] == D[3:], "axis flip differs between position and velocity", rz.node)
            x = fn.params[0]
            rets = returned_exprs(fn)
            bad = [unparse(e)[:70] for e, _c in rets if not rf.rat_equal(rf.ratfun(_inline_measurement_helpers(p, e)), rf.ratfun(rf.parse(f"dot({x}[:3], {x}[3:]) / norm({x}[:3])")))]
            if bad:
                r.violation(fn.qualname, "range-rate:" + ";".join(bad), f"getRangeRate returns `{bad[0]}`, not rho . rho_dot / |rho|", fn.loc())
            else:
                r.ok(fn.qualname, "rho . rho_dot / |rho|", fn.loc())

        for nm, f in (("getRange", m_range), ("getElevation", m_el), ("getAzimuth", m_az), ("getRangeRate", m_rr)):
            r.guard(f"{MEAS}.{nm}", f)


def rule_r11(chk, p, t, rid="C04.R11"):
    from rules.shared_memo import memo_rule

    memo_rule(
        chk, p, t, rid,
        modules=("resonaate.physics.transforms", "resonaate.physics.time", "resonaate.physics.maths"),
        floor=60,
        what="the frame / time conversion modules (physics.transforms, physics.time, physics.maths)",
    )


def rule_r12(chk, p, t, rid="C04.R12"):
    r = chk.rule(
        rid,
        "mirror symmetry of the geodetic and spherical conversions on every return path",
        8,
        "the reference ellipsoid and the sphere are symmetric about the equatorial plane and about every meridian "
        "plane: mirroring the Earth-fixed point (z -> -z, resp. y -> -y) must mirror the result (latitude / declination "
        "resp. longitude / right ascension change sign, height and range stay) and vice versa - on *every* return "
        "path, including special-case shortcuts for degenerate inputs that the general closed form never reaches.  "
        "Decided by a parity dataflow analysis (rsa/symmetry.py: even / odd / mixed / unknown under the reflection, "
        "sign rules of arithmetic, odd and even elementary functions, conditions on reflection-invariant values keep a "
        "point and its image on the same path, `odd == 0` is the fixed set where nothing is claimed); a component with a "
        "definite parity other than the demanded one is a violation, an unknown parity is undecided",
        "the values; anything on the fixed set of the reflection (equator, prime meridian plane); conversions that are "
        "not mirror images of themselves (time-dependent Earth rotation); angles are compared modulo a full turn",
    )
    from rsa import symmetry as S

    M = "resonaate.physics.transforms.methods."
    z6, y6 = (S.E, S.E, S.O, S.E, S.E, S.O), (S.E, S.O, S.E, S.E, S.O, S.E)
    TABLE = [
        # function, reflection, {parameter: parity}, demanded result parity
        ("ecef2lla", "z -> -z", lambda ps: {ps[0]: z6}, (S.O, S.E, S.E)),
        ("ecef2lla", "y -> -y", lambda ps: {ps[0]: y6}, (S.E, S.O, S.E)),
        ("lla2ecef", "lat -> -lat", lambda ps: {ps[0]: (S.O, S.E, S.E)}, z6),
        ("lla2ecef", "lon -> -lon", lambda ps: {ps[0]: (S.E, S.O, S.E)}, y6),
        ("cartesian2spherical", "z -> -z", lambda ps: {ps[0]: z6}, (S.E, S.O, S.E, S.E, S.O, S.E)),
        ("cartesian2spherical", "y -> -y", lambda ps: {ps[0]: y6}, (S.E, S.E, S.O, S.E, S.E, S.O)),
        ("spherical2cartesian", "theta -> -theta", lambda ps: {ps[1]: S.O, ps[4]: S.O}, z6),
        ("spherical2cartesian", "phi -> -phi", lambda ps: {ps[2]: S.O, ps[5]: S.O}, y6),
    ]
    for name, refl, seed_of, want in TABLE:
        fn = p.func(M + name)

        def one(fn=fn, refl=refl, seed_of=seed_of, want=want, name=name):
            require(len(fn.params) >= (6 if name == "spherical2cartesian" else 1), f"{name}: unexpected parameters", fn.node)
            # wrapAngle2Pi(-x) = 2 pi - wrapAngle2Pi(x): the mirror image of an angle modulo a full turn
            rets, notes = S.analyse(fn, seed_of(fn.params), odd_funcs=("wrapAngle2Pi",))
            require(rets, f"{name}: no return found", fn.node)
            n_ok = 0
            for st, got in rets:
                res = S.conforms(got, want)
                if "violation" in res:
                    bad = [i for i, x in enumerate(res) if x == "violation"]
                    r.violation(
                        fn.qualname,
                        f"{name}:{refl}:components{bad}",
                        f"{name} under {refl}: the value returned at line {st.lineno} has parity {S.describe(got)}, the "
                        f"mirror image demands {S.describe(want)} (component(s) {bad}): the result for a point and for its mirror "
                        "image are not mirror images of each other",
                        fn.loc(st),
                    )
                elif "unknown" in res:
                    why = "; ".join(f"line {ln}: {tx}" for ln, tx in notes[:2])
                    r.undecided(fn.qualname + ":" + refl, f"{name} under {refl}: parity {S.describe(got)} of the value returned at line {st.lineno} is not determined" + (f" ({why})" if why else ""), fn.loc(st))
                else:
                    n_ok += 1
            if n_ok == len(rets):
                r.ok(fn.qualname + ":" + refl, f"{len(rets)} return path(s): {S.describe(want)}", fn.loc(), obligations=len(rets))

        r.guard(fn.qualname + ":" + refl, one)


_ECEF2LLA_REF = """
def ref(X):
    r_i, r_j, r_k = X[0], X[1], X[2]
    r_delta = sqrt(r_i**2 + r_j**2)
    a = Earth.radius
    b = a * sqrt(1 - Earth.eccentricity**2) * sign(r_k)
    E = (b * r_k - (a**2 - b**2)) / (a * r_delta)
    F = (b * r_k + (a**2 - b**2)) / (a * r_delta)
    P = 4.0 * (E * F + 1) / 3.0
    Q = 2.0 * (E**2 - F**2)
    D = P**3 + Q**2
    if D >= 0:
        nu = (sqrt(D) - Q) ** (1.0 / 3) - (sqrt(D) + Q) ** (1.0 / 3)
    else:
        nu = 2.0 * sqrt(-P) * cos(arccos(Q / (P * sqrt(-P))) / 3.0)
    G = 0.5 * (sqrt(E**2 + nu) + E)
    t = sqrt(G**2 + (F - nu * G) / (2 * G - E)) - G
    lat = arctan(a * (1.0 - t**2) / (2.0 * b * t))
    lon = arctan2(r_j, r_i)
    alt = (r_delta - a * t) * cos(lat) + (r_k - b) * sin(lat)
    return array([lat, lon, alt])
"""


def rule_r13(chk, p, t, rid="C04.R13"):
    r = chk.rule(
        rid,
        "Earth-fixed to geodetic follows the cited closed form",
        1,
        "ecef2lla cites Vallado Algorithm 13 (the closed-form solution of the quartic in t = tan(pi/4 - psi/2), "
        "Borkowski / Astronomical Almanac): E, F = (b z -/+ (a^2 - b^2)) / (a r_delta) with b = sign(z) a sqrt(1 - e^2), "
        "P = 4 (E F + 1) / 3, Q = 2 (E^2 - F^2), D = P^3 + Q^2, nu by the sign of D, G, t, latitude = arctan(a (1 - t^2) / "
        "(2 b t)), longitude = arctan2(y, x), height = (r_delta - a t) cos(lat) + (z - b) sin(lat).  Every return path "
        "is inlined to the parameters (path-wise substitution, nothing executed) and compared with the reference as a "
        "rational function over opaque atoms; for each of the two D-branches some path taken under that polarity of the "
        "D test must return exactly the reference triple.  Paths guarded by a degenerate-input test (on the polar "
        "axis, z = 0) are not compared with the closed form - their mirror symmetry is R12's",
        "floating-point accuracy near the poles; the degenerate paths' values",
    )
    import types

    from rsa.ratfun import eval_steps, rat_equal, ratfun
    from rsa.terms import NotEvaluable, path_steps

    fn = p.func("resonaate.physics.transforms.methods.ecef2lla")

    def triple(e):
        arr = e.args[0] if isinstance(e, ast.Call) and call_name(e) in ("array", "asarray") and e.args else e
        if isinstance(arr, (ast.List, ast.Tuple)) and len(arr.elts) == 3:
            return arr.elts
        return None

    def one():
        ref_node = ast.parse(_ECEF2LLA_REF).body[0]
        x = fn.params[0]

        class RN(ast.NodeTransformer):
            def visit_Name(self, n):
                return ast.copy_location(ast.Name(id=x, ctx=n.ctx), n) if n.id == "X" else n

        ref_paths = path_steps(types.SimpleNamespace(node=RN().visit(ref_node), qualname="ref"))
        require(len(ref_paths) == 2, "internal: reference has two paths", fn.node)

        def evaluate(path):
            env, conds = eval_steps(path["steps"])
            tr = triple(path["ret"].value) if path["ret"] is not None and path["ret"].value is not None else None
            if tr is None:
                # `return lla` of a local bound to the array literal
                v = path["ret"].value if path["ret"] is not None else None
                if isinstance(v, ast.Name):
                    for st in reversed(path["steps"]):
                        if st[0] == "bind" and st[1] == v.id:
                            tr = triple(st[2])
                            break
            if tr is None:
                return None, conds
            return [ratfun(c, None, env) for c in tr], conds

        refs = {}
        for pth in ref_paths:
            got, conds = evaluate(pth)
            test, pol, env = conds[-1]
            refs[pol] = (got, ratfun(test.left, None, env))
        try:
            paths = path_steps(fn, max_paths=128)
        except NotEvaluable as e:
            raise Undecided(f"ecef2lla: {e}")
        found = {True: [], False: []}
        other = 0
        for pth in paths:
            try:
                got, conds = evaluate(pth)
            except NotEvaluable:
                got = None
            if got is None:
                other += 1
                continue
            hit = None
            for pol, (want, dexpr) in refs.items():
                if all(rat_equal(g, w) for g, w in zip(got, want)):
                    hit = pol
            if hit is None:
                other += 1
                continue
            # the D test on this path: a comparison of D with zero whose polarity selects this branch
            dpol = None
            want_d = refs[hit][1]
            for test, lab, env in conds:
                if isinstance(test, ast.Compare) and len(test.ops) == 1:
                    try:
                        lk, rk = ratfun(test.left, None, env), ratfun(test.comparators[0], None, env)
                    except NotEvaluable:
                        continue
                    op = type(test.ops[0])
                    if rat_equal(lk, want_d) and not rk[0]:
                        nonneg = {ast.GtE: True, ast.Gt: True, ast.Lt: False, ast.LtE: False}.get(op)
                    elif rat_equal(rk, want_d) and not lk[0]:
                        nonneg = {ast.LtE: True, ast.Lt: True, ast.Gt: False, ast.GtE: False}.get(op)
                    else:
                        continue
                    if nonneg is not None:
                        dpol = nonneg if lab else not nonneg
            found[hit].append(dpol)
        bad = []
        for pol, nm in ((True, "D >= 0 (one real root: cube roots)"), (False, "D < 0 (three real roots: trigonometric form)")):
            if not found[pol]:
                bad.append(f"no return path returns the closed form of the branch {nm}")
            elif not any(d == pol for d in found[pol]):
                bad.append(f"the closed form of the branch {nm} is returned under the opposite (or no) test of D = P^3 + Q^2")
        if bad:
            r.violation(fn.qualname, "ecef2lla:" + ";".join(b[:50] for b in bad), "ecef2lla deviates from the cited closed form (Vallado Algorithm 13): " + "; ".join(bad), fn.loc())
        else:
            r.ok(fn.qualname, f"both D-branches agree with the reference ({len(paths)} paths, {other} degenerate-input path(s) not compared)", fn.loc(), obligations=2)

    r.guard(fn.qualname, one)


def rule_r14(chk, p, t, rid="C04.R14"):
    r = chk.rule(
        rid,
        "Earth-orientation values are the day's tabulated record",
        3,
        "UT1-UTC is tabulated per UTC day and jumps by one second where a leap second is inserted; the rotation angle is "
        "continuous only because the table value of the *day* is used together with the day's own dAT.  Every builder of "
        "reduction parameters asks for the record of `utc_date.date()`, the module-level getter hands that key to the "
        "loader unchanged, and the loader returns - on every normal path - the record its table holds for exactly that "
        "key (`self._eop_data.get(key)` / `[key]`), never a value constructed from the records of several days (an "
        "interpolation ramps through the leap-second jump of UT1-UTC: the Earth-fixed frame then turns 1/86400 too fast "
        "all day and the jump at the leap second disappears)",
        "the table's contents",
    )
    EOPS = "resonaate.physics.transforms.eops"
    red = p.module("resonaate.physics.transforms.reductions")
    n_calls = 0
    for fi in list(red.functions.values()) + [m for c in red.classes.values() for m in c.methods.values()]:
        for c in find_calls(fi.node, "getEarthOrientationParameters"):
            n_calls += 1
            a0 = c.args[0] if c.args else None
            dt_params = [q for q in fi.params if q not in ("self", "cls")]
            ok = isinstance(a0, ast.Call) and isinstance(a0.func, ast.Attribute) and a0.func.attr == "date" and not a0.args and isinstance(a0.func.value, ast.Name) and a0.func.value.id in dt_params
            if ok:
                r.ok(f"{fi.qualname}:eop-key", f"record of `{unparse(a0)}`", fi.loc(c))
            else:
                r.violation(fi.qualname, f"eop-key:{unparse(a0)[:40] if a0 is not None else None}", f"{fi.name} asks for the Earth-orientation values of `{unparse(a0) if a0 is not None else None}`, not of the UTC calendar day `<utc datetime>.date()` the table is keyed by", fi.loc(c))
    if n_calls == 0:
        r.error("eop-key", "no call of getEarthOrientationParameters found in physics.transforms.reductions")
    getter = p.func(f"{EOPS}.getter.getEarthOrientationParameters")

    def g():
        rets = [n for n in walk_no_nested(getter.node) if isinstance(n, ast.Return) and n.value is not None]
        require(len(rets) == 1, "getter: single return expected", getter.node)
        v = inline_locals(getter, rets[0].value)
        key = getter.params[0]
        if isinstance(v, ast.Call) and isinstance(v.func, ast.Attribute) and v.func.attr == "getEarthOrientationParameters" and [unparse(a) for a in v.args] == [key] and not v.keywords:
            r.ok(getter.qualname, f"loader.getEarthOrientationParameters({key})", getter.loc(rets[0]))
        else:
            r.violation(getter.qualname, f"eop-getter:{unparse(v)[:50]}", f"the getter returns `{unparse(v)[:80]}`, not the loader's record for its own key", getter.loc(rets[0]))

    r.guard(getter.qualname, g)
    base = p.cls(f"{EOPS}.loaders.EOPLoader")
    for ci in [base] + list(p.subclasses(base)):
        m = ci.methods.get("getEarthOrientationParameters")
        if m is None:
            continue

        def l(m=m, ci=ci):
            key = m.params[1]
            rets = [n for n in walk_no_nested(m.node) if isinstance(n, ast.Return) and n.value is not None]
            require(rets, "loader getter has no return", m.node)
            lookups = set()
            for n in walk_no_nested(m.node):
                if isinstance(n, ast.Assign) and len(n.targets) == 1 and isinstance(n.targets[0], ast.Name):
                    v = n.value
                    is_lookup = (isinstance(v, ast.Call) and isinstance(v.func, ast.Attribute) and v.func.attr == "get" and unparse(v.func.value).startswith("self._eop") and v.args and unparse(v.args[0]) == key) or (
                        isinstance(v, ast.Subscript) and unparse(v.value).startswith("self._eop") and unparse(v.slice) == key
                    )
                    if is_lookup:
                        lookups.add(n.targets[0].id)
            bad = []
            for rt in rets:
                v = rt.value
                direct = (isinstance(v, ast.Subscript) and unparse(v.value).startswith("self._eop") and unparse(v.slice) == key) or (isinstance(v, ast.Call) and isinstance(v.func, ast.Attribute) and v.func.attr == "get" and unparse(v.func.value).startswith("self._eop") and v.args and unparse(v.args[0]) == key)
                if not direct and not (isinstance(v, ast.Name) and v.id in lookups and sum(1 for a in walk_no_nested(m.node) if isinstance(a, (ast.Assign, ast.AugAssign)) and any(isinstance(x, ast.Name) and x.id == v.id and isinstance(x.ctx, ast.Store) for x in ast.walk(a))) == 1):
                    bad.append(f"`return {unparse(v)[:70]}` (line {rt.lineno})")
            if bad:
                r.violation(m.qualname, "eop-record:" + ";".join(b[:40] for b in bad), f"{ci.name}.getEarthOrientationParameters can return something else than the table record of the requested day: " + "; ".join(bad) + " - values combined across days smear the leap-second jump of UT1-UTC", m.loc())
            else:
                r.ok(m.qualname, f"returns the table record of `{key}` on {len(rets)} return(s)", m.loc())

        r.guard(m.qualname, l)


_LIKE_SELFTEST = """
def good(state):
    out = empty_like(state, dtype=float)
    out[:3] = state[:3] * 0.5
    return out

def bad(rotation, state):
    out = empty_like(state)
    out[:3] = matmul(rotation, state[:3])
    return out

def placeholder(mask):
    held = zeros_like(mask)
    held = mask * 2.0
    return held
"""


def _inherited_dtype_buffers(fn_node, params):
    """[(local, creating call, first element-wise store)] for locals created by `*_like(<view of a parameter>)` WITHOUT a
    dtype and then filled element-wise: the buffer has the caller's dtype (int64 for whole numbers, float32 ...)."""
    from rsa.inplace import aliases_of, view_root

    al = aliases_of(fn_node, params)
    out, ok = [], []
    for n in walk_no_nested(fn_node):
        if not (isinstance(n, (ast.Assign, ast.AnnAssign)) and n.value is not None and isinstance(n.value, ast.Call)):
            continue
        c = n.value
        if call_name(c) not in ("empty_like", "zeros_like", "ones_like", "full_like") or not c.args:
            continue
        tg = n.targets[0] if isinstance(n, ast.Assign) else n.target
        if not isinstance(tg, ast.Name):
            continue
        root = view_root(c.args[0])
        if root is None or al.get(root) not in params:
            continue
        dtype = next((k.value for k in c.keywords if k.arg == "dtype"), None)
        if dtype is None and len(c.args) >= 2 and call_name(c) != "full_like":
            dtype = c.args[1]
        stores = [
            m
            for m in walk_no_nested(fn_node)
            if isinstance(m, (ast.Assign, ast.AugAssign))
            for x in (m.targets if isinstance(m, ast.Assign) else [m.target])
            if isinstance(x, ast.Subscript) and view_root(x) == tg.id
        ]
        if not stores:
            continue
        if dtype is not None and unparse(dtype) in ("float", "float64", "np.float64", "numpy.float64", "double", "'float64'", "'float'"):
            ok.append((tg.id, c))
        elif dtype is None:
            out.append((tg.id, c, stores[0]))
    return out, ok


def rule_r15(chk, p, t, rid="C04.R15"):
    r = chk.rule(
        rid,
        "converted states are computed in floating point whatever dtype the caller's array has",
        2,
        "a frame conversion is a real-valued map: handed whole numbers (an integer-dtype array: a unit impulse, a "
        "whole-kilometre offset, a state read from JSON) it must give the same result as for the equal floats.  numpy's "
        "`empty_like / zeros_like / ones_like / full_like(x)` inherit the dtype of x, and an element-wise store into an "
        "integer buffer truncates silently - so in physics/ and dynamics/ a buffer created `*_like` a (view of a) "
        "PARAMETER and then filled element-wise carries an explicit float dtype (the two derivative buffers do: "
        "`empty_like(state, dtype=float)`).  A `*_like` value that is only ever re-bound whole is a placeholder and exempt",
        "the values stored",
    )
    # the rule's own positive / negative examples (its expected count on the tree is zero violations)
    st = ast.parse(_LIKE_SELFTEST)
    got = {f.name: _inherited_dtype_buffers(f, [a.arg for a in f.args.args]) for f in st.body if isinstance(f, ast.FunctionDef)}
    if not (len(got["bad"][0]) == 1 and not got["good"][0] and len(got["good"][1]) == 1 and not got["placeholder"][0] and not got["placeholder"][1]):
        r.error("selftest", f"the embedded examples are not classified as expected: {got}")
    n = 0
    for fi in sorted(p.all_functions(include_nested=True), key=lambda f: f.qualname):
        if not fi.module.name.startswith(("resonaate.physics", "resonaate.dynamics")):
            continue
        if True:
            bad, ok = _inherited_dtype_buffers(fi.node, [x for x in fi.params if x not in ("self", "cls")])
            for name, c in ok:
                n += 1
                r.ok(f"{fi.qualname}:{name}", f"`{unparse(c)}`", fi.loc(c))
            for name, c, store in bad:
                n += 1
                r.violation(f"{fi.qualname}:{name}", f"inherited-dtype:{fi.name}:{name}", f"`{name} = {unparse(c)}` takes the dtype of the caller's array and `{unparse(store)[:60]}` stores computed values into it: for an integer-dtype input (whole numbers are legal coordinates) every component is truncated toward zero, for float32 rounded - the conversion is no longer the same map as for the equal float64 input", fi.loc(c))
    if n < 2:
        r.error("buffers", f"{n} `*_like(parameter)` buffers found in physics/ and dynamics/ (2 confirmed by hand: the derivative buffers)")


_PURITY_SELFTEST = """
def flips(x):
    y = asarray(x, dtype=float)
    y *= 2.0
    return y

def copies(x):
    y = array(x, dtype=float)
    y *= 2.0
    return y

def scalar(angle: float):
    angle %= 6.28
    return angle
"""


def rule_r16(chk, p, t, rid="C04.R16"):
    from rsa.inplace import InPlace

    r = chk.rule(
        rid,
        "a conversion never writes into the array it is given",
        40,
        "a frame / coordinate conversion is a function of its argument: converting the same vector twice gives the same "
        "result, and the caller's vector is unchanged afterwards (round trips and composites reuse their inputs).  No "
        "function of physics.transforms, physics.maths, physics.measurements or physics.orbits modifies a parameter in "
        "place - `x *= m`, `x[i] = v`, a mutating method, `out=x` - directly, through an alias or a view (`asarray(x)` of "
        "an ndarray IS x; slices, `.T`, `reshape` are views), or through a resolved callee (parameter-mutation summaries "
        "of rsa/inplace.py).  `array(x)` / `x.copy()` / any arithmetic makes an own object.  Parameters annotated with a "
        "scalar type are exempt from the augmented-assignment clause (re-binding)",
        "the values computed",
    )
    import types

    st = ast.parse(_PURITY_SELFTEST)

    class _Fake:
        def __init__(self, node):
            self.node, self.name, self.qualname, self.cls = node, node.name, "selftest." + node.name, None
            self.params = [a.arg for a in node.args.args]

    class _NoT:
        def callees(self, *a, **k):
            return []

    ip0 = InPlace(p, _NoT())
    got = {f.name: sorted(ip0.mutated_params(_Fake(f))) for f in st.body if isinstance(f, ast.FunctionDef)}
    if got != {"flips": ["x"], "copies": [], "scalar": []}:
        r.error("selftest", f"the embedded examples are not classified as expected: {got}")
    ip = InPlace(p, t)
    n = 0
    for fi in sorted(p.all_functions(include_nested=False), key=lambda f: f.qualname):
        if not fi.module.name.startswith(("resonaate.physics.transforms", "resonaate.physics.maths", "resonaate.physics.measurements", "resonaate.physics.orbits")):
            continue
        pars = [x for x in fi.params if x not in ("self", "cls")]
        if not pars:
            continue
        n += 1
        mp = {k: v for k, v in ip.mutated_params(fi).items() if k in pars}
        if mp:
            par, (what, node) = sorted(mp.items())[0]
            r.violation(fi.qualname, f"argument-modified:{fi.name}:{par}", f"{fi.name} modifies its parameter `{par}` in place: {what}.  The caller's array is changed by the call - a second conversion of the same vector gives another result, and whatever the caller computes from the vector afterwards (the inverse conversion, another frame) starts from the modified values", fi.loc(node))
        else:
            r.ok(fi.qualname, f"no in-place operation on {pars}", fi.loc())
    if n < 40:
        r.error("functions", f"only {n} functions examined")


def run(chk, p, t):
    chk.explanation = (
        "Static decision of structural necessary conditions of C04 by normal forms of rotation chains and matrix "
        "literals: (R1) each primitive conversion pair is the reversed chain of inverse factors with opposite transport "
        "terms; (R2) composites are reversed compositions of inverse primitives with identical slots; (R3) rot1-3, "
        "skewSymmetric and dotRot literals satisfy their algebraic shape; (R4) reduction parameters are transposes of "
        "each other in both builders; (R5) the two sidereal-rotation siblings agree; (R6) calendar tables. NOT decided: "
        "numerical inverse accuracy, length preservation as numbers, continuity across calendar boundaries, the "
        "geodetic closed form."
    )
    chk.assumptions += ["numpy matmul / dot / multi_dot are matrix products; .T is the transpose", "passive rotation convention of Vallado eq. 3-15 (cited by the module)"]
    for fn in (rule_r1, rule_r2, rule_r3, rule_r4, rule_r5, rule_r6, rule_r7, rule_r8, rule_r9, rule_r10, rule_r11, rule_r12, rule_r13, rule_r14, rule_r15, rule_r16):
        rid = "C04.R" + fn.__name__.split("_r")[-1]
        if not chk.wants(rid):
            continue
        try:
            fn(chk, p, t)
        except (Undecided, AnchorError) as e:
            rr = chk.rule(rid + ".x", fn.__name__, 0, "-")
            (rr.undecided if isinstance(e, Undecided) else rr.error)(fn.__name__, str(e))


_ = dotted_name
