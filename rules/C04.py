"""C04 - reference-frame conversions are exact inverses, rigid, continuous.

Decides: inverse-pair duality of rotation chains (R1), composite reversal (R2), matrix-literal
algebra of rot1-3 / skewSymmetric / dotRot (R3), reduction-parameter transposes in both builders
(R4), agreement of the two sidereal-rotation siblings (R5), calendar tables (R6).  Does NOT decide
numerical inverse accuracy, continuity in time, or the geodetic closed form.
"""

from __future__ import annotations

import ast
import copy

from rsa.model import AnchorError, Undecided, call_name, dotted_name, unparse, walk_no_nested
from rsa.terms import canon, inline_locals, negated, single_defs
from rsa.util import find_calls, require

METHODS = "resonaate.physics.transforms.methods"
MATHS = "resonaate.physics.maths"


# ------------------------------------------------------------------ linear-map chains
def alpha(fn, expr):
    """Inline single-definition locals and rename parameters to positional placeholders."""
    e = inline_locals(fn, expr)
    names = {prm: f"P{i}" for i, prm in enumerate(fn.params)}

    class R(ast.NodeTransformer):
        def visit_Name(self, node):
            if node.id in names:
                return ast.copy_location(ast.Name(names[node.id], node.ctx), node)
            return node

    return R().visit(copy.deepcopy(e))


def is_matmul(e):
    if isinstance(e, ast.BinOp) and isinstance(e.op, ast.MatMult):
        return e.left, e.right
    if isinstance(e, ast.Call):
        nm = call_name(e)
        if nm in ("matmul",) and len(e.args) == 2:
            return e.args[0], e.args[1]
        if nm == "dot" and isinstance(e.func, ast.Attribute) and len(e.args) == 1 and not (isinstance(e.func.value, ast.Name) and e.func.value.id in ("np", "numpy")):
            return e.func.value, e.args[0]
        if nm == "dot" and isinstance(e.func, ast.Name) and len(e.args) == 2:
            return e.args[0], e.args[1]
        if nm == "multi_dot" and len(e.args) == 1 and isinstance(e.args[0], (ast.List, ast.Tuple)) and len(e.args[0].elts) >= 2:
            elts = e.args[0].elts
            cur = elts[-1]
            for x in reversed(elts[1:-1]):
                cur = ast.BinOp(x, ast.MatMult(), cur)
            return elts[0], cur
    return None


def chain(e):
    """Flatten nested products into a list of factor ASTs (the last one is the operand)."""
    mm = is_matmul(e)
    if mm is None:
        return [e]
    return chain(mm[0]) + chain(mm[1])


def transpose_nf(nf):
    if nf[0] == "rot":
        return ("rot", nf[1], nf[2], -nf[3])
    if nf[0] == "named":
        if nf[1] in TRANSPOSE_FACTS:
            return ("named", TRANSPOSE_FACTS[nf[1]])
        return ("T", nf)
    if nf[0] == "T":
        return nf[1]
    return ("T", nf)


def factor_nfs(f):
    """Normal forms of a matrix-valued factor; a transposed product expands to the reversed
    product of transposes, so one factor AST may yield several normal-form factors."""
    if (isinstance(f, ast.Attribute) and f.attr == "T") or (isinstance(f, ast.Call) and call_name(f) == "transpose" and f.args):
        inner = f.value if isinstance(f, ast.Attribute) else f.args[0]
        parts = []
        for x in chain(inner):
            parts.extend(factor_nfs(x))
        return [transpose_nf(x) for x in reversed(parts)]
    if is_matmul(f) is not None:
        out = []
        for x in chain(f):
            out.extend(factor_nfs(x))
        return out
    if isinstance(f, ast.Call) and call_name(f) in ("rot1", "rot2", "rot3") and len(f.args) == 1:
        return [("rot", int(call_name(f)[-1]), f.args[0], 1)]
    if isinstance(f, ast.Attribute):
        return [("named", f.attr)]
    if isinstance(f, ast.Call) and call_name(f) == "array" and f.args and isinstance(f.args[0], (ast.List, ast.Tuple)):
        return [("rows", canon(f.args[0]))]
    return [("expr", canon(f))]


def factor_nf(f):
    nfs = factor_nfs(f)
    return nfs[0] if len(nfs) == 1 else ("prod", tuple(map(repr, nfs)))


def nfs_of(factors):
    out = []
    for f in factors:
        out.extend(factor_nfs(f))
    return out


TRANSPOSE_FACTS = {"rot_wt": "rot_w", "rot_w": "rot_wt", "rot_rnp": "rot_pnr", "rot_pnr": "rot_rnp"}


def inverse_nf(nf):
    return transpose_nf(nf)  # all factors are rotations: inverse == transpose


def nf_equal(a, b):
    if a[0] == "rot" and b[0] == "rot":
        if a[1] != b[1]:
            return False
        if a[3] == b[3]:
            return canon(a[2]) == canon(b[2])
        return negated(a[2], b[2])
    return a == b


def show_nf(nf):
    if nf[0] == "rot":
        return f"rot{nf[1]}({'-' if nf[3] < 0 else ''}({unparse(nf[2])}))"
    if nf[0] == "T":
        return show_nf(nf[1]) + ".T"
    if nf[0] == "named":
        return nf[1]
    return nf[0]


def dual_chains(cf, cg):
    """cg == reverse(inverse(cf)) factor by factor?  Returns list of mismatches."""
    if len(cf) != len(cg):
        return [f"chain lengths differ: {len(cf)} vs {len(cg)}"]
    out = []
    exp = [inverse_nf(x) for x in reversed(cf)]
    for i, (g, e) in enumerate(zip(cg, exp)):
        if not nf_equal(g, e):
            out.append(f"factor {i + 1}: found {show_nf(g)}, the inverse needs {show_nf(e)}")
    return out


def position_velocity_terms(fn):
    """Return the (position expr, velocity expr) concatenated by the function's return."""
    rets = [n for n in walk_no_nested(fn.node) if isinstance(n, ast.Return) and n.value is not None]
    require(len(rets) == 1, f"{fn.name}: expected a single return", fn.node)
    e = alpha(fn, rets[0].value)
    require(isinstance(e, ast.Call) and call_name(e) in ("concatenate", "hstack") and e.args and isinstance(e.args[0], (ast.Tuple, ast.List)) and len(e.args[0].elts) == 2, f"{fn.name}: return is not concatenate((position, velocity))", rets[0])
    return e.args[0].elts[0], e.args[0].elts[1]


def slice_kind(e):
    """'pos' for x[:3] / x[0:3], 'vel' for x[3:] / x[3:6]; returns (kind, base text)."""
    if isinstance(e, ast.Subscript) and isinstance(e.slice, ast.Slice):
        lo = e.slice.lower.value if isinstance(e.slice.lower, ast.Constant) else None
        hi = e.slice.upper.value if isinstance(e.slice.upper, ast.Constant) else None
        if lo in (None, 0) and hi == 3:
            return "pos", unparse(e.value)
        if lo == 3 and hi in (None, 6):
            return "vel", unparse(e.value)
    return None, None


# ====================================================================== R1
def rule_r1(chk, p, t):
    r = chk.rule(
        "C04.R1",
        "rotation-chain duality of inverse pairs",
        8,
        "for every primitive conversion pair the rotation chain of one direction is the reversed chain of inverse "
        "factors of the other (rot_i(a)^-1 = rot_i(-a), transposed pairs per R4); transport terms carry opposite signs "
        "and the same operand; axis-flip literals are the same involutive diagonal",
        "inverse accuracy to rounding",
    )

    # ---- eci2ecef / ecef2eci
    f, g = p.func(f"{METHODS}.eci2ecef"), p.func(f"{METHODS}.ecef2eci")

    def fk5():
        pf, vf = position_velocity_terms(f)
        pg, vg = position_velocity_terms(g)
        cf, cg = chain(pf), chain(pg)
        kf, _ = slice_kind(cf[-1])
        kg, _ = slice_kind(cg[-1])
        require(kf == "pos" and kg == "pos", "position transform does not act on x[:3]", f.node)
        nf_f = nfs_of(cf[:-1])
        nf_g = nfs_of(cg[:-1])
        mism = dual_chains(nf_f, nf_g)
        cons = "eci2ecef<->ecef2eci"
        if mism:
            r.violation(cons, "position-chain:" + ";".join(mism), f"position chains are not mutually inverse: eci2ecef = {[show_nf(x) for x in nf_f]}, ecef2eci = {[show_nf(x) for x in nf_g]}: " + "; ".join(mism), g.loc())
        else:
            r.ok(cons + ":position", f"{[show_nf(x) for x in nf_f]} <-> {[show_nf(x) for x in nf_g]}", f.loc())

        def split_vel(v, fn):
            c = chain(v)
            require(len(c) == 2, f"{fn.name}: velocity is not M (...)", fn.node)
            outer = factor_nf(c[0])
            inner = c[1]
            require(isinstance(inner, ast.BinOp) and isinstance(inner.op, (ast.Add, ast.Sub)), f"{fn.name}: velocity has no transport term", fn.node)
            rot_part, corr = inner.left, inner.right
            sign = 1 if isinstance(inner.op, ast.Add) else -1
            ci = chain(rot_part)
            require(len(ci) == 2, f"{fn.name}: rotated velocity is not M v", fn.node)
            k, _ = slice_kind(ci[1])
            return outer, factor_nf(ci[0]), k, sign, corr

        of, inf_, kf2, sf, corr_f = split_vel(vf, f)
        og, ing, kg2, sg, corr_g = split_vel(vg, g)
        bad = []
        if [of, inf_] != nf_f:
            bad.append(f"eci2ecef rotates velocity with {[show_nf(of), show_nf(inf_)]} but position with {[show_nf(x) for x in nf_f]}")
        if [og, ing] != nf_g:
            bad.append(f"ecef2eci rotates velocity with {[show_nf(og), show_nf(ing)]} but position with {[show_nf(x) for x in nf_g]}")
        if kf2 != "vel" or kg2 != "vel":
            bad.append("velocity transform does not act on x[3:]")
        if sf != -1 or sg != 1:
            bad.append(f"transport term signs are ({'+' if sf > 0 else '-'}, {'+' if sg > 0 else '-'}) for (eci2ecef, ecef2eci), expected (-, +)")
        # correction = cross(omega, rot_w r_ecef)
        def corr_parts(c, fn, pos_term):
            require(isinstance(c, ast.Call) and call_name(c) == "cross" and len(c.args) == 2, f"{fn.name}: transport term is not cross(omega, r_pef)", fn.node)
            om, rp = c.args
            cc = chain(rp)
            return canon(om), nfs_of(cc[:-1]), cc[-1]

        om_f, mf, opf = corr_parts(corr_f, f, pf)
        om_g, mg, opg = corr_parts(corr_g, g, pg)
        if om_f != om_g:
            bad.append("the Earth-rotation vector differs between the two directions")
        # PEF position: rot_w applied to the ECEF position
        # forward: operand is the ECEF position just computed (== pf); inverse: operand is x_ecef[:3]
        f_ok = mf == [("named", "rot_w")] + nf_f and slice_kind(opf)[0] == "pos"
        g_ok = mg == [("named", "rot_w")] and slice_kind(opg)[0] == "pos"
        if not f_ok:
            bad.append("eci2ecef: transport operand is not rot_w applied to the Earth-fixed position")
        if not g_ok:
            bad.append("ecef2eci: transport operand is not rot_w applied to the Earth-fixed position")
        if bad:
            r.violation(cons, "velocity:" + ";".join(bad), "velocity transforms are not mutually inverse: " + "; ".join(bad), g.loc())
        else:
            r.ok(cons + ":velocity", "same chains, transport term -/+ cross(omega, rot_w r_ecef)", f.loc())

    r.guard("eci2ecef<->ecef2eci", fk5)

    # ---- ecef2sez / sez2ecef ; eci2rsw / rsw2eci
    def simple_pair(fname, gname, offset_g=0, offset_f=0):
        f, g = p.func(f"{METHODS}.{fname}"), p.func(f"{METHODS}.{gname}")

        def one():
            pf, vf = position_velocity_terms(f)
            pg, vg = position_velocity_terms(g)
            cons = f"{fname}<->{gname}"
            res = {}
            for nm, (pp, vv), fn in ((fname, (pf, vf), f), (gname, (pg, vg), g)):
                cp, cv = chain(pp), chain(vv)
                kp, bp = slice_kind(cp[-1])
                kv, bv = slice_kind(cv[-1])
                require(kp == "pos" and kv == "vel" and bp == bv, f"{nm}: does not rotate x[:3] and x[3:] of one vector", fn.node)
                np_, nv = nfs_of(cp[:-1]), nfs_of(cv[:-1])
                if len(np_) != len(nv) or not all(nf_equal(a, b) for a, b in zip(np_, nv)):
                    r.violation(cons, f"pos-vel-differ:{nm}", f"{nm} rotates position and velocity with different matrices", fn.loc())
                    return
                res[nm] = np_
            mism = dual_chains(res[fname], res[gname])
            if mism:
                r.violation(cons, "chain:" + ";".join(mism), f"{fname} = {[show_nf(x) for x in res[fname]]} and {gname} = {[show_nf(x) for x in res[gname]]} are not mutually inverse: " + "; ".join(mism), g.loc())
            else:
                r.ok(cons, f"{[show_nf(x) for x in res[fname]]} <-> {[show_nf(x) for x in res[gname]]}", f.loc())

        r.guard(f"{fname}<->{gname}", one)

    simple_pair("ecef2sez", "sez2ecef")

    def rsw():
        f, g = p.func(f"{METHODS}.eci2rsw"), p.func(f"{METHODS}.rsw2eci")
        pf, vf = position_velocity_terms(f)
        pg, vg = position_velocity_terms(g)
        cons = "eci2rsw<->rsw2eci"
        mf = nfs_of(chain(pf)[:-1])
        mg = nfs_of(chain(pg)[:-1])
        mfv = nfs_of(chain(vf)[:-1])
        mgv = nfs_of(chain(vg)[:-1])
        bad = []
        if mf != mfv or mg != mgv:
            bad.append("position and velocity use different matrices")
        if dual_chains(mf, mg):
            bad.append("; ".join(dual_chains(mf, mg)))
        # basis rows: r = pos/|pos|, w = (pos x vel)/|pos x vel|, s = w x r, order [r, s, w]
        rows = None
        for x in mf:
            if x[0] == "rows":
                rows = x
        require(rows is not None, "eci2rsw matrix is not array([r_hat, s_hat, w_hat])", f.node)
        if bad:
            r.violation(cons, "chain:" + ";".join(bad), "RSW conversions are not mutually inverse: " + "; ".join(bad), g.loc())
        else:
            r.ok(cons, "basis rows vs transposed basis rows over the same reference state", f.loc())
        # basis definition
        defs = {}
        for n in walk_no_nested(f.node):
            if isinstance(n, (ast.Assign, ast.AnnAssign)):
                tg = n.targets[0] if isinstance(n, ast.Assign) else n.target
                if isinstance(tg, ast.Name) and n.value is not None:
                    defs[tg.id] = n.value
        s = defs.get("s_hat")
        if s is not None and isinstance(s, ast.Call) and call_name(s) == "cross" and [unparse(a) for a in s.args] == ["w_hat", "r_hat"]:
            r.ok(cons + ":right-handed", "s_hat = cross(w_hat, r_hat)", f.loc())
        elif s is not None:
            r.violation(cons, f"basis-handedness:{unparse(s)}", f"s_hat is `{unparse(s)}`: the RSW triad must be right-handed (s = w x r)", f.loc())

    r.guard("eci2rsw<->rsw2eci", rsw)

    # ---- razel2sez / sez2razel
    def razel():
        f, g = p.func(f"{METHODS}.razel2sez"), p.func(f"{METHODS}.sez2razel")
        cons = "razel2sez<->sez2razel"
        rf = [n for n in walk_no_nested(f.node) if isinstance(n, ast.Return)][0].value
        rg = [n for n in walk_no_nested(g.node) if isinstance(n, ast.Return)][0].value
        mmf = is_matmul(rf)
        require(mmf is not None, "razel2sez is not spherical2cartesian(...).dot(D)", f.node)
        sph, Df = mmf
        require(isinstance(rg, ast.Call) and call_name(rg) == "cartesian2spherical" and len(rg.args) == 1, "sez2razel is not cartesian2spherical(x.dot(D))", g.node)
        mmg = is_matmul(rg.args[0])
        require(mmg is not None, "sez2razel is not cartesian2spherical(x.dot(D))", g.node)
        _x, Dg = mmg

        def diag(d):
            require(isinstance(d, ast.Call) and call_name(d) in ("diagflat", "diag") and d.args and isinstance(d.args[0], (ast.List, ast.Tuple)), "axis flip is not a diagflat literal", d)
            vals = []
            for e in d.args[0].elts:
                v = e.operand.value * -1 if isinstance(e, ast.UnaryOp) and isinstance(e.op, ast.USub) else getattr(e, "value", None)
                vals.append(v)
            return vals

        df, dg = diag(Df), diag(Dg)
        if df != dg or any(v not in (1, -1) for v in df) or len(df) != 6 or df[:3] != df[3:]:
            r.violation(cons, f"axis-flip:{df}:{dg}", f"axis-flip diagonals {df} / {dg} must be the same involutive +-1 diagonal, identical for position and velocity", f.loc())
        else:
            r.ok(cons + ":flip", f"diag{df} on both sides", f.loc())
        require(isinstance(sph, ast.Call) and call_name(sph) == "spherical2cartesian", "razel2sez does not call spherical2cartesian", f.node)
        args = [unparse(a) for a in sph.args]
        exp = [f.params[0], f.params[1], f.params[2], f.params[3], f.params[4], f.params[5]]
        if args == exp and f.params[:3] == ["rng", "el", "az"]:
            r.ok(cons + ":slots", f"spherical2cartesian({', '.join(args)}) = (rho, theta=el, phi=az)", f.loc())
        else:
            r.violation(cons, f"slots:{args}", f"spherical2cartesian receives {args} from parameters {f.params}: expected (range, elevation, azimuth, rates in the same order)", f.loc())

    r.guard("razel2sez<->sez2razel", razel)

    # ---- spherical2cartesian / cartesian2spherical position slots
    def sph():
        f = p.func(f"{METHODS}.spherical2cartesian")
        g = p.func(f"{METHODS}.cartesian2spherical")
        cons = "spherical2cartesian<->cartesian2spherical"
        rf = [n for n in walk_no_nested(f.node) if isinstance(n, ast.Return)][0].value
        e = inline_locals(f, rf)
        require(isinstance(e, ast.Call) and e.args and isinstance(e.args[0], (ast.List, ast.Tuple)) and len(e.args[0].elts) == 6, "spherical2cartesian does not return a 6-vector literal", f.node)
        rho, th, ph = f.params[0], f.params[1], f.params[2]
        x, y, z = e.args[0].elts[:3]

        def prod(*fs):
            return canon(ast.parse("*".join(fs), mode="eval").body)

        ok = canon(x) == prod(rho, f"cos({th})", f"cos({ph})") and canon(y) == prod(rho, f"cos({th})", f"sin({ph})") and canon(z) == prod(rho, f"sin({th})")
        if ok:
            r.ok(cons + ":forward", "x = rho cos(th) cos(ph), y = rho cos(th) sin(ph), z = rho sin(th)", f.loc())
        else:
            r.violation(cons, f"forward:{unparse(x)}|{unparse(y)}|{unparse(z)}", f"spherical2cartesian position is [{unparse(x)}, {unparse(y)}, {unparse(z)}]", f.loc())
        # inverse: theta = arcsin(z/r), phi = arctan2(y, x) (scaled), returned wrapped
        rets = [n for n in walk_no_nested(g.node) if isinstance(n, ast.Return)]
        require(len(rets) == 1 and isinstance(rets[0].value, ast.Tuple) and len(rets[0].value.elts) == 6, "cartesian2spherical does not return a 6-tuple", g.node)
        names = [unparse(x) for x in rets[0].value.elts]
        defs = {}
        for n in walk_no_nested(g.node):
            if isinstance(n, ast.Assign) and isinstance(n.targets[0], ast.Name):
                defs.setdefault(n.targets[0].id, []).append(n.value)
        th_e = inline_locals(g, rets[0].value.elts[1])
        st = g.params[0]
        want_th = canon(ast.parse(f"arcsin({st}[2] / norm({st}[:3]))", mode="eval").body)
        ok_th = canon(th_e) == want_th
        phis = defs.get("phi", [])
        ok_ph = False
        for ph_def in phis:
            if not (isinstance(ph_def, ast.Call) and call_name(ph_def) == "arctan2" and len(ph_def.args) == 2):
                continue
            a0, a1 = (inline_locals(g, x) for x in ph_def.args)

            def num_den(e):
                if isinstance(e, ast.BinOp) and isinstance(e.op, ast.Div):
                    return canon(e.left), canon(e.right)
                return canon(e), None

            n0, d0 = num_den(a0)
            n1, d1 = num_den(a1)
            ok_ph = ok_ph or (n0 == canon(ast.parse(f"{st}[1]", mode="eval").body) and n1 == canon(ast.parse(f"{st}[0]", mode="eval").body) and d0 == d1)
        ok_wrap = isinstance(rets[0].value.elts[2], ast.Call) and call_name(rets[0].value.elts[2]) == "wrapAngle2Pi"
        ok_rng = canon(inline_locals(g, rets[0].value.elts[0])) == canon(ast.parse(f"norm({st}[:3])", mode="eval").body)
        if ok_th and ok_ph and ok_wrap and ok_rng:
            r.ok(cons + ":inverse", "rho = |r|, theta = arcsin(z/|r|), phi = wrap(arctan2(y, x))", g.loc())
        else:
            r.violation(cons, f"inverse:rng={ok_rng}:theta={ok_th}:phi={ok_ph}:wrap={ok_wrap}", f"cartesian2spherical does not invert spherical2cartesian's position slots (rho = |r| {ok_rng}, theta = arcsin(z/|r|) {ok_th}, phi = arctan2(y, x) {ok_ph}, wrapped to [0, 2pi) {ok_wrap})", g.loc())

    r.guard("spherical<->cartesian", sph)


# ====================================================================== R2
INVERSE_PRIM = {
    "eci2ecef": "ecef2eci", "ecef2eci": "eci2ecef",
    "ecef2sez": "sez2ecef", "sez2ecef": "ecef2sez",
    "ecef2lla": "lla2ecef", "lla2ecef": "ecef2lla",
    "razel2sez": "sez2razel", "sez2razel": "razel2sez",
}


def call_tree(e):
    """Nested primitive-call tree: (name, main-arg tree, tuple of extra args as text)."""
    if isinstance(e, ast.Call) and call_name(e) in INVERSE_PRIM:
        args = list(e.args)
        kws = {k.arg: k.value for k in e.keywords}
        return (call_name(e), call_tree(args[0]) if args else None, tuple(unparse(a) for a in args[1:]) + tuple(f"{k}={unparse(v)}" for k, v in sorted(kws.items())))
    return ("leaf", unparse(e), ())


def invert_tree(tree, leaf):
    """Inverse composition: reverse order, inverse primitives, same extra args."""
    layers = []
    cur = tree
    while cur[0] != "leaf":
        layers.append((cur[0], cur[2]))
        cur = cur[1]
    out = ("leaf", leaf, ())
    for name, extra in layers:  # outermost of f becomes innermost of g
        out = (INVERSE_PRIM[name], out, extra)
    return out


def rule_r2(chk, p, t):
    r = chk.rule(
        "C04.R2",
        "composite reversal",
        6,
        "every composite conversion is the composition of table primitives and its paired composite is the reversed "
        "composition of the inverse primitives with identical parameter slots",
    )
    pairs = [("eci2sez", "sez2eci"), ("eci2lla", "lla2eci")]
    for fname, gname in pairs:
        f, g = p.func(f"{METHODS}.{fname}"), p.func(f"{METHODS}.{gname}")

        def one(f=f, g=g, fname=fname, gname=gname):
            rf = [n for n in walk_no_nested(f.node) if isinstance(n, ast.Return)]
            rg = [n for n in walk_no_nested(g.node) if isinstance(n, ast.Return)]
            require(len(rf) == 1 and len(rg) == 1, "single return expected", f.node)
            tf = call_tree(alpha(f, rf[0].value))
            tg = call_tree(alpha(g, rg[0].value))
            require(tf[0] != "leaf" and tg[0] != "leaf", "composite is not a composition of table primitives", f.node)
            # the side parameters (lat, lon, utc_date) have the same names in both signatures
            side_f = {prm: f"P{i}" for i, prm in enumerate(f.params)}
            side_g = {prm: f"P{i}" for i, prm in enumerate(g.params)}
            if f.params[1:] != g.params[1:]:
                r.violation(f"{fname}<->{gname}", f"signature:{f.params}:{g.params}", f"paired composites take their side parameters in different orders: {f.params} vs {g.params}", g.loc())
                return
            exp = invert_tree(tf, "P0")
            _ = (side_f, side_g)
            if exp == tg:
                r.ok(f"{fname}<->{gname}", f"{fname} = {tf}; {gname} is its reversed inverse", f.loc())
            else:
                r.violation(f"{fname}<->{gname}", f"not-reversed:{tg}", f"{gname} is {tg}, but the inverse of {fname} = {tf} is {exp}", g.loc())

        r.guard(f"{fname}<->{gname}", one)

    # getSlantRangeVector
    gs = p.func(f"{METHODS}.getSlantRangeVector")

    def slant():
        ret = [n for n in walk_no_nested(gs.node) if isinstance(n, ast.Return)][0].value
        e = alpha(gs, ret)
        cons = gs.qualname
        require(isinstance(e, ast.Call) and call_name(e) == "ecef2sez" and len(e.args) == 3, "getSlantRangeVector is not ecef2sez(diff, lat, lon)", gs.node)
        diff, lat, lon = e.args
        require(isinstance(diff, ast.BinOp) and isinstance(diff.op, ast.Sub), "slant range is not a difference", gs.node)
        want_t = "eci2ecef(P1, P2)"
        want_s = "eci2ecef(P0, P2)"
        if unparse(diff.left) == want_t and unparse(diff.right) == want_s:
            r.ok(cons + ":difference", "target_ecef - sensor_ecef at the same instant", gs.loc())
        else:
            r.violation(cons, f"difference:{unparse(diff)}", f"slant range is `{unparse(diff)}` (P0=sensor, P1=target, P2=utc): expected eci2ecef(target) - eci2ecef(sensor) at utc_date", gs.loc())
        lla = f"ecef2lla({want_s})"
        if unparse(lat) == f"{lla}[0]" and unparse(lon) == f"{lla}[1]":
            r.ok(cons + ":site", "lat/lon = ecef2lla(sensor_ecef)[0/1]", gs.loc())
        else:
            r.violation(cons, f"site:{unparse(lat)}|{unparse(lon)}", f"site angles are `{unparse(lat)}`, `{unparse(lon)}`: expected the sensor's geodetic latitude [0] and longitude [1]", gs.loc())

    r.guard(gs.qualname, slant)

    # eci2razel
    er = p.func(f"{METHODS}.eci2razel")

    def razel():
        ret = [n for n in walk_no_nested(er.node) if isinstance(n, ast.Return)][0].value
        e = alpha(er, ret)
        ok = unparse(e) == "sez2razel(getSlantRangeVector(P1, P0, P2))"
        if ok:
            r.ok(er.qualname, "sez2razel(getSlantRangeVector(observer, target, utc))", er.loc())
        else:
            r.violation(er.qualname, f"shape:{unparse(e)}", f"eci2razel is `{unparse(e)}` (P0=target, P1=observer): expected sez2razel(getSlantRangeVector(observer, target, utc))", er.loc())

    r.guard(er.qualname, razel)

    # razel2radec / radec2razel
    rr = p.func(f"{METHODS}.razel2radec")

    def radec():
        ret = [n for n in walk_no_nested(rr.node) if isinstance(n, ast.Return)][0].value
        e = alpha(rr, ret)
        txt = unparse(e)
        obs_ecef = "eci2ecef(P6, P7)"
        want = f"cartesian2spherical(ecef2eci({obs_ecef} + sez2ecef(razel2sez(P0, P1, P2, P3, P4, P5), ecef2lla({obs_ecef})[0], ecef2lla({obs_ecef})[1]), P7) - P6)"
        if txt == want:
            r.ok(rr.qualname, "observer + sez2ecef(razel2sez(...)) -> ecef2eci -> minus observer -> spherical", rr.loc())
        else:
            r.violation(rr.qualname, f"shape:{txt}", f"razel2radec is `{txt}`, expected `{want}`", rr.loc())
        rz = p.func(f"{METHODS}.radec2razel")
        ret2 = [n for n in walk_no_nested(rz.node) if isinstance(n, ast.Return)][0].value
        e2 = unparse(alpha(rz, ret2))
        want2 = "eci2razel(spherical2cartesian(P0, P1, P2, P3, P4, P5) + P6, P6, P7)"
        if e2 == want2:
            r.ok(rz.qualname, want2, rz.loc())
        else:
            r.violation(rz.qualname, f"shape:{e2}", f"radec2razel is `{e2}`, expected `{want2}`", rz.loc())

    r.guard(rr.qualname, radec)


# ====================================================================== R3
ROT_CONVENTION = {
    # axis -> (row, col) of the +sin entry (Vallado 3-15: passive rotations)
    1: (1, 2),
    2: (2, 0),
    3: (0, 1),
}


def matrix_literal(fn):
    rets = [n for n in walk_no_nested(fn.node) if isinstance(n, ast.Return)]
    require(len(rets) == 1, "single return expected", fn.node)
    e = rets[0].value
    require(isinstance(e, ast.Call) and call_name(e) == "array" and e.args and isinstance(e.args[0], (ast.List, ast.Tuple)), "not an array literal", fn.node)
    rows = e.args[0].elts
    require(len(rows) == 3 and all(isinstance(x, (ast.List, ast.Tuple)) and len(x.elts) == 3 for x in rows), "not a 3x3 literal", fn.node)
    return [[c for c in row.elts] for row in rows]


def rule_r3(chk, p, t):
    r = chk.rule(
        "C04.R3",
        "matrix-literal algebra",
        7,
        "rot1/2/3 are 3x3 literals with the unit row/column on their axis and the [[cos, s], [-s, cos]] block of the "
        "passive convention over one argument; skewSymmetric has a zero diagonal and M[j][i] == -M[i][j] with the "
        "cross-product entries; dotRot_i = rot_i(angle).dot(skewSymmetric(omega))",
    )
    for axis in (1, 2, 3):
        fn = p.func(f"{MATHS}.rot{axis}")

        def one(fn=fn, axis=axis):
            M = matrix_literal(fn)
            a = fn.params[0]
            k = axis - 1
            bad = []
            for i in range(3):
                for j in range(3):
                    c = M[i][j]
                    txt = unparse(c)
                    if i == k or j == k:
                        exp = "1" if i == j else "0"
                        if txt not in (exp, exp + ".0"):
                            bad.append(f"[{i}][{j}]={txt} (expected {exp})")
            others = [i for i in range(3) if i != k]
            (pi_, pj) = ROT_CONVENTION[axis]
            for i in others:
                for j in others:
                    txt = unparse(M[i][j])
                    if i == j:
                        exp = f"cos({a})"
                    elif (i, j) == (pi_, pj):
                        exp = f"sin({a})"
                    else:
                        exp = f"-sin({a})"
                    if txt != exp:
                        bad.append(f"[{i}][{j}]={txt} (expected {exp})")
            if bad:
                r.violation(fn.qualname, "literal:" + ";".join(bad), f"rot{axis} is not the passive rotation about axis {axis}: " + "; ".join(bad), fn.loc())
            else:
                r.ok(fn.qualname, "unit axis, cos diagonal, +sin at " + str(ROT_CONVENTION[axis]), fn.loc())

        r.guard(fn.qualname, one)
    sk = p.func(f"{MATHS}.skewSymmetric")

    def skew():
        M = matrix_literal(sk)
        w = sk.params[0]
        exp = [["0", f"-{w}[2]", f"{w}[1]"], [f"{w}[2]", "0", f"-{w}[0]"], [f"-{w}[1]", f"{w}[0]", "0"]]
        bad = []
        for i in range(3):
            for j in range(3):
                if unparse(M[i][j]) != exp[i][j]:
                    bad.append(f"[{i}][{j}]={unparse(M[i][j])} (expected {exp[i][j]})")
        # antisymmetry, syntactically
        for i in range(3):
            for j in range(i + 1, 3):
                if not negated(M[i][j], M[j][i]):
                    bad.append(f"M[{j}][{i}] != -M[{i}][{j}]")
        if bad:
            r.violation(sk.qualname, "literal:" + ";".join(sorted(set(bad))), "skewSymmetric is not the cross-product matrix: " + "; ".join(sorted(set(bad))), sk.loc())
        else:
            r.ok(sk.qualname, "zero diagonal, antisymmetric, (-w2, w1, -w0) upper triangle", sk.loc())

    r.guard(sk.qualname, skew)
    for axis in (1, 2, 3):
        fn = p.func(f"{MATHS}.dotRot{axis}")

        def dr(fn=fn, axis=axis):
            ret = [n for n in walk_no_nested(fn.node) if isinstance(n, ast.Return)][0].value
            want = f"rot{axis}({fn.params[0]}).dot(skewSymmetric({fn.params[1]}))"
            alt = f"matmul(rot{axis}({fn.params[0]}), skewSymmetric({fn.params[1]}))"
            if unparse(ret) in (want, alt, f"rot{axis}({fn.params[0]}) @ skewSymmetric({fn.params[1]})"):
                r.ok(fn.qualname, want, fn.loc())
            else:
                r.violation(fn.qualname, f"shape:{unparse(ret)}", f"dotRot{axis} is `{unparse(ret)}`, expected `{want}`", fn.loc())

        r.guard(fn.qualname, dr)


# ====================================================================== R4
def rule_r4(chk, p, t):
    r = chk.rule(
        "C04.R4",
        "reduction parameters",
        2,
        "in both builders rot_rnp is the transpose of rot_pnr, rot_wt of rot_w, rot_pnr = rot_pn . rot_pef2tod, and "
        "rot_pef2tod = getRotR(utc_date, delta_ut1, eq_equinox) in that argument order",
    )
    base = p.cls("resonaate.physics.transforms.reductions.ReductionParams")
    getr = p.func("resonaate.physics.transforms.reductions.getRotR")
    for b in p.overriders(base, "build"):

        def one(b=b):
            ctor = [c for c in walk_no_nested(b.node) if isinstance(c, ast.Call) and isinstance(c.func, ast.Name) and c.func.id == b.params[0]]
            require(len(ctor) == 1, "build does not end in a single cls(...)", b.node)
            kws = {k.arg: inline_locals(b, k.value) for k in ctor[0].keywords}
            raw = {k.arg: k.value for k in ctor[0].keywords}
            bad = []

            def is_T_of(x, y):
                return isinstance(x, ast.Attribute) and x.attr == "T" and canon(x.value) == canon(y)

            if not is_T_of(kws.get("rot_rnp"), kws.get("rot_pnr")):
                bad.append(f"rot_rnp = {unparse(raw.get('rot_rnp'))} is not rot_pnr.T")
            if not is_T_of(kws.get("rot_wt"), kws.get("rot_w")):
                bad.append(f"rot_wt = {unparse(raw.get('rot_wt'))} is not rot_w.T")
            pnr = kws.get("rot_pnr")
            mm = is_matmul(pnr) if pnr is not None else None
            if mm is None or not (isinstance(mm[0], ast.Attribute) and mm[0].attr == "rot_pn") or not (isinstance(mm[1], ast.Call) and call_name(mm[1]) == "getRotR"):
                bad.append(f"rot_pnr = {unparse(pnr) if pnr is not None else None} is not rot_pn . getRotR(...)")
            else:
                a = mm[1].args
                ok = len(a) == 3 and unparse(a[0]) == b.params[1] and isinstance(a[1], ast.Attribute) and a[1].attr == "delta_ut1" and isinstance(a[2], ast.Attribute) and a[2].attr == "eq_equinox"
                if not ok or getr.params != ["utc_date", "delta_ut1", "eq_equinox"]:
                    bad.append(f"getRotR arguments are {[unparse(x) for x in a]} for parameters {getr.params}")
                if canon(kws.get("rot_pn")) != canon(mm[0]):
                    bad.append("rot_pn stored differs from the rot_pn used in rot_pnr")
            for fld, src in (("dut1", "delta_ut1"), ("lod", "length_of_day"), ("eq_equinox", "eq_equinox")):
                v = raw.get(fld)
                if not (isinstance(v, ast.Attribute) and v.attr == src):
                    bad.append(f"{fld} = {unparse(v) if v is not None else None} (expected .{src})")
            if bad:
                r.violation(b.qualname, "params:" + ";".join(bad), "reduction parameters are inconsistent: " + "; ".join(bad), b.loc(ctor[0]))
            else:
                r.ok(b.qualname, "rot_rnp = rot_pnr.T, rot_wt = rot_w.T, rot_pnr = rot_pn . getRotR(utc, dut1, eqe)", b.loc(ctor[0]))

        r.guard(b.qualname, one)


# ====================================================================== R5
def rule_r5(chk, p, t):
    r = chk.rule(
        "C04.R5",
        "sidereal-rotation siblings",
        2,
        "getRotR and special_perturbations._getRotationMatrix compute the sidereal rotation alike: "
        "dayOfYear(y, m, d, h, min, sec + dut1) - 1, greenwichApparentTime(year, elapsed_days, eq_equinox), rot3(-gast)",
    )
    sibs = [p.func("resonaate.physics.transforms.reductions.getRotR"), p.func("resonaate.dynamics.special_perturbations._getRotationMatrix")]
    for fn in sibs:

        def one(fn=fn):
            doy = find_calls(fn.node, "dayOfYear")
            gat = find_calls(fn.node, "greenwichApparentTime")
            r3 = find_calls(fn.node, "rot3")
            require(len(doy) == 1 and len(gat) == 1 and len(r3) == 1, "expected one dayOfYear, greenwichApparentTime and rot3 call", fn.node)
            bad = []
            # elapsed days = dayOfYear(...) - 1
            ed = inline_locals(fn, gat[0].args[1]) if len(gat[0].args) == 3 else None
            if not (isinstance(ed, ast.BinOp) and isinstance(ed.op, ast.Sub) and isinstance(ed.left, ast.Call) and call_name(ed.left) == "dayOfYear" and isinstance(ed.right, ast.Constant) and ed.right.value == 1):
                bad.append(f"elapsed days = `{unparse(ed) if ed is not None else None}`, expected dayOfYear(...) - 1")
            a = doy[0].args
            if len(a) != 6:
                bad.append("dayOfYear is not called with six fields")
            else:
                fields = ["year", "month", "day", "hour", "minute"]
                for i, nm in enumerate(fields):
                    txt = unparse(a[i])
                    itx = unparse(inline_locals(fn, a[i]))
                    if itx.endswith("calendar_date[%d]" % i):
                        continue
                    if itx != txt and "calendar_date[" in itx:
                        bad.append(f"dayOfYear argument {i + 1} is `{itx}` (expected field {i} = {nm})")
                        continue
                    if not (txt.endswith(nm) or txt.endswith(nm + "s")):
                        bad.append(f"dayOfYear argument {i + 1} is `{txt}` (expected {nm})")
                sec = inline_locals(fn, a[5])
                stxt = unparse(sec)
                if not (isinstance(sec, ast.BinOp) and isinstance(sec.op, ast.Add) and ("dut1" in stxt or "delta_ut1" in stxt) and ("second" in stxt or "calendar_date[5]" in stxt)):
                    bad.append(f"seconds argument is `{stxt}`, expected seconds + dUT1")
            ga = gat[0].args
            if len(ga) == 3:
                if not unparse(ga[0]).endswith("year"):
                    bad.append(f"greenwichApparentTime year is `{unparse(ga[0])}`")
                if "eq_equinox" not in unparse(ga[2]):
                    bad.append(f"equation of equinoxes argument is `{unparse(ga[2])}`")
            ang = inline_locals(fn, r3[0].args[0])
            # rot3(-gast)
            neg_ok = False
            if isinstance(ang, ast.BinOp) and isinstance(ang.op, ast.Mult):
                c, o = (ang.left, ang.right) if isinstance(ang.left, (ast.Constant, ast.UnaryOp)) else (ang.right, ang.left)
                cv = c.operand.value * -1 if isinstance(c, ast.UnaryOp) and isinstance(c.op, ast.USub) and isinstance(c.operand, ast.Constant) else getattr(c, "value", None)
                neg_ok = cv == -1 and isinstance(o, ast.Call) and call_name(o) == "greenwichApparentTime"
            elif isinstance(ang, ast.UnaryOp) and isinstance(ang.op, ast.USub):
                neg_ok = isinstance(ang.operand, ast.Call) and call_name(ang.operand) == "greenwichApparentTime"
            if not neg_ok:
                bad.append(f"rotation angle is `{unparse(ang)}`, expected -GAST")
            if bad:
                r.violation(fn.qualname, "sidereal:" + ";".join(bad), "sidereal rotation differs from its sibling / reference: " + "; ".join(bad), fn.loc())
            else:
                r.ok(fn.qualname, "rot3(-GAST(year, dayOfYear(.., sec + dUT1) - 1, eqe))", fn.loc())

        r.guard(fn.qualname, one)
    # _getRotationMatrix composition: rot_pn . R . rot_w
    fn = sibs[1]

    def comp():
        ret = [n for n in walk_no_nested(fn.node) if isinstance(n, ast.Return)][0].value
        c = chain(ret)
        nfs = nfs_of(c)
        ok = len(nfs) == 3 and nfs[0] == ("named", "rot_pn") and nfs[1][0] == "rot" and nfs[1][1] == 3 and nfs[2] == ("named", "rot_w")
        if ok:
            r.ok(fn.qualname + ":composition", "ECEF->ECI = rot_pn . rot3(-gast) . rot_w", fn.loc())
        else:
            r.violation(fn.qualname, f"composition:{[show_nf(x) for x in nfs]}", f"ECEF->ECI rotation is {[show_nf(x) for x in nfs]}, expected [rot_pn, rot3(-gast), rot_w]", fn.loc())

    r.guard(fn.qualname + ":composition", comp)


# ====================================================================== R6
def rule_r6(chk, p, t):
    r = chk.rule(
        "C04.R6",
        "calendar tables",
        2,
        "month-length literal is the Gregorian table in dayOfYear and days2mdh; the leap adjustment writes index 1; "
        "the cumulative loop bound is count < month; the day fraction uses /24, /1440, /86400",
    )
    GREG = [31, 28, 31, 30, 31, 30, 31, 31, 30, 31, 30, 31]

    def cumulative_idiom(fn):
        """dayOfYear written with a table of days preceding each month plus a leap-day increment."""
        from rsa.cfg import cfg_of

        table = None
        tname = None
        for n in walk_no_nested(fn.node):
            if isinstance(n, ast.Subscript) and isinstance(n.value, ast.Name):
                v = fn.module.assigns.get(n.value.id)
                if v is None:
                    for a in walk_no_nested(fn.node):
                        if isinstance(a, ast.Assign) and isinstance(a.targets[0], ast.Name) and a.targets[0].id == n.value.id:
                            v = a.value
                if isinstance(v, (ast.Tuple, ast.List)) and len(v.elts) == 12 and all(isinstance(e, ast.Constant) for e in v.elts):
                    table, tname, idx = [e.value for e in v.elts], n.value.id, n.slice
        require(table is not None, "no month-length or days-before-month table recognised", fn.node)
        prefix = [sum(GREG[:i]) for i in range(12)]
        bad = []
        if table != prefix:
            bad.append(f"days-before-month table {table} (expected {prefix})")
        itxt = unparse(idx)
        if itxt not in ("month - 1", "min(month, 12) - 1", "int(month) - 1"):
            bad.append(f"table indexed by `{itxt}` (expected month - 1)")
        cfg = cfg_of(fn)
        incs = [n for n in cfg.nodes if n.kind == "stmt" and isinstance(n.ast, ast.AugAssign) and isinstance(n.ast.op, ast.Add) and unparse(n.ast.value) == "1"]
        if len(incs) != 1:
            bad.append(f"{len(incs)} leap-day increments")
        else:
            conds = [(unparse(cfg.nodes[cid].ast), lab) for cid, lab in cfg.control_conditions(incs[0].id) if cfg.nodes[cid].kind == "cond"]
            month_ok = any((txt in ("month > 2", "month >= 3", "2 < month", "3 <= month") and lab is True) or (txt in ("month <= 2", "month < 3") and lab is False) for txt, lab in conds)
            leap_ok = any(("isleap(year)" in txt and lab is True) or ("remainder(year, 4) == 0" in txt and lab is True) or ("year % 4 == 0" in txt and lab is True) for txt, lab in conds)
            if not month_ok:
                bad.append(f"the leap day is added under {conds}: it must count only from March on (month > 2), otherwise every February date of a leap year is a day late")
            if not leap_ok:
                bad.append("the leap day is not conditional on a leap year")
        ret = [n for n in walk_no_nested(fn.node) if isinstance(n, ast.Return)][0].value
        want = canon(ast.parse("days + day + hour / 24 + minute / 1440 + second / 86400", mode="eval").body)
        if canon(ret) != want:
            bad.append(f"day fraction `{unparse(ret)}`")
        if bad:
            r.violation(fn.qualname, "calendar:" + ";".join(bad), f"{fn.name}: " + "; ".join(bad), fn.loc())
        else:
            r.ok(fn.qualname, f"days-before-month table `{tname}` + leap day from March on", fn.loc())

    for q in ("resonaate.physics.time.conversions.dayOfYear", "resonaate.physics.time.stardate.days2mdh"):
        fn = p.func(q)

        def one(fn=fn):
            lits = [n for n in walk_no_nested(fn.node) if isinstance(n, ast.Assign) and isinstance(n.value, ast.List) and len(n.value.elts) == 12]
            if not lits and fn.name == "dayOfYear":
                return cumulative_idiom(fn)
            require(len(lits) == 1, "no 12-element month table", fn.node)
            vals = [getattr(e, "value", None) for e in lits[0].value.elts]
            name = lits[0].targets[0].id
            bad = []
            if vals != GREG:
                bad.append(f"month table {vals}")
            for n in walk_no_nested(fn.node):
                if isinstance(n, ast.Assign) and isinstance(n.targets[0], ast.Subscript) and isinstance(n.targets[0].value, ast.Name) and n.targets[0].value.id == name:
                    idx = getattr(n.targets[0].slice, "value", None)
                    val = getattr(n.value, "value", None)
                    if idx != 1 or val not in (28, 29):
                        bad.append(f"leap adjustment writes [{idx}] = {val}")
            if fn.name == "dayOfYear":
                ws = [n for n in walk_no_nested(fn.node) if isinstance(n, ast.While)]
                require(len(ws) == 1, "no cumulative while loop", fn.node)
                tst = unparse(ws[0].test)
                if "count < month" not in tst:
                    bad.append(f"loop test `{tst}`")
                acc = [n for n in walk_no_nested(ws[0]) if isinstance(n, ast.AugAssign)]
                if not any(unparse(n.value) == f"{name}[count - 1]" for n in acc):
                    bad.append("cumulative sum does not add table[count - 1]")
                ret = [n for n in walk_no_nested(fn.node) if isinstance(n, ast.Return)][0].value
                want = canon(ast.parse("days + day + hour / 24 + minute / 1440 + second / 86400", mode="eval").body)
                if canon(ret) != want:
                    bad.append(f"day fraction `{unparse(ret)}`")
                # leap rule: %4, and century rule
                tests = " ".join(unparse(n.test) for n in walk_no_nested(fn.node) if isinstance(n, ast.If))
                if "remainder(year, 4) == 0" not in tests or "remainder(year, 100) == 0" not in tests or "remainder(year, 400) != 0" not in tests:
                    bad.append(f"leap-year tests `{tests}`")
            if bad:
                r.violation(fn.qualname, "calendar:" + ";".join(bad), f"{fn.name}: " + "; ".join(bad), fn.loc())
            else:
                r.ok(fn.qualname, "Gregorian month table, leap day at index 1", fn.loc())

        r.guard(fn.qualname, one)


def rule_r7(chk, p, t, rid="C04.R7"):
    r = chk.rule(
        rid,
        "time decompositions conserve their input",
        2,
        "terrestrial time is UTC + dAT + 32.184 s re-expressed as (hour, minute, second) of the *same* calendar day and "
        "turned into a Julian date; in the last ~69 s of a UTC day it exceeds 24 h and the carry into the day number "
        "must survive: seconds2hms satisfies 3600 h + 60 m + s == total seconds, and the fraction-carry block of "
        "getJulianDate leaves day + fraction unchanged - decided symbolically (straight-line substitution, polynomial "
        "expansion with floor / remainder left uninterpreted)",
        "rounding of the floating-point operations",
    )
    from rsa.terms import NotEvaluable, expand_poly, sym_exec

    s2h = p.func("resonaate.physics.time.conversions.seconds2hms")

    def one():
        body = [b for b in s2h.node.body if not isinstance(b, ast.Return)]
        rets = [b for b in s2h.node.body if isinstance(b, ast.Return)]
        require(len(rets) == 1 and isinstance(rets[0].value, ast.Tuple) and len(rets[0].value.elts) == 3, "seconds2hms does not return one (hour, minute, second) triple", s2h.node)
        try:
            env = sym_exec(body)
            import copy

            class S(ast.NodeTransformer):
                def visit_Name(self, n):
                    return copy.deepcopy(env[n.id]) if n.id in env else n

            h, m, sec = [S().visit(copy.deepcopy(x)) for x in rets[0].value.elts]
            total = ast.BinOp(left=ast.BinOp(left=ast.BinOp(left=ast.Constant(3600), op=ast.Mult(), right=h), op=ast.Add(), right=ast.BinOp(left=ast.Constant(60), op=ast.Mult(), right=m)), op=ast.Add(), right=sec)
            ok = expand_poly(total) == expand_poly(ast.Name(id=s2h.params[0], ctx=ast.Load()))
        except NotEvaluable as ex:
            raise Undecided(f"seconds2hms is not straight-line arithmetic ({ex})", s2h.node) from None
        if ok:
            r.ok(s2h.qualname, "3600 hour + 60 minute + second == total_seconds identically", s2h.loc())
        else:
            r.violation(s2h.qualname, "seconds-not-conserved", f"seconds2hms: 3600 hour + 60 minute + second is not its input `{s2h.params[0]}` (hour = `{unparse(h)[:60]}`): a value beyond 24 h - terrestrial time in the last 69 s of a UTC day - loses its day carry, so precession / nutation are evaluated a day early and the Earth-fixed frame jumps by ~6e-7 rad until midnight", s2h.loc())

    r.guard(s2h.qualname, one)
    gj = p.func("resonaate.physics.time.stardate.JulianDate.getJulianDate")

    def two():
        rets = [n for n in walk_no_nested(gj.node) if isinstance(n, ast.Return) and n.value is not None]
        require(len(rets) == 1 and isinstance(rets[0].value, ast.Call) and rets[0].value.args, "getJulianDate: single `return cls(day + fraction)` expected", gj.node)
        total = rets[0].value.args[0]
        names = sorted({n.id for n in ast.walk(total) if isinstance(n, ast.Name)})
        n_blocks = 0
        for i in [n for n in walk_no_nested(gj.node) if isinstance(n, ast.If)]:
            stored = {x.id for b in i.body for x in ast.walk(b) if isinstance(x, ast.Name) and isinstance(x.ctx, ast.Store)}
            if not (stored & set(names)) or any(isinstance(b, ast.Raise) for b in i.body):
                continue
            n_blocks += 1
            try:
                env = sym_exec(i.body)
            except NotEvaluable as ex:
                raise Undecided(f"carry block is not straight-line arithmetic ({ex})", i) from None
            import copy

            class S(ast.NodeTransformer):
                def visit_Name(self, n):
                    return copy.deepcopy(env[n.id]) if n.id in env else n

            after = S().visit(copy.deepcopy(total))
            cons = f"{gj.qualname}:carry"
            if expand_poly(after) == expand_poly(total):
                r.ok(cons, f"`{unparse(total)}` is unchanged by the block under `{unparse(i.test)}`", gj.loc(i))
            else:
                r.violation(cons, f"carry-not-conserved:{unparse(after)[:60]}", f"the block under `{unparse(i.test)}` turns `{unparse(total)}` into `{unparse(after)[:100]}`: whole days in the fraction are dropped instead of carried (terrestrial time in the last 69 s of a UTC day comes out one day early)", gj.loc(i))
        if n_blocks == 0:
            r.trivial(gj.qualname + ":carry", "no block rewrites the day / fraction pair")

    r.guard(gj.qualname, two)
    # the consumer relies on both
    u2t = p.func("resonaate.physics.time.conversions.utc2TerrestrialTime")

    def three():
        defs = single_defs(u2t.node)
        jd = [c for c in ast.walk(u2t.node) if isinstance(c, ast.Call) and call_name(c) == "getJulianDate"]
        require(len(jd) == 1 and len(jd[0].args) == 6, "utc2TerrestrialTime: one getJulianDate(y, m, d, h, m, s) expected", u2t.node)
        tt = inline_locals(u2t, ast.parse("tt_secs", mode="eval").body) if "tt_secs" in defs else None
        want = expand_poly(ast.parse(f"{u2t.params[3]} * 3600 + {u2t.params[4]} * 60 + {u2t.params[5]} + {u2t.params[6]} + 32.184", mode="eval").body)
        ok = tt is not None and expand_poly(tt) == want
        unp = [n for n in walk_no_nested(u2t.node) if isinstance(n, ast.Assign) and isinstance(n.targets[0], ast.Tuple) and isinstance(n.value, ast.Call) and call_name(n.value) == "seconds2hms"]
        arg_ok = len(unp) == 1 and [unparse(x) for x in unp[0].targets[0].elts] == [unparse(a) for a in jd[0].args[3:]] and len(unp[0].value.args) == 1 and expand_poly(inline_locals(u2t, unp[0].value.args[0])) == want
        days_ok = [unparse(a) for a in jd[0].args[:3]] == list(u2t.params[:3])
        if ok and arg_ok and days_ok:
            r.ok(u2t.qualname, "TT = UTC + dAT + 32.184 s, split by seconds2hms and dated on the same calendar day", u2t.loc())
        else:
            r.violation(u2t.qualname, f"terrestrial-time:{ok}:{arg_ok}:{days_ok}", "utc2TerrestrialTime no longer dates (UTC seconds of day + dAT + 32.184 s), split by seconds2hms, on the given calendar day", u2t.loc())

    r.guard(u2t.qualname, three)


def rule_r8(chk, p, t, rid="C04.R8"):
    r = chk.rule(
        rid,
        "geodetic to Earth-fixed follows the reference-ellipsoid definition",
        1,
        "lla2ecef returns ((N + h) cos(lat) cos(lon), (N + h) cos(lat) sin(lon), (N (1 - e^2) + h) sin(lat), 0, 0, 0) with "
        "N = R / sqrt(1 - e^2 sin^2(lat)) (Vallado 3-7), compared after inlining every local and full polynomial "
        "expansion: sign-carrying factors (sin(lat) for the hemisphere) may not be replaced by even functions of them",
        "the numerical values",
    )
    from rsa.terms import expand_poly

    fn = p.func("resonaate.physics.transforms.methods.lla2ecef")

    def one():
        rets = [n for n in walk_no_nested(fn.node) if isinstance(n, ast.Return) and n.value is not None]
        require(len(rets) == 1, "lla2ecef: single return expected", fn.node)
        e = inline_locals(fn, rets[0].value)
        arr = e.args[0] if isinstance(e, ast.Call) and call_name(e) in ("array", "asarray") and e.args else e
        require(isinstance(arr, (ast.List, ast.Tuple)) and len(arr.elts) == 6, "lla2ecef does not return a 6-element array literal", rets[0])
        x = fn.params[0]
        lat, lon, alt = f"{x}[0]", f"{x}[1]", f"{x}[2]"
        N = f"(Earth.radius / sqrt(1 - Earth.eccentricity ** 2 * sin({lat}) ** 2))"
        want = [
            f"({N} + {alt}) * cos({lat}) * cos({lon})",
            f"({N} + {alt}) * cos({lat}) * sin({lon})",
            f"((1 - Earth.eccentricity ** 2) * {N} + {alt}) * sin({lat})",
            "0",
            "0",
            "0",
        ]
        bad = []
        for i, (got, w) in enumerate(zip(arr.elts, want)):
            if expand_poly(got) != expand_poly(ast.parse(w, mode="eval").body):
                bad.append(f"component {i} = `{unparse(got)[:90]}` (expected `{w[:90]}`)")
        if bad:
            r.violation(fn.qualname, "lla2ecef:" + ";".join(b[:40] for b in bad), "lla2ecef deviates from the reference-ellipsoid definition: " + "; ".join(bad), fn.loc(rets[0]))
        else:
            r.ok(fn.qualname, "Vallado 3-7 with N = R / sqrt(1 - e^2 sin^2 lat)", fn.loc(rets[0]), obligations=6)

    r.guard(fn.qualname, one)


def run(chk, p, t):
    chk.explanation = (
        "Static decision of structural necessary conditions of C04 by normal forms of rotation chains and matrix "
        "literals: (R1) each primitive conversion pair is the reversed chain of inverse factors with opposite transport "
        "terms; (R2) composites are reversed compositions of inverse primitives with identical slots; (R3) rot1-3, "
        "skewSymmetric and dotRot literals satisfy their algebraic shape; (R4) reduction parameters are transposes of "
        "each other in both builders; (R5) the two sidereal-rotation siblings agree; (R6) calendar tables. NOT decided: "
        "numerical inverse accuracy, length preservation as numbers, continuity across calendar boundaries, the "
        "geodetic closed form."
    )
    chk.assumptions += ["numpy matmul / dot / multi_dot are matrix products; .T is the transpose", "passive rotation convention of Vallado eq. 3-15 (cited by the module)"]
    for fn in (rule_r1, rule_r2, rule_r3, rule_r4, rule_r5, rule_r6, rule_r7, rule_r8):
        rid = "C04.R" + fn.__name__[-1]
        if not chk.wants(rid):
            continue
        try:
            fn(chk, p, t)
        except (Undecided, AnchorError) as e:
            rr = chk.rule(rid + ".x", fn.__name__, 0, "-")
            (rr.undecided if isinstance(e, Undecided) else rr.error)(fn.__name__, str(e))


_ = dotted_name
