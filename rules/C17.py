"""C17 - maneuver detectors compute their documented statistic over any history.

Decides: detector protocol (the reported metric is the tested metric; `not test(metric, threshold,
dof)`) (R1), paired memory updates and documented statistics / degrees of freedom (R2), upper-tail
polarity of the chi-square test and the quadratic form (R3), flags raised iff detected (R4).
Does NOT decide chi-square values or monotonicity as numbers.
"""

from __future__ import annotations

import ast

from rsa.cfg import cfg_of
from rsa.model import AnchorError, Undecided, call_name, unparse, walk_no_nested
from rsa.terms import canon, inline_locals, single_defs
from rsa.util import find_calls, require

MD = "resonaate.estimation.maneuver_detection"
ST = "resonaate.physics.statistics"
QF = "chiSquareQuadraticForm(residual, innov_cvr)"


def _call_method(cls):
    return cls.methods.get("__call__")


def _inl(m, e):
    return unparse(inline_locals(m, e)) if e is not None else None


def _test_call(m):
    """The single `test(metric, threshold, dof)` call of a detector and the CFG node evaluating it."""
    calls = [c for c in ast.walk(m.node) if isinstance(c, ast.Call) and unparse(c.func) == "test"]
    require(len(calls) == 1 and len(calls[0].args) == 3, "test(...) is not called exactly once with three arguments", m.node)
    return calls[0]


def _eval_node(m, cfg, expr_root, needle):
    """CFG node at which sub-expression text ``needle`` of the (local-defined) expression is evaluated: the
    statement defining the local that contains it, or the statement containing ``expr_root`` itself."""
    defs = single_defs(m.node)
    work = [expr_root]
    seen = set()
    while work:
        e = work.pop()
        for n in ast.walk(e):
            if isinstance(n, ast.Name) and n.id in defs and n.id not in seen and defs[n.id] is not None:
                seen.add(n.id)
                if needle in unparse(defs[n.id]):
                    return cfg.node_of(defs[n.id])
                work.append(defs[n.id])
    return cfg.node_of(expr_root)


def _running_total(sl, ms, cfg, field, dim_app_node, bad):
    """Accept `dof = self.<field>` when <field> is an exact running total of the window: += the new dimension on
    every call, and -= the oldest (`self.dim_list[0]`) when the window is full, *before* the append evicts it."""
    init = sl.methods.get("__init__")
    ia = {unparse(n.targets[0]): unparse(n.value) for n in walk_no_nested(init.node) if isinstance(n, ast.Assign)}
    if ia.get(f"self.{field}") not in ("0", "0.0"):
        bad.append(f"running total self.{field} does not start at zero")
    adds = [n for n in cfg.nodes if n.kind == "stmt" and isinstance(n.ast, ast.AugAssign) and unparse(n.ast.target) == f"self.{field}" and isinstance(n.ast.op, ast.Add)]
    subs = [n for n in cfg.nodes if n.kind == "stmt" and isinstance(n.ast, ast.AugAssign) and unparse(n.ast.target) == f"self.{field}" and isinstance(n.ast.op, ast.Sub)]
    others = [n for n in cfg.nodes if n.kind == "stmt" and isinstance(n.ast, ast.Assign) and unparse(n.ast.targets[0]) == f"self.{field}"]
    if len(adds) != 1 or len(subs) != 1 or others:
        bad.append(f"dof = self.{field} is neither sum(self.dim_list) nor a recognisable running total")
        return
    if _inl(ms, adds[0].ast.value) != "residual.shape[0]" or cfg.control_conditions(adds[0].id):
        bad.append(f"the running total is not increased by the new dimension on every call (`{unparse(adds[0].ast)}`)")
    if unparse(subs[0].ast.value) != "self.dim_list[0]":
        bad.append(f"the running total is decreased by `{unparse(subs[0].ast.value)}`, not by the oldest dimension self.dim_list[0]")
    conds = [(unparse(cfg.nodes[c].ast), lab) for c, lab in cfg.control_conditions(subs[0].id)]
    full = [("len(self.dim_list) == self.window_size", True), ("len(self.dim_list) == self.dim_list.maxlen", True), ("len(self.nis_list) == self.window_size", True), ("len(self.nis_list) == self.nis_list.maxlen", True), ("len(self.dim_list) >= self.window_size", True)]
    if not any(c in full for c in conds):
        bad.append(f"the oldest dimension is subtracted under {conds}, not exactly when the window is full")
    if dim_app_node is not None:
        # the subtraction must read dim_list[0] before the append of a full deque evicts it
        if subs[0].id in cfg.reachable(dim_app_node.id):
            bad.append("the oldest dimension is read after `self.dim_list.append(...)`: the append to a full deque has already evicted it, so the second-oldest is subtracted and the first dimension ever seen stays in the total for good")
        if "nis_list" in " ".join(c for c, _ in conds):
            na = [n for n in cfg.nodes if n.kind == "stmt" and isinstance(n.ast, ast.Expr) and isinstance(n.ast.value, ast.Call) and call_name(n.ast.value) == "append" and unparse(n.ast.value.func.value) == "self.nis_list"]
            if na and subs[0].id in cfg.reachable(na[0].id):
                bad.append("the full-window test reads the NIS window after it was appended to")


def rule_r1(chk, p, t):
    r = chk.rule(
        "C17.R1",
        "detector protocol",
        3,
        "in every detector the value stored in self.metric is the first argument of test(...), the second is "
        "self.threshold, the third the degrees of freedom, the result is `not test(...)`, and metric is set on every "
        "path before returning",
    )
    base = p.cls(f"{MD}.ManeuverDetection")
    subs = [c for c in p.subclasses(base) if _call_method(c) is not None]
    if len(subs) < 3:
        r.error(base.qualname, f"only {len(subs)} detector classes with __call__ (3 confirmed by hand)")
    for sc in subs:
        m = _call_method(sc)

        def one(sc=sc, m=m):
            cfg = cfg_of(m)
            rets = [n for n in cfg.nodes if n.kind == "return"]
            require(rets, "no return", m.node)
            sets = [n for n in cfg.nodes if n.kind == "stmt" and isinstance(n.ast, ast.Assign) and unparse(n.ast.targets[0]) == "self.metric"]
            bad = []
            for rt in rets:
                v = rt.ast.value
                if not (isinstance(v, ast.UnaryOp) and isinstance(v.op, ast.Not) and isinstance(v.operand, ast.Call) and unparse(v.operand.func) == "test"):
                    bad.append(f"returns `{unparse(v)}` instead of `not test(...)`")
                    continue
                args = [unparse(a) for a in v.operand.args]
                if len(args) != 3 or args[0] != "self.metric" or args[1] != "self.threshold":
                    bad.append(f"test is called with {args}: expected (self.metric, self.threshold, dof)")
                if not sets or not cfg.must_pass(rt.id, via_nodes=[s.id for s in sets]):
                    bad.append("a path returns without setting self.metric")
            # threshold is the configured one
            if bad:
                r.violation(sc.qualname, "protocol:" + ";".join(sorted(set(bad))), f"{sc.name}: " + "; ".join(sorted(set(bad))), m.loc())
            else:
                r.ok(sc.qualname, "metric stored, then `not test(self.metric, self.threshold, dof)`", m.loc())

        r.guard(sc.qualname, one)
    init = base.methods.get("__init__")
    if init is not None:
        asg = [n for n in walk_no_nested(init.node) if isinstance(n, ast.Assign) and unparse(n.targets[0]) == "self.threshold"]
        rebound = [n for n in walk_no_nested(init.node) if isinstance(n, ast.Name) and n.id == init.params[1] and isinstance(n.ctx, (ast.Store, ast.Del))]
        if rebound:
            r.violation(base.qualname + ".threshold", "threshold-transformed", f"the constructor re-binds `{init.params[1]}` (line {rebound[0].lineno}) before storing it: the detector tests against another significance than the configured one", init.loc(rebound[0]))
        elif len(asg) == 1 and unparse(asg[0].value) == init.params[1]:
            r.ok(base.qualname + ".threshold", "threshold stored from the constructor argument", init.loc())
        else:
            r.violation(base.qualname + ".threshold", "threshold-provenance", "the configured significance is not stored as self.threshold", init.loc())
    for sc in subs:
        si = sc.methods.get("__init__")
        if si is not None and len(si.params) > 1:
            sup = [c for c in walk_no_nested(si.node) if isinstance(c, ast.Call) and isinstance(c.func, ast.Attribute) and c.func.attr == "__init__"]
            tp = si.params[1]
            reb = [n for n in walk_no_nested(si.node) if isinstance(n, ast.Name) and n.id == tp and isinstance(n.ctx, (ast.Store, ast.Del))]
            if reb or not sup or not sup[0].args or unparse(sup[0].args[0]) != tp:
                r.violation(sc.qualname + ".__init__", "threshold-not-forwarded", f"{sc.name}.__init__ does not hand its `{tp}` argument unchanged to the base constructor", si.loc())
            else:
                r.ok(sc.qualname + ".__init__", f"super().__init__({tp})", si.loc())
    for sc in subs:
        fc = sc.methods.get("fromConfig")
        if fc is not None:
            rets = [n for n in walk_no_nested(fc.node) if isinstance(n, ast.Return)]
            txt = unparse(rets[0].value) if rets else ""
            exp = {"StandardNis": "cls(config.threshold)", "SlidingNis": "cls(config.threshold, window_size=config.window_size)", "FadingMemoryNis": "cls(config.threshold, delta=config.delta)"}.get(sc.name)
            if exp is None:
                continue
            if txt == exp:
                r.ok(sc.qualname + ".fromConfig", exp, fc.loc())
            else:
                r.violation(sc.qualname + ".fromConfig", f"fromConfig:{txt}", f"{sc.name}.fromConfig builds `{txt}`, expected `{exp}`", fc.loc())


def rule_r2(chk, p, t):
    r = chk.rule(
        "C17.R2",
        "documented statistics and paired memory",
        3,
        "standard: metric = current NIS, dof = measurement dimension; sliding: NIS and dimension appended on the same "
        "path to deques of maxlen window_size, metric = sum of the NIS window, dof = sum of the dimension window; "
        "fading: prior = delta*prior + NIS, metric = prior*(1+delta), dof = mean dimension*(1+delta)/(1-delta)",
    )
    std = p.cls(f"{MD}.StandardNis")
    m = _call_method(std)

    def f1():
        mv = [n.value for n in walk_no_nested(m.node) if isinstance(n, ast.Assign) and unparse(n.targets[0]) == "self.metric"]
        metric = _inl(m, mv[0]) if len(mv) == 1 else None
        dof = _inl(m, _test_call(m).args[2])
        if metric == QF and dof == "residual.shape[0]":
            r.ok(std.qualname, "metric = NIS of the current innovation, dof = its dimension", m.loc())
        else:
            r.violation(std.qualname, f"standard:{metric}:{dof}", f"StandardNis: metric = `{metric}`, dof = `{dof}`", m.loc())

    r.guard(std.qualname, f1)
    sl = p.cls(f"{MD}.SlidingNis")
    ms = _call_method(sl)

    def f2():
        cfg = cfg_of(ms)
        apps = {}
        for n in cfg.nodes:
            if n.kind == "stmt" and isinstance(n.ast, ast.Expr) and isinstance(n.ast.value, ast.Call) and call_name(n.ast.value) == "append":
                apps[unparse(n.ast.value.func.value)] = (n, _inl(ms, n.ast.value.args[0]))
        mv = [n for n in walk_no_nested(ms.node) if isinstance(n, ast.Assign) and unparse(n.targets[0]) == "self.metric"]
        tc = _test_call(ms)
        dof_txt = _inl(ms, tc.args[2])
        metric_txt = _inl(ms, mv[0].value) if len(mv) == 1 else None
        bad = []
        if apps.get("self.nis_list", (None, None))[1] != QF:
            bad.append(f"NIS window receives `{apps.get('self.nis_list', (None, None))[1]}`")
        if apps.get("self.dim_list", (None, None))[1] != "residual.shape[0]":
            bad.append(f"dimension window receives `{apps.get('self.dim_list', (None, None))[1]}`")
        if "self.nis_list" in apps and "self.dim_list" in apps:
            a, b = apps["self.nis_list"][0], apps["self.dim_list"][0]
            # paired: each dominates / post-dominates the other on the way to every return
            for rt in [n for n in cfg.nodes if n.kind == "return"]:
                if not (cfg.must_pass(rt.id, via_nodes=[a.id]) and cfg.must_pass(rt.id, via_nodes=[b.id])):
                    bad.append("the two windows are not both updated on every path")
        if metric_txt != "sum(self.nis_list)":
            bad.append(f"metric = `{metric_txt}`")
        running = None
        if dof_txt != "sum(self.dim_list)":
            e = inline_locals(ms, tc.args[2])
            if isinstance(e, ast.Attribute) and isinstance(e.value, ast.Name) and e.value.id == "self":
                running = e.attr
                _running_total(sl, ms, cfg, running, apps.get("self.dim_list", (None, None))[0], bad)
            else:
                bad.append(f"dof = `{dof_txt}`")
        # metric computed after the append
        init = sl.methods.get("__init__")
        ia = {unparse(n.targets[0]): unparse(n.value) for n in walk_no_nested(init.node) if isinstance(n, ast.Assign)}
        for f in ("self.nis_list", "self.dim_list"):
            if ia.get(f) != "deque(maxlen=window_size)":
                bad.append(f"{f} = `{ia.get(f)}` (expected deque(maxlen=window_size))")
        order_ok = True
        if mv and "self.nis_list" in apps:
            en = _eval_node(ms, cfg, mv[0].value, "self.nis_list")
            if en.id not in cfg.reachable(apps["self.nis_list"][0].id):
                order_ok = False
        if running is None and "self.dim_list" in apps:
            en = _eval_node(ms, cfg, tc.args[2], "self.dim_list")
            if en.id not in cfg.reachable(apps["self.dim_list"][0].id):
                order_ok = False
        if not order_ok:
            bad.append("the statistic is computed before the current step is appended")
        if bad:
            r.violation(sl.qualname, "sliding:" + ";".join(bad), "SlidingNis: " + "; ".join(bad), ms.loc())
        else:
            r.ok(sl.qualname, "windows of the last w NIS values and dimensions, summed", ms.loc())

    r.guard(sl.qualname, f2)
    fm = p.cls(f"{MD}.FadingMemoryNis")
    mf = _call_method(fm)

    def f3():
        stmts = [n for n in walk_no_nested(mf.node) if isinstance(n, (ast.Assign, ast.AugAssign))]
        asg = {}
        order = []
        for n in stmts:
            tg = n.targets[0] if isinstance(n, ast.Assign) else n.target
            key = unparse(tg) + ("+=" if isinstance(n, ast.AugAssign) else "")
            asg[key] = n.value
            order.append(key)
        def eq(key, src):
            v = asg.get(key)
            return v is not None and canon(v) == canon(ast.parse(src, mode="eval").body)
        bad = []
        if not eq("self.prior_nis", f"self.delta * self.prior_nis + {QF}"):
            bad.append(f"recursion `{unparse(asg.get('self.prior_nis')) if asg.get('self.prior_nis') is not None else None}`")
        if not eq("self.metric", "self.prior_nis * (1 + self.delta)"):
            bad.append(f"metric `{unparse(asg.get('self.metric')) if asg.get('self.metric') is not None else None}`")
        dof_e = inline_locals(mf, _test_call(mf).args[2])
        if canon(dof_e) != canon(ast.parse("self.total_dim / self.total * (1 + self.delta) / (1 - self.delta)", mode="eval").body):
            bad.append(f"dof `{unparse(dof_e)}`")
        td = asg.get("self.total_dim+=")
        if not (eq("self.total+=", "1") and td is not None and _inl(mf, td) == "residual.shape[0]"):
            bad.append("running mean of the measurement dimension")
        cfgf = cfg_of(mf)
        en = _eval_node(mf, cfgf, _test_call(mf).args[2], "self.total")
        for n in cfgf.nodes:
            if n.kind == "stmt" and isinstance(n.ast, ast.AugAssign) and unparse(n.ast.target) in ("self.total", "self.total_dim") and en.id not in cfgf.reachable(n.id):
                bad.append("the mean dimension is read before the current step is counted")
        if "self.prior_nis" in order and "self.metric" in order and order.index("self.prior_nis") > order.index("self.metric"):
            bad.append("metric computed before the recursion is advanced")
        init = fm.methods.get("__init__")
        ia = {unparse(n.targets[0]): unparse(n.value) for n in walk_no_nested(init.node) if isinstance(n, ast.Assign)}
        if ia.get("self.prior_nis") not in ("0.0", "0") or ia.get("self.total") != "0" or ia.get("self.total_dim") != "0" or ia.get("self.delta") != "delta":
            bad.append("initial memory is not zero / delta not stored")
        if bad:
            r.violation(fm.qualname, "fading:" + ";".join(bad), "FadingMemoryNis: " + "; ".join(bad), mf.loc())
        else:
            r.ok(fm.qualname, "q_k = delta q_(k-1) + NIS_k; metric = (1 + delta) q_k; dof = mean dim (1+delta)/(1-delta)", mf.loc())

    r.guard(fm.qualname, f3)


def rule_r3(chk, p, t):
    r = chk.rule(
        "C17.R3",
        "test polarity and quadratic form",
        2,
        "oneSidedChiSquareTest returns metric < chi2.isf(alpha, dof*runs)/runs (the upper tail: true = not rejected), "
        "so a detector fires exactly when the statistic reaches the bound; the quadratic form is r^T P^-1 r",
        "chi-square quantile values",
    )
    f = p.func(f"{ST}.oneSidedChiSquareTest")

    def f1():
        rets = [n for n in walk_no_nested(f.node) if isinstance(n, ast.Return)]
        require(len(rets) == 1, "single return expected", f.node)
        e = inline_locals(f, rets[0].value)
        metric, alpha, dof = f.params[0], f.params[1], f.params[2]
        runs = f.params[3] if len(f.params) > 3 else "runs"
        want = canon(ast.parse(f"chi2.isf({alpha}, {dof} * {runs}) / {runs}", mode="eval").body)
        ok = isinstance(e, ast.Compare) and len(e.ops) == 1
        if ok:
            op, l, rr_ = type(e.ops[0]), e.left, e.comparators[0]
            ok = (op is ast.Lt and unparse(l) == metric and canon(rr_) == want) or (op is ast.Gt and unparse(rr_) == metric and canon(l) == want)
        if ok:
            r.ok(f.qualname, "metric < chi2.isf(alpha, dof*runs)/runs", f.loc())
        else:
            r.violation(f.qualname, f"polarity:{unparse(e)}", f"the one-sided test returns `{unparse(e)}`: expected `metric < chi2.isf(alpha, dof*runs)/runs` (strictly below the upper-tail bound means 'consistent')", f.loc())

    r.guard(f.qualname, f1)
    q = p.func(f"{ST}.chiSquareQuadraticForm")

    def f2():
        rets = [n for n in walk_no_nested(q.node) if isinstance(n, ast.Return)]
        a, b = q.params
        txt = unparse(rets[0].value)
        forms = {f"{a}.T.dot(inv({b}).dot({a}))", f"{a}.T @ inv({b}) @ {a}", f"{a}.dot(inv({b}).dot({a}))", f"{a}.T.dot(solve({b}, {a}))"}
        if txt in forms:
            r.ok(q.qualname, txt, q.loc())
        else:
            r.violation(q.qualname, f"quadratic-form:{txt}", f"the quadratic form is `{txt}`, expected r^T P^-1 r", q.loc())

    r.guard(q.qualname, f2)


def rule_r4(chk, p, t):
    r = chk.rule(
        "C17.R4",
        "flags",
        1,
        "checkManeuverDetection calls the detector on (innovation, innovation covariance), raises the maneuver flag "
        "and copies the detector's metric iff the detector returned true",
    )
    m = p.func("resonaate.estimation.sequential_filter.SequentialFilter.checkManeuverDetection")

    def f1():
        cfg = cfg_of(m)
        calls = [n for n in walk_no_nested(m.node) if isinstance(n, ast.Assign) and unparse(n.targets[0]) == "self.maneuver_detected"]
        # the detector sees EVERY update for which one is configured: the sliding-window and fading-memory statistics are
        # functions of the whole innovation history, so a step that is decided without calling the detector (a shortcut on
        # the step's own NIS, a cached verdict) is missing from every later window
        det_nodes = [n.id for n in cfg.stmt_nodes() if n.kind in ("stmt", "cond", "return") and any(isinstance(c, ast.Call) and unparse(c.func) == "self.maneuver_detection" for c in ast.walk(n.ast))]
        none_edges = []
        for n in cfg.nodes:
            if n.kind == "cond":
                txt = unparse(n.ast)
                if txt == "self.maneuver_detection is None":
                    none_edges.append((n.id, True))
                elif txt in ("self.maneuver_detection is not None", "self.maneuver_detection"):
                    none_edges.append((n.id, False))
                elif txt == "not self.maneuver_detection":
                    none_edges.append((n.id, True))
        if det_nodes and cfg.exit.id in cfg.reachable(cfg.entry.id, blocked_nodes=det_nodes, blocked_edges=none_edges):
            # name the condition that opens the bypass
            via = [unparse(n.ast)[:70] for n in cfg.nodes if n.kind == "cond" and (n.id, True) not in none_edges and (n.id, False) not in none_edges and any(cfg.exit.id in cfg.reachable(n.id, blocked_nodes=det_nodes, blocked_edges=none_edges + [(n.id, not lab)]) and n.id in cfg.reachable(cfg.entry.id, blocked_nodes=det_nodes, blocked_edges=none_edges) for lab in (True, False))]
            r.violation(m.qualname + ":every-step", "detector-bypassed:" + ";".join(via)[:80], f"checkManeuverDetection can return without calling the configured detector (through `{via[0] if via else '?'}`): the detectors that keep a history (sliding window, fading memory) never see that step, so their statistic is no longer the documented function of the last w innovations and a detection that the window still carries is not declared", m.loc())
            return
        calls = [c for c in calls if isinstance(c.value, ast.Call)] or calls
        require(len(calls) == 1, "maneuver_detected is not assigned once", m.node)
        v = calls[0].value
        bad = []
        if not (isinstance(v, ast.Call) and unparse(v.func) == "self.maneuver_detection" and [unparse(a) for a in v.args] == ["self.innovation", "self.innov_cvr"]):
            bad.append(f"detector called as `{unparse(v)}`")
        flag = [n for n in cfg.nodes if n.kind == "stmt" and isinstance(n.ast, ast.AugAssign) and "MANEUVER_DETECTION" in unparse(n.ast.value) and isinstance(n.ast.op, ast.BitOr)]
        metric = [n for n in cfg.nodes if n.kind == "stmt" and isinstance(n.ast, ast.Assign) and unparse(n.ast.targets[0]) == "self.maneuver_metric"]
        conds = [n for n in cfg.nodes if n.kind == "cond" and unparse(n.ast) == "self.maneuver_detected"]
        if not flag or not metric or not conds:
            bad.append("flag / metric / branch on maneuver_detected missing")
        else:
            c = conds[0]
            for node in (flag[0], metric[0]):
                if not cfg.must_pass(node.id, via_edges=[(c.id, True)]):
                    bad.append(f"`{unparse(node.ast)}` is reachable although no maneuver was detected")
            # reached whenever detected: blocking the False edge must still reach the flag, and the True edge must lead there
            reach_t = cfg.reachable(cfg.entry.id, blocked_edges=[(c.id, False)])
            if flag[0].id not in reach_t:
                bad.append("the flag is not raised when a maneuver is detected")
            if not cfg.must_pass(cfg.exit.id, via_nodes=[flag[0].id], start=c.id) and False:
                bad.append("")
            # detected path must pass the flag: from the True edge, exit is reached only through the flag
            blocked = cfg.reachable(c.id, blocked_nodes=[flag[0].id], blocked_edges=[(c.id, False)])
            if cfg.exit.id in blocked:
                bad.append("a detected maneuver can leave without raising the flag")
            if unparse(metric[0].ast.value) != "self.maneuver_detection.metric":
                bad.append(f"metric copied from `{unparse(metric[0].ast.value)}`")
        if bad:
            r.violation(m.qualname, "flags:" + ";".join(bad), "checkManeuverDetection: " + "; ".join(bad), m.loc())
        else:
            r.ok(m.qualname, "flag and metric set iff the detector returned true", m.loc())

    r.guard(m.qualname, f1)


_FRESH_SELFTEST = """
_KEPT = {}

def factory(config):
    key = config.name
    if key not in _KEPT:
        _KEPT[key] = Detector(config)
    return _KEPT[key]
"""


def rule_r5(chk, p, t):
    from rsa.fresh import Fresh

    r = chk.rule(
        "C17.R5",
        "every filter gets a detector of its own",
        5,
        "SlidingNis / FadingMemoryNis keep the history the statistic is computed over; 'over any history' means the "
        "history of the filter that owns the detector.  maneuverDetectionFactory returns, on every path, an object "
        "created by that very call (freshness provenance, rsa/fresh.py: not read from a module-level or class-level "
        "container, not memoised), every detector's fromConfig returns a constructor call, and sequentialFilterFactory "
        "hands the filter the result of its own factory call; the filter constructors store the detector they are given",
        "the statistic itself (R1-R3)",
    )
    fr = Fresh(p)
    # embedded positive example: a keyed keep-and-return factory must be recognised as shared on every run
    import types

    tree = ast.parse(_FRESH_SELFTEST)
    mod = types.SimpleNamespace(tree=tree, name="<selftest>", functions={})
    fdef = [n for n in tree.body if isinstance(n, ast.FunctionDef)][0]
    fake = types.SimpleNamespace(node=fdef, module=mod, cls=None, qualname="<selftest>.factory", name="factory")
    rets = [n for n in ast.walk(fdef) if isinstance(n, ast.Return)]
    if fr.classify(fake, rets[0].value)[0] != "shared":
        r.error("selftest", "the embedded keep-and-return factory is not recognised as handing out a shared object")
        return
    est = p.module("resonaate.estimation")
    fac = est.functions.get("maneuverDetectionFactory")
    sff = est.functions.get("sequentialFilterFactory")
    if fac is None or sff is None:
        r.error("factories", "maneuverDetectionFactory / sequentialFilterFactory not found in resonaate.estimation")
        return

    def verdict(fi, e, cons, what):
        v, why, node = fr.classify(fi, e)
        if v == "shared":
            r.violation(cons, "shared-detector", f"{what}: {why} - two filters built from equal configurations share one detector, so each one's window / faded sum / average dimension mixes in the other's innovations and its decisions and metric are not the documented statistic over its own history", fi.loc(node if node is not None and hasattr(node, 'lineno') else e))
            return False
        if v in ("unknown", "param"):
            r.undecided(cons, f"{what}: cannot show the object is created by this call ({why})", fi.loc(e))
            return False
        return True

    def factory():
        rets = [n for n in walk_no_nested(fac.node) if isinstance(n, ast.Return)]
        require(rets, "maneuverDetectionFactory returns nothing", fac.node)
        dec = fr._decorated_cache(fac)
        if dec:
            r.violation(fac.qualname, "shared-detector", f"maneuverDetectionFactory is memoised by @{dec}: equal configurations get the detector of the first call", fac.loc())
            return
        ok = all([verdict(fac, rt.value, fac.qualname, f"`return {unparse(rt.value)[:60]}`") for rt in rets if rt.value is not None])
        if ok:
            r.ok(fac.qualname, f"{len(rets)} returns: None or an object created by the call", fac.loc())

    r.guard(fac.qualname, factory)

    base = p.cls("resonaate.estimation.maneuver_detection.ManeuverDetection")
    for c in p.subclasses(base):
        m = c.methods.get("fromConfig")
        if m is None:
            continue

        def one(c=c, m=m):
            rets = [n for n in walk_no_nested(m.node) if isinstance(n, ast.Return) and n.value is not None]
            require(rets, f"{c.name}.fromConfig returns nothing", m.node)
            ok = True
            for rt in rets:
                v = rt.value
                if isinstance(v, ast.Call) and isinstance(v.func, ast.Name) and v.func.id in ("cls", c.name) and not fr._decorated_cache(m):
                    continue
                ok = verdict(m, v, m.qualname, f"`return {unparse(v)[:60]}`") and ok
            if ok:
                r.ok(m.qualname, "returns a new instance", m.loc())

        r.guard(m.qualname, one)

    def user():
        kw = None
        for n in walk_no_nested(sff.node):
            if isinstance(n, ast.Call):
                for k in n.keywords:
                    if k.arg == "maneuver_detection":
                        kw = k.value
        require(kw is not None, "sequentialFilterFactory passes no maneuver_detection", sff.node)
        if verdict(sff, kw, sff.qualname, f"`maneuver_detection={unparse(kw)[:50]}`"):
            r.ok(sff.qualname, "the filter is handed the result of this call's own maneuverDetectionFactory(...)", sff.loc())

    r.guard(sff.qualname, user)


def run(chk, p, t):
    chk.explanation = (
        "Static decision of structural necessary conditions of C17: (R1) every detector stores the statistic it "
        "tests and returns `not test(metric, threshold, dof)`; (R2) the three statistics and their degrees of freedom "
        "are the documented expressions (normal-form comparison), windows are paired deques of the configured "
        "length, the fading recursion advances before it is read; (R3) the chi-square test is the strict upper-tail "
        "comparison, the quadratic form r^T P^-1 r; (R4) flags are raised iff the detector fired. NOT decided: "
        "chi-square values, monotonicity in the innovation scale as numbers."
    )
    chk.assumptions += ["scipy.stats.chi2.isf(alpha, dof) is the upper-tail quantile", "collections.deque(maxlen=w) keeps the last w items"]
    for fn in (rule_r1, rule_r2, rule_r3, rule_r4, rule_r5):
        rid = "C17.R" + fn.__name__[-1]
        if not chk.wants(rid):
            continue
        try:
            fn(chk, p, t)
        except (Undecided, AnchorError) as e:
            rr = chk.rule(rid + ".x", fn.__name__, 0, "-")
            (rr.undecided if isinstance(e, Undecided) else rr.error)(fn.__name__, str(e))


_ = find_calls
