"""C02 - reported observations satisfy all sensor constraints; misses state a true reason.

Decides: guard coverage of every reported observation (R1, R2), reason binding and comparator
polarity of every miss (R3, R4), exactly one primary record per path (R5), background discipline
(R6), measurement provenance (R7).  Does NOT decide that each predicate equals the exact geometry
nor the noise magnitude.
"""

from __future__ import annotations

import ast

from rsa.cfg import cfg_of
from rsa.model import AnchorError, Undecided, call_name, unparse, walk_no_nested
from rsa.terms import single_defs
from rsa.util import find_calls, parents_map, require

SENSOR = "resonaate.sensors.sensor_base.Sensor"

# (reason) -> constraint row.  kind 'cmp': the constraint FAILS when `lhs op rhs`;
# kind 'bool': helper whose result `fails_when` means the constraint fails.
CMP, BOOL = "cmp", "bool"
TABLE = {
    "MINIMUM_RANGE": dict(owner="Sensor", kind=CMP, lhs="range", op="<", rhs="minimum_range", optional="minimum_range"),
    "MAXIMUM_RANGE": dict(owner="Sensor", kind=CMP, lhs="range", op=">", rhs="maximum_range", optional="maximum_range"),
    "LINE_OF_SIGHT": dict(owner="Sensor", kind=BOOL, helper="lineOfSight", fails_when=False),
    "ELEVATION_MASK": dict(owner="Sensor", kind=CMP, alts=[("el", "<", "el0"), ("el", ">", "el1")]),
    "AZIMUTH_MASK": dict(owner="Sensor", kind="fallthrough"),
    "RADAR_SENSITIVITY": dict(owner="Radar", kind=CMP, lhs="range", op=">", rhs="radar_limit"),
    "SOLAR_FLUX": dict(owner="Optical", kind=CMP, lhs="flux", op="<=", rhs="zero"),
    "VIZ_MAG": dict(owner="Optical", kind=CMP, lhs="vismag", op=">", rhs="vismag_limit"),
    "GALACTIC_EXCLUSION": dict(owner="Optical", kind=BOOL, helper="checkGalacticExclusionZone", fails_when=False),
    "SPACE_ILLUMINATION": dict(owner="Optical", kind=BOOL, helper="checkSpaceSensorLightingConditions", fails_when=False, platform="spacecraft"),
    "LIMB_OF_EARTH": dict(owner="Optical", kind=BOOL, helper="checkSpaceSensorEarthLimbObscuration", fails_when=True, platform="spacecraft"),
    "GROUND_ILLUMINATION": dict(owner="Optical", kind=BOOL, helper="checkGroundSensorLightingConditions", fails_when=False, platform="ground"),
    "FIELD_OF_VIEW": dict(owner="attempt", kind=BOOL, helper="inFieldOfView", fails_when=False),
    "SLEW_DISTANCE": dict(owner="collect", kind=BOOL, helper="canSlew", fails_when=False),
}
NEG = {"<": ">=", ">": "<=", "<=": ">", ">=": "<"}
FLIP = {"<": ">", ">": "<", "<=": ">=", ">=": "<="}
OPS = {ast.Lt: "<", ast.Gt: ">", ast.LtE: "<=", ast.GtE: ">="}


def operand_kind(e, defs, depth=4):
    """Semantic kind of a comparison operand in the visibility chain."""
    if depth <= 0:
        return None
    if isinstance(e, ast.Name) and e.id in defs:
        return operand_kind(defs[e.id], defs, depth - 1)
    if isinstance(e, ast.Call):
        nm = call_name(e)
        return {
            "getRange": "range",
            "getElevation": "el",
            "getAzimuth": "az",
            "maximumRangeTo": "radar_limit",
            "calculateIncidentSolarFlux": "flux",
            "apparentVisualMagnitude": "vismag",
        }.get(nm)
    if isinstance(e, ast.Attribute) and isinstance(e.value, ast.Name) and e.value.id == "self":
        return {"minimum_range": "minimum_range", "maximum_range": "maximum_range", "detectable_vismag": "vismag_limit"}.get(e.attr)
    if isinstance(e, ast.Subscript) and isinstance(e.value, ast.Attribute) and isinstance(e.slice, ast.Constant):
        base = e.value.attr.lstrip("_")
        if base == "el_mask":
            return f"el{e.slice.value}"
        if base == "az_mask":
            return f"m{e.slice.value}"
    if isinstance(e, ast.Constant) and e.value in (0, 0.0):
        return "zero"
    return None


def bool_helper(e, defs, depth=4):
    """Name of the boolean helper whose result the expression is (through single-def locals and
    tuple unpacking of `a, b = f(...)`)."""
    if depth <= 0:
        return None
    if isinstance(e, ast.Call):
        return call_name(e)
    if isinstance(e, ast.Name) and e.id in defs:
        return bool_helper(defs[e.id], defs, depth - 1)
    return None


def classify_atom(test, defs, unpacked):
    """Describe a condition atom: ('cmp', lhs_kind, op, rhs_kind) | ('bool', helper) | ('none', attr)
    | ('platform',) | None."""
    if isinstance(test, ast.Compare) and len(test.ops) == 1:
        op = test.ops[0]
        l, r = test.left, test.comparators[0]
        if isinstance(op, (ast.IsNot, ast.Is)) and isinstance(r, ast.Constant) and r.value is None and isinstance(l, ast.Attribute):
            return ("none", l.attr, isinstance(op, ast.IsNot))
        if isinstance(op, (ast.Eq, ast.NotEq)) and "agent_type" in unparse(test):
            return ("platform", unparse(r).split(".")[-1].lower(), isinstance(op, ast.Eq))
        if type(op) in OPS:
            kl, kr = operand_kind(l, defs), operand_kind(r, defs)
            if kl and kr:
                return ("cmp", kl, OPS[type(op)], kr)
    if isinstance(test, ast.Compare) and len(test.ops) == 2:
        return ("chain", unparse(test))
    if isinstance(test, ast.Name) and test.id in unpacked:
        return ("bool", unpacked[test.id])
    h = bool_helper(test, defs)
    if h:
        return ("bool", h)
    return None


def atom_relation(atom, row):
    """Relation of a classified cmp atom to a table row: 'fail' (atom true == constraint fails),
    'pass' (atom true == constraint passes), 'drift' (same operands, boundary moved), None."""
    alts = row.get("alts") or [(row["lhs"], row["op"], row["rhs"])]
    _k, kl, op, kr = atom
    for lhs, top, rhs in alts:
        if (kl, kr) == (lhs, rhs):
            o = op
        elif (kl, kr) == (rhs, lhs):
            o = FLIP[op]
        else:
            continue
        if o == top:
            return "fail", (lhs, top, rhs)
        if o == NEG[top]:
            return "pass", (lhs, top, rhs)
        return "drift", (lhs, top, rhs)
    return None, None


def _split_verdict_returns(fn):
    """`return ok, why` with `ok, why = super().isVisible(...)` hands on whatever the base class decided: for the
    path analysis it is the two returns `return True, why` (when ok) and `return False, why` (otherwise)."""
    import copy

    from rsa.alpha import _blocks

    flags = set()
    for n in walk_no_nested(fn.node):
        if isinstance(n, ast.Assign) and isinstance(n.targets[0], ast.Tuple) and len(n.targets[0].elts) == 2 and isinstance(n.value, ast.Call) and isinstance(n.value.func, ast.Attribute) and n.value.func.attr == "isVisible" and isinstance(n.targets[0].elts[0], ast.Name):
            flags.add(n.targets[0].elts[0].id)
    changed = False
    for _owner, blk in _blocks(fn.node):
        for i, st in enumerate(blk):
            if isinstance(st, ast.Return) and isinstance(st.value, ast.Tuple) and len(st.value.elts) == 2 and isinstance(st.value.elts[0], ast.Name) and st.value.elts[0].id in flags:
                flag, why = st.value.elts
                t_ret = ast.copy_location(ast.Return(value=ast.Tuple(elts=[ast.Constant(value=True), copy.deepcopy(why)], ctx=ast.Load())), st)
                f_ret = ast.copy_location(ast.Return(value=ast.Tuple(elts=[ast.Constant(value=False), copy.deepcopy(why)], ctx=ast.Load())), st)
                new = ast.copy_location(ast.If(test=ast.UnaryOp(op=ast.Not(), operand=copy.deepcopy(flag)), body=[f_ret], orelse=[]), st)
                for x in (new, t_ret):
                    ast.fix_missing_locations(x)
                blk[i : i + 1] = [new, t_ret]
                changed = True
                break
    if changed and hasattr(fn, "_cfg"):
        del fn._cfg
    return changed


def analyse_isvisible(p, fn, owner, r_cov, r_bind, r_pol):
    """Rules R2-R4 on one isVisible implementation."""
    _split_verdict_returns(fn)
    cfg = cfg_of(fn)
    defs = single_defs(fn.node)
    # tuple-unpacked results of super().isVisible(...) / helper calls
    unpacked = {}
    for n in walk_no_nested(fn.node):
        if isinstance(n, ast.Assign) and isinstance(n.targets[0], ast.Tuple) and isinstance(n.value, ast.Call):
            nm = call_name(n.value)
            first = n.targets[0].elts[0]
            if isinstance(first, ast.Name):
                unpacked[first.id] = "super.isVisible" if (isinstance(n.value.func, ast.Attribute) and isinstance(n.value.func.value, ast.Call) and call_name(n.value.func.value) == "super") else nm
    atoms = []  # (node, classified)
    for n in cfg.nodes:
        if n.kind == "cond":
            atoms.append((n, classify_atom(n.ast, defs, unpacked)))
    rows = {k: v for k, v in TABLE.items() if v["owner"] == owner}
    # map rows -> atoms
    row_atoms = {k: [] for k in rows}
    for n, cl in atoms:
        if cl is None:
            continue
        for k, row in rows.items():
            if row["kind"] == CMP and cl[0] == "cmp":
                rel, which = atom_relation(cl, row)
                if rel:
                    row_atoms[k].append((n, rel, which))
            elif row["kind"] == BOOL and cl[0] == "bool" and cl[1] == row["helper"]:
                row_atoms[k].append((n, "fail" if row["fails_when"] is True else "pass", None))
    if owner != "Sensor":
        row_atoms["__super__"] = [(n, "pass", None) for n, cl in atoms if cl and cl[0] == "bool" and cl[1] == "super.isVisible"]
    ret_true, ret_false = [], []
    for n in cfg.nodes:
        if n.kind == "return" and isinstance(n.ast.value, ast.Tuple) and len(n.ast.value.elts) == 2:
            flag, why = n.ast.value.elts
            if isinstance(flag, ast.Constant) and flag.value is True:
                ret_true.append(n)
            elif isinstance(flag, ast.Constant) and flag.value is False:
                ret_false.append((n, why))
    require(ret_true, f"{fn.qualname} never returns True", fn.node)

    def passing_edges(k):
        """Edges one of which is taken iff an atom of row k passes (constraint satisfied)."""
        out = []
        for n, rel, _w in row_atoms.get(k, []):
            if rel == "fail":
                out.append((n.id, False))
            elif rel == "pass":
                out.append((n.id, True))
        return out

    def failing_edges(k):
        out = []
        for n, rel, _w in row_atoms.get(k, []):
            if rel == "fail":
                out.append((n.id, True))
            elif rel == "pass":
                out.append((n.id, False))
        return out

    platform_atoms = [(n, cl) for n, cl in atoms if cl and cl[0] == "platform"]
    none_atoms = {cl[1]: (n, cl[2]) for n, cl in atoms if cl and cl[0] == "none"}

    # ---- R4 polarity drift
    for k, lst in row_atoms.items():
        for n, rel, which in lst:
            if rel == "drift":
                r_pol.violation(
                    f"{fn.qualname}:{k}",
                    f"comparator-drift:{unparse(n.ast)}",
                    f"the {k} guard is `{unparse(n.ast)}`; the constraint fails when {which[0]} {which[1]} {which[2]}: the boundary case is classified the other way",
                    fn.loc(n.ast),
                )
            elif k != "__super__":
                r_pol.ok(f"{fn.qualname}:{k}:{unparse(n.ast)[:50]}", f"atom {'fails' if rel == 'fail' else 'passes'} the constraint when true", fn.loc(n.ast))

    # ---- R2 coverage: every `return True` passed every constraint of this class
    for rt in ret_true:
        for k, row in list(rows.items()) + ([("__super__", dict(kind=BOOL))] if owner != "Sensor" else []):
            if row.get("kind") == "fallthrough":
                continue
            cons = f"{fn.qualname}:return-True@{k}"
            if not row_atoms.get(k):
                r_cov.violation(
                    f"{fn.qualname}:{k}",
                    "constraint-not-tested",
                    f"{fn.name} of {owner} never tests the {k} constraint ({describe(row)}): observations violating it are reported as visible",
                    fn.loc(),
                )
                continue
            if row.get("alts"):
                # every alternative must be tested and passed
                ok = True
                seen_alts = {w for _n, _rel, w in row_atoms[k]}
                for alt in row["alts"]:
                    edges = []
                    for n, rel, w in row_atoms[k]:
                        if w == alt:
                            edges.append((n.id, False) if rel == "fail" else (n.id, True))
                    if alt not in seen_alts or not cfg.must_pass_feasible(rt.id, via_edges=edges):
                        ok = False
                        r_cov.violation(
                            f"{fn.qualname}:{k}",
                            f"alternative-not-passed:{alt}",
                            f"a path reaches `return True` without passing the {k} test `{alt[0]} {NEG[alt[1]]} {alt[2]}`",
                            fn.loc(rt.ast),
                        )
                if ok:
                    r_cov.ok(cons, "both sides of the mask tested and passed on every path", fn.loc(rt.ast))
                continue
            edges = passing_edges(k)
            # optional constraint: `x is not None and cmp`: the none-test failing also passes
            opt = row.get("optional")
            if opt and opt in none_atoms:
                n_none, is_not = none_atoms[opt]
                edges.append((n_none.id, not is_not))
            # platform-specific constraint: taking the other platform branch also passes
            if row.get("platform"):
                for n, cl in platform_atoms:
                    is_space = cl[1] == "spacecraft"
                    eq = cl[2]
                    want_space = row["platform"] == "spacecraft"
                    # edge label on which the platform is NOT the row's platform
                    lab_other = (not eq) if (is_space == want_space) else eq
                    edges.append((n.id, lab_other))
            if cfg.must_pass_feasible(rt.id, via_edges=edges):
                r_cov.ok(cons, f"every path to `return True` passes {k}", fn.loc(rt.ast))
            else:
                w = cfg.witness_path(rt.id, blocked_edges=edges)
                r_cov.violation(
                    f"{fn.qualname}:{k}",
                    "path-avoids-constraint",
                    f"a path reaches `return True` without passing the {k} constraint ({describe(row)}); e.g. via lines {[cfg.nodes[i].lineno for i in (w or []) if cfg.nodes[i].lineno][:8]}",
                    fn.loc(rt.ast),
                )

    # ---- R3 reason binding
    for rf, why in ret_false:
        if isinstance(why, ast.Attribute) and isinstance(why.value, ast.Name) and why.value.id == "Explanation":
            k = why.attr
            cons = f"{fn.qualname}:return-False@{k}"
            row = TABLE.get(k)
            if row is None:
                r_bind.undecided(cons, f"reason Explanation.{k} has no row in the constraint table", fn.loc(rf.ast))
                continue
            if row["owner"] != owner:
                r_bind.violation(cons, "reason-of-other-class", f"{fn.name} of {owner} returns the reason {k}, which belongs to {row['owner']}", fn.loc(rf.ast))
                continue
            if row["kind"] == "fallthrough":
                # reached only after every other constraint of this function passed
                bad = []
                for k2, row2 in rows.items():
                    if row2["kind"] == "fallthrough" or not row_atoms.get(k2):
                        continue
                    edges = passing_edges(k2)
                    opt = row2.get("optional")
                    if opt and opt in none_atoms:
                        edges.append((none_atoms[opt][0].id, not none_atoms[opt][1]))
                    if row2.get("alts"):
                        for alt in row2["alts"]:
                            e2 = [((n.id, False) if rel == "fail" else (n.id, True)) for n, rel, w in row_atoms[k2] if w == alt]
                            if not cfg.must_pass(rf.id, via_edges=e2):
                                bad.append(k2)
                    elif not cfg.must_pass(rf.id, via_edges=edges):
                        bad.append(k2)
                if bad:
                    r_bind.violation(cons, "fallthrough-under-other-guard:" + ",".join(sorted(set(bad))), f"the default reason {k} can be returned although {sorted(set(bad))} was not passed", fn.loc(rf.ast))
                else:
                    r_bind.ok(cons, "default reason reached only after every other constraint passed", fn.loc(rf.ast))
                continue
            edges = failing_edges(k)
            if not edges:
                r_bind.violation(cons, "reason-without-guard", f"reason {k} is returned but its constraint ({describe(row)}) is never tested", fn.loc(rf.ast))
            elif cfg.must_pass(rf.id, via_edges=edges):
                r_bind.ok(cons, f"returned only when {describe(row)}", fn.loc(rf.ast))
            else:
                r_bind.violation(cons, "reason-under-other-guard", f"`return False, Explanation.{k}` is reachable without the {k} constraint failing ({describe(row)}): the stated reason can be untrue", fn.loc(rf.ast))
        elif isinstance(why, ast.Name):
            # propagated reason of the super() chain: must be under `not line_of_sight`
            cons = f"{fn.qualname}:return-False@super"
            edges = [(n.id, False) for n, _rel, _w in row_atoms.get("__super__", [])]
            if edges and cfg.must_pass(rf.id, via_edges=edges):
                r_bind.ok(cons, "base-class reason propagated only when the base check failed", fn.loc(rf.ast))
            else:
                r_bind.violation(cons, "propagated-reason-unguarded", "the base-class reason is returned on a path where the base-class check did not fail", fn.loc(rf.ast))
        else:
            r_bind.undecided(f"{fn.qualname}:return-False", f"reason expression `{unparse(why)}` not understood", fn.loc(rf.ast))
    return rows, row_atoms


def describe(row):
    if row.get("kind") == CMP:
        if row.get("alts"):
            return " or ".join(f"{a} {o} {b}" for a, o, b in row["alts"]) + " fails it"
        return f"fails when {row['lhs']} {row['op']} {row['rhs']}"
    if row.get("kind") == BOOL and "helper" in row:
        return f"fails when {row['helper']}() is {row['fails_when']}"
    return "base-class check"


def rule_isvisible(chk, p, t, rids=("C02.R2", "C02.R3", "C02.R4")):
    r_cov = chk.rule(rids[0], "constraint coverage", 12, "every `return True` of each sensor class' isVisible chain is preceded on all paths by the passing test of each constraint atom of that class (optional constraints: `x is not None and cmp`)", "that each predicate equals the exact geometry")
    r_bind = chk.rule(rids[1], "reason binding", 14, "every `return False, Explanation.X` / MissedObservation(reason=X) is control-dependent on X's constraint failing; the fall-through azimuth reason is reached only after every other check passed")
    r_pol = chk.rule(rids[2], "comparator polarity", 10, "each threshold guard compares the documented operands with the documented operator (a moved boundary `<` vs `<=` is reported)")
    sensor = p.cls(SENSOR)
    impls = [(sensor.methods["isVisible"], "Sensor")]
    for sc in p.subclasses(sensor):
        m = sc.methods.get("isVisible")
        if m is not None:
            owner = "Radar" if "Radar" in sc.name else ("Optical" if "Optical" in sc.name else sc.name)
            impls.append((m, owner))
    owners = {o for _m, o in impls}
    for need in ("Sensor", "Radar", "Optical"):
        if need not in owners:
            r_cov.error(need, f"no isVisible implementation found for {need}")
    for m, owner in impls:
        if owner not in ("Sensor", "Radar", "Optical"):
            r_cov.undecided(m.qualname, f"unknown sensor class {owner}: no constraint rows", m.loc())
            continue
        r_cov.guard(m.qualname, analyse_isvisible, p, m, owner, r_cov, r_bind, r_pol)
        # super() call forwards the same arguments in order
        if owner != "Sensor":
            def sup(m=m):
                calls = [c for c in walk_no_nested(m.node) if isinstance(c, ast.Call) and isinstance(c.func, ast.Attribute) and c.func.attr == "isVisible" and isinstance(c.func.value, ast.Call) and call_name(c.func.value) == "super"]
                require(len(calls) == 1, "subclass isVisible does not call super().isVisible exactly once", m.node)
                args = [unparse(a) for a in calls[0].args]
                if args == m.params[1:]:
                    r_cov.ok(m.qualname + ":super-args", "base check evaluated on the same arguments", m.loc(calls[0]))
                else:
                    r_cov.violation(m.qualname + ":super-args", f"super-args:{args}", f"super().isVisible is called with {args}, expected {m.params[1:]}", m.loc(calls[0]))
                # final `return True, explanation` propagates the base verdict
            r_cov.guard(m.qualname + ":super", sup)
    # reasons that are enum members but have no table row
    expl = p.cls("resonaate.common.labels.Explanation")
    for mem in p.enum_members(expl):
        if mem != "VISIBLE" and mem not in TABLE:
            r_bind.undecided(f"Explanation.{mem}", "new miss reason without a row in the constraint table")
    # operands of the guards: measured on the same slant range / target / sensor
    optical = [m for m, o in impls if o == "Optical"]
    for m in optical:
        def operands(m=m):
            from rsa.terms import canon as _canon, inline_locals as _inl, negated as _neg

            require(len(m.params) >= 5, "Optical.isVisible(self, target state, cross-section, reflectivity, slant range) expected", m.node)
            p_tgt, p_vcs, p_refl, p_slant = m.params[1:5]
            SUN = "Sun.getPosition(self.host.julian_date_epoch)"
            HOST = "self.host.eci_state"
            BORE = f"({p_tgt} - {HOST})"
            PHASE = f"calculatePhaseAngle({SUN}, {p_tgt}[:3], {HOST}[:3])"
            exp = {
                "calculateIncidentSolarFlux": [p_vcs, f"{p_tgt}[:3]", SUN],
                "calculatePhaseAngle": [SUN, f"{p_tgt}[:3]", f"{HOST}[:3]"],
                "apparentVisualMagnitude": [p_vcs, p_refl, f"lambertianPhaseFunction({PHASE})", f"norm({BORE})"],
                "checkGalacticExclusionZone": [f"{BORE}[:3]"],
                "checkSpaceSensorLightingConditions": [f"{BORE}[:3]", None],
                "checkSpaceSensorEarthLimbObscuration": [HOST, p_slant],
                "checkGroundSensorLightingConditions": [f"{HOST}[:3]", f"{SUN} / norm({SUN})"],
            }

            def cn(txt):
                return _canon(ast.parse(txt, mode="eval").body)

            bad = []
            for fn_, args in exp.items():
                calls = find_calls(m.node, fn_)
                if len(calls) != 1:
                    bad.append(f"{fn_} is called {len(calls)} times")
                    continue
                got = [_inl(m, a) for a in calls[0].args] + [_inl(m, k.value) for k in calls[0].keywords]
                if len(got) != len(args):
                    bad.append(f"{fn_} gets {len(got)} arguments")
                    continue
                for i, (g, want) in enumerate(zip(got, args)):
                    if want is None:
                        # the unit vector from the target to the Sun: (sun - target) / |sun - target|
                        ok_tsu = False
                        if isinstance(g, ast.BinOp) and isinstance(g.op, ast.Div) and isinstance(g.right, ast.Call) and call_name(g.right) == "norm" and g.right.args:
                            inner = g.right.args[0]
                            ok_tsu = _canon(g.left) == cn(f"{SUN} - {p_tgt}[:3]") and (_canon(inner) == _canon(g.left) or _neg(inner, g.left))
                        if not ok_tsu:
                            bad.append(f"{fn_} argument {i + 1} = `{unparse(g)[:90]}` (expected the unit vector from the target to the Sun, (sun - target)/|sun - target|)")
                    elif _canon(g) != cn(want):
                        bad.append(f"{fn_} argument {i + 1} = `{unparse(g)[:90]}` (expected `{want}`)")
            if bad:
                r_pol.violation(m.qualname + ":operands", "operands:" + ";".join(bad), "optical visibility helpers are evaluated on the wrong operands: " + "; ".join(bad), m.loc())
            else:
                r_pol.ok(m.qualname + ":operands", "helpers evaluated on target/sensor/Sun at the sensor's epoch", m.loc())
        r_pol.guard(m.qualname + ":operands", operands)
    base = sensor.methods["isVisible"]

    def base_operands():
        calls = find_calls(base.node, "lineOfSight")
        require(len(calls) == 1, "Sensor.isVisible does not call lineOfSight once", base.node)
        args = {unparse(a) for a in calls[0].args}
        if args == {"tgt_eci_state[:3]", "self.host.eci_state[:3]"}:
            r_pol.ok(base.qualname + ":lineOfSight", "line of sight between target and sensor positions", base.loc(calls[0]))
        else:
            r_pol.violation(base.qualname + ":lineOfSight", f"los-operands:{sorted(args)}", f"lineOfSight is evaluated on {sorted(args)}", base.loc(calls[0]))
        for c in find_calls(base.node, "getRange") + find_calls(base.node, "getAzimuth") + find_calls(base.node, "getElevation"):
            if unparse(c.args[0]) != base.params[4]:
                r_pol.violation(base.qualname + ":slant", f"slant-operand:{unparse(c)}", f"`{unparse(c)}` is not evaluated on the slant range vector passed in", base.loc(c))
        r_pol.ok(base.qualname + ":slant", "range / azimuth / elevation of the slant range vector passed in", base.loc())

    r_pol.guard(base.qualname + ":operands", base_operands)


def rule_r1(chk, p, t):
    r = chk.rule(
        "C02.R1",
        "pipeline dominance",
        4,
        "every reported observation is dominated by inFieldOfView(+) and isVisible(+) in attemptObservation and by "
        "canSlew(+) in collectObservations; predicted observations by canSlew(+) and isVisible(+)",
    )
    att = p.func(f"{SENSOR}.attemptObservation")

    def one():
        cfg = cfg_of(att)
        defs = single_defs(att.node)
        obs = [n for n in cfg.nodes if n.kind == "return" and isinstance(n.ast.value, ast.Call) and call_name(n.ast.value) == "fromMeasurement"]
        require(len(obs) == 1, "attemptObservation does not return Observation.fromMeasurement exactly once", att.node)
        unpacked = {}
        for n in walk_no_nested(att.node):
            if isinstance(n, ast.Assign) and isinstance(n.targets[0], ast.Tuple) and isinstance(n.value, ast.Call):
                first = n.targets[0].elts[0]
                if isinstance(first, ast.Name):
                    unpacked[first.id] = call_name(n.value)
        for helper, reason in (("inFieldOfView", "FIELD_OF_VIEW"), ("isVisible", None)):
            edges = []
            for n in cfg.nodes:
                if n.kind == "cond":
                    cl = classify_atom(n.ast, defs, unpacked)
                    if cl and cl[0] == "bool" and cl[1] == helper:
                        edges.append((n.id, True))
            cons = f"{att.qualname}:{helper}"
            if edges and cfg.must_pass(obs[0].id, via_edges=edges):
                r.ok(cons, f"the observation is returned only after {helper} succeeded", att.loc(obs[0].ast))
            else:
                r.violation(cons, f"observation-without-{helper}", f"a path returns an Observation without {helper} having succeeded", att.loc(obs[0].ast))
        # misses inside attemptObservation carry their own reasons
        for n in cfg.nodes:
            if n.kind == "return" and isinstance(n.ast.value, ast.Call) and call_name(n.ast.value) == "MissedObservation":
                kws = {k.arg: k.value for k in n.ast.value.keywords}
                rs = kws.get("reason")
                txt = unparse(rs) if rs is not None else ""
                if txt == "Explanation.FIELD_OF_VIEW.value":
                    edges = [(c.id, False) for c in cfg.nodes if c.kind == "cond" and (cl := classify_atom(c.ast, defs, unpacked)) and cl[0] == "bool" and cl[1] == "inFieldOfView"]
                    good = bool(edges) and cfg.must_pass(n.id, via_edges=edges)
                    what = "FIELD_OF_VIEW"
                elif txt == "reason.value":
                    edges = [(c.id, False) for c in cfg.nodes if c.kind == "cond" and (cl := classify_atom(c.ast, defs, unpacked)) and cl[0] == "bool" and cl[1] == "isVisible"]
                    good = bool(edges) and cfg.must_pass(n.id, via_edges=edges)
                    # `reason` must be the second value of the same isVisible call
                    good = good and any(isinstance(a, ast.Assign) and isinstance(a.targets[0], ast.Tuple) and [unparse(x) for x in a.targets[0].elts] == ["visibility", "reason"] for a in walk_no_nested(att.node))
                    what = "isVisible's reason"
                else:
                    r.violation(f"{att.qualname}:miss", f"miss-reason:{txt}", f"a miss is built with reason `{txt}`", att.loc(n.ast))
                    continue
                if good:
                    r.ok(f"{att.qualname}:miss:{what}", "miss returned only when its check failed", att.loc(n.ast))
                else:
                    r.violation(f"{att.qualname}:miss:{what}", "miss-under-other-guard", f"a miss stating {what} is reachable without that check failing", att.loc(n.ast))

    r.guard(att.qualname, one)
    col = p.func(f"{SENSOR}.collectObservations")

    def two():
        cfg = cfg_of(col)
        slew = [(n.id, True) for n in cfg.nodes if n.kind == "cond" and isinstance(n.ast, ast.Call) and call_name(n.ast) == "canSlew"]
        require(slew, "collectObservations does not branch on canSlew(...)", col.node)
        adds = [n for n in cfg.nodes if n.kind == "stmt" and isinstance(n.ast, ast.Expr) and isinstance(n.ast.value, ast.Call) and call_name(n.ast.value) in ("append", "extend") and unparse(n.ast.value.func.value) == "obs_list"]
        require(adds, "collectObservations never adds to obs_list", col.node)
        for a in adds:
            cons = f"{col.qualname}:{unparse(a.ast.value)[:50]}"
            if cfg.must_pass(a.id, via_edges=slew):
                r.ok(cons, "reported only after canSlew succeeded", col.loc(a.ast))
            else:
                r.violation(cons, "observation-without-canSlew", f"`{unparse(a.ast.value)[:70]}` adds reported observations on a path where canSlew did not succeed: observations the sensor could not have slewed to", col.loc(a.ast))
        # slew miss
        for n in cfg.nodes:
            if n.kind == "stmt" and isinstance(n.ast, ast.Expr) and isinstance(n.ast.value, ast.Call) and call_name(n.ast.value) == "append" and n.ast.value.args and isinstance(n.ast.value.args[0], ast.Call) and call_name(n.ast.value.args[0]) == "MissedObservation":
                kws = {k.arg: unparse(k.value) for k in n.ast.value.args[0].keywords}
                cons = f"{col.qualname}:slew-miss"
                if kws.get("reason") == "Explanation.SLEW_DISTANCE.value" and cfg.must_pass(n.id, via_edges=[(i, False) for i, _ in slew]):
                    r.ok(cons, "SLEW_DISTANCE miss only when canSlew failed", col.loc(n.ast))
                else:
                    r.violation(cons, f"slew-miss:{kws.get('reason')}", "the slew miss is recorded with another reason or on a path where canSlew did not fail", col.loc(n.ast))
        # canSlew evaluated on the commanded pointing
        c = [x for x in find_calls(col.node, "canSlew")][0]
        defs = single_defs(col.node)
        ptg = defs.get(unparse(c.args[0])) if c.args and isinstance(c.args[0], ast.Name) else None
        ok = ptg is not None and isinstance(ptg, ast.Call) and call_name(ptg) == "getSlantRangeVector" and [unparse(a) for a in ptg.args] == ["self.host.eci_state", col.params[1], "self.host.datetime_epoch"]
        if ok:
            r.ok(f"{col.qualname}:pointing", "pointing = slant range from the host to the estimate at the host's epoch", col.loc(c))
        else:
            r.violation(f"{col.qualname}:pointing", f"pointing:{unparse(ptg) if ptg is not None else None}", "the commanded pointing is not getSlantRangeVector(host state, estimate state, host epoch)", col.loc(c))

    r.guard(col.qualname, two)
    cs = p.func(f"{SENSOR}.canSlew")

    def three():
        rets = [n for n in walk_no_nested(cs.node) if isinstance(n, ast.Return)]
        require(len(rets) == 1 and isinstance(rets[0].value, ast.Compare), "canSlew does not end in a comparison", cs.node)
        from rsa.terms import canon, inline_locals

        e = inline_locals(cs, rets[0].value)
        want = canon(ast.parse("self.slew_rate * (self.host.time - self.time_last_tasked)", mode="eval").body)
        ok = len(e.ops) == 1 and isinstance(e.ops[0], ast.GtE) and canon(e.left) == want and isinstance(e.comparators[0], ast.Call) and call_name(e.comparators[0]) == "deltaBoresight"
        ok2 = len(e.ops) == 1 and isinstance(e.ops[0], ast.LtE) and canon(e.comparators[0]) == want and isinstance(e.left, ast.Call) and call_name(e.left) == "deltaBoresight"
        if ok or ok2:
            r.ok(cs.qualname, "slew_rate * (now - last tasked) >= angular distance to the new pointing", cs.loc())
        else:
            r.violation(cs.qualname, f"canSlew:{unparse(e)}", f"canSlew returns `{unparse(e)}`, expected slew_rate * (time - time_last_tasked) >= deltaBoresight(pointing)", cs.loc())

    r.guard(cs.qualname, three)
    pr = p.func("resonaate.tasking.predictions.predictObservation")

    def four():
        cfg = cfg_of(pr)
        obs = [n for n in cfg.nodes if n.kind == "return" and isinstance(n.ast.value, ast.Call) and call_name(n.ast.value) == "fromMeasurement"]
        require(len(obs) == 1, "predictObservation does not return one Observation", pr.node)
        defs = single_defs(pr.node)
        unpacked = {}
        for n in walk_no_nested(pr.node):
            if isinstance(n, ast.Assign) and isinstance(n.targets[0], ast.Tuple) and isinstance(n.value, ast.Call) and isinstance(n.targets[0].elts[0], ast.Name):
                unpacked[n.targets[0].elts[0].id] = call_name(n.value)
        for helper in ("canSlew", "isVisible"):
            edges = [(c.id, True) for c in cfg.nodes if c.kind == "cond" and (cl := classify_atom(c.ast, defs, unpacked)) and cl[0] == "bool" and cl[1] == helper]
            if edges and cfg.must_pass(obs[0].id, via_edges=edges):
                r.ok(f"{pr.qualname}:{helper}", f"predicted observation only after {helper} succeeded", pr.loc())
            else:
                r.violation(f"{pr.qualname}:{helper}", f"prediction-without-{helper}", f"a predicted observation is produced without {helper} having succeeded", pr.loc())

    r.guard(pr.qualname, four)


def rule_r5(chk, p, t):
    r = chk.rule(
        "C02.R5",
        "exactly one primary record",
        1,
        "on every path of collectObservations exactly one object concerning the tasked target is appended to the "
        "observation list or the miss list",
    )
    col = p.func(f"{SENSOR}.collectObservations")

    def one():
        cfg = cfg_of(col)
        tgt = col.params[2]
        defs = single_defs(col.node)

        plain = {}
        for n in walk_no_nested(col.node):
            if isinstance(n, ast.Assign) and len(n.targets) == 1 and isinstance(n.targets[0], ast.Name):
                plain.setdefault(n.targets[0].id, []).append(n.value)

        def concerns_target(e):
            if isinstance(e, ast.Name) and e.id in defs:
                return concerns_target(defs[e.id])
            if isinstance(e, ast.Name) and e.id in plain:
                return any(concerns_target(v) for v in plain[e.id])
            if isinstance(e, ast.Call):
                nm = call_name(e)
                if nm == "attemptObservation":
                    return bool(e.args) and isinstance(e.args[0], ast.Name) and e.args[0].id == tgt
                if nm == "MissedObservation":
                    return any(k.arg == "target_id" and unparse(k.value) == f"{tgt}.simulation_id" for k in e.keywords)
            return False

        primary_nodes = set()
        for n in cfg.nodes:
            if n.kind == "stmt" and isinstance(n.ast, ast.Expr) and isinstance(n.ast.value, ast.Call) and call_name(n.ast.value) == "append":
                c = n.ast.value
                if unparse(c.func.value) in ("obs_list", "missed_observation_list") and c.args and concerns_target(c.args[0]):
                    primary_nodes.add(n.id)
        require(primary_nodes, "no append concerning the tasked target found", col.node)
        # a record may also be handed back directly: `return [], [MissedObservation(...)], ...` - the literal lists in
        # the observation / miss slots of a return count like appends on that path
        ret_records = {}
        for n in cfg.nodes:
            if n.kind == "return" and n.ast is not None and isinstance(n.ast.value, ast.Tuple) and len(n.ast.value.elts) >= 2:
                k = 0
                for slot in n.ast.value.elts[:2]:
                    if isinstance(slot, ast.List):
                        k += sum(1 for x in slot.elts if concerns_target(x))
                if k:
                    ret_records[n.id] = k
        paths = cfg.paths(targets=[cfg.exit.id])
        r.paths_enumerated += len(paths)
        counts = {}
        for path in paths:
            c = sum(1 for nid, _ in path if nid in primary_nodes) + sum(ret_records.get(nid, 0) for nid, _ in path)
            counts.setdefault(c, []).append(path)
        bad = {c: ps for c, ps in counts.items() if c != 1}
        if bad:
            c, ps = sorted(bad.items())[0]
            lines = [cfg.nodes[i].lineno for i, _ in ps[0] if cfg.nodes[i].lineno]
            r.violation(col.qualname, f"primary-records:{sorted(bad)}", f"{len(ps)} path(s) of collectObservations record the tasked target {c} times (must be exactly once), e.g. through lines {lines[:10]}", col.loc())
        else:
            r.ok(col.qualname, f"{len(paths)} paths, each appends exactly one record of the tasked target", col.loc())
        # observation vs miss decided by the reason of the attempt
        conds = [n for n in cfg.nodes if n.kind == "cond" and ("reason" in unparse(n.ast) or "isinstance" in unparse(n.ast))]
        # the tested object is the primary attempt itself, whatever the local is called
        def is_split(tst):
            if isinstance(tst, ast.Compare) and len(tst.ops) == 1 and isinstance(tst.ops[0], ast.Eq) and isinstance(tst.left, ast.Attribute) and tst.left.attr == "reason" and unparse(tst.comparators[0]) == "Explanation.VISIBLE":
                return concerns_target(tst.left.value)
            if isinstance(tst, ast.Call) and call_name(tst) == "isinstance" and len(tst.args) == 2 and unparse(tst.args[1]) == "Observation":
                return concerns_target(tst.args[0])
            return False

        ok = any(is_split(n.ast) for n in conds)
        if ok:
            r.ok(col.qualname + ":split", "attempt goes to the observation list iff it is visible", col.loc())
        else:
            r.violation(col.qualname + ":split", f"split:{[unparse(n.ast) for n in conds]}", "the attempt is not routed by `observation.reason == Explanation.VISIBLE`", col.loc())

    r.guard(col.qualname, one)


def rule_r6(chk, p, t):
    r = chk.rule(
        "C02.R6",
        "background discipline",
        4,
        "the primary target's handle is removed before the background set is materialised; background attempts use "
        "the commanded pointing, are kept only if they are observations, and are gated by canSlew",
    )
    w = p.func("resonaate.parallel.tasking_execution.asyncExecuteTasking")

    def one():
        dels = [n for n in walk_no_nested(w.node) if isinstance(n, ast.Delete)]
        vals = [c for c in walk_no_nested(w.node) if isinstance(c, ast.Call) and isinstance(c.func, ast.Attribute) and c.func.attr == "values" and "target_handles" in unparse(c.func.value)]
        require(len(vals) == 1, "worker does not read target_handles.values() exactly once", w.node)
        good = [d for d in dels if "target_handles" in unparse(d) and "simulation_id" in unparse(d)]
        # `handles.pop(id)` looks the primary up and removes it in one step
        pops = [c for c in walk_no_nested(w.node) if isinstance(c, ast.Call) and isinstance(c.func, ast.Attribute) and c.func.attr == "pop" and "target_handles" in unparse(c.func.value) and c.args and "simulation_id" in unparse(c.args[0])]
        good = good + pops
        if good and min(g.lineno for g in good) < vals[0].lineno:
            r.ok(w.qualname + ":exclude-primary", "primary handle deleted before the background list is built", w.loc(good[0]))
        else:
            r.violation(w.qualname + ":exclude-primary", "primary-in-background", "the background target list is built before (or without) removing the primary target: the primary can be reported twice", w.loc(vals[0]))
        co = find_calls(w.node, "collectObservations")
        require(len(co) == 1, "worker does not call collectObservations once", w.node)
        defs = single_defs(w.node)
        args = [unparse(a) for a in co[0].args]
        d_primary = defs.get(args[1]) if len(args) > 1 else None
        d_bg = defs.get(args[2]) if len(args) > 2 else None
        ok = len(args) == 3 and args[0] == "estimate_agent.eci_state" and d_primary is not None and "primary_tgt_handle" in unparse(d_primary) and d_bg is not None and "values()" in unparse(d_bg)
        if ok:
            r.ok(w.qualname + ":args", "collectObservations(estimate state, primary target, background targets)", w.loc(co[0]))
        else:
            r.violation(w.qualname + ":args", f"args:{args}", f"collectObservations is called with {args}", w.loc(co[0]))
        ph = defs.get("primary_tgt_handle")
        if ph is not None and unparse(ph) in ("submission.target_handles[estimate_agent.simulation_id]", "submission.target_handles.pop(estimate_agent.simulation_id)"):
            r.ok(w.qualname + ":primary", "primary = the target with the tasked estimate's id", w.loc())
        else:
            r.violation(w.qualname + ":primary", f"primary:{unparse(ph) if ph is not None else None}", "the primary target is not target_handles[estimate.simulation_id]", w.loc())

    r.guard(w.qualname, one)
    col = p.func(f"{SENSOR}.collectObservations")

    def two():
        # the background attempts: a comprehension over the background list, or the equivalent loop
        all_att = find_calls(col.node, "attemptObservation")
        pmap = parents_map(col.node)

        def enclosing(x, kinds):
            cur = x
            while cur in pmap:
                cur = pmap[cur]
                if isinstance(cur, kinds):
                    return cur
            return None

        bg = []
        for a_ in all_att:
            comp = enclosing(a_, (ast.ListComp, ast.GeneratorExp))
            loop = enclosing(a_, (ast.For,))
            if comp is not None:
                bg.append((a_, comp.generators[0].target, comp.generators[0].iter, "comp", comp))
            elif loop is not None:
                bg.append((a_, loop.target, loop.iter, "loop", loop))
        require(len(bg) == 1, "no background comprehension / loop over attemptObservation", col.node)
        att, var, it, form, host = bg[0]
        prim = [x for x in all_att if x is not att]
        require(len(prim) == 1, "no primary attempt", col.node)
        if unparse(att.args[1]) == unparse(prim[0].args[1]) and isinstance(var, ast.Name) and unparse(att.args[0]) == var.id and unparse(it) == col.params[3]:
            r.ok(col.qualname + ":background-pointing", "background attempts use the commanded pointing over background_agents", col.loc(host))
        else:
            r.violation(col.qualname + ":background-pointing", f"bg:{unparse(att)}", f"background attempt `{unparse(att)}` does not use the primary's pointing over the background list", col.loc(host))
        if form == "comp":
            filt = any(isinstance(x, ast.Call) and call_name(x) == "isinstance" and "Observation" in unparse(x) and "Missed" not in unparse(x) for i in host.generators[0].ifs for x in ast.walk(i))
        else:
            # loop form: whatever is appended to the reported list is control-dependent on `isinstance(<attempt>, Observation)`
            cfgc = cfg_of(col)
            defs_l = {}
            for n in ast.walk(host):
                if isinstance(n, ast.Assign) and len(n.targets) == 1 and isinstance(n.targets[0], ast.Name) and n.value is att:
                    defs_l[n.targets[0].id] = att
            apps = [c for c in ast.walk(host) if isinstance(c, ast.Call) and call_name(c) in ("append", "extend") and c.args and (c.args[0] is att or (isinstance(c.args[0], ast.Name) and c.args[0].id in defs_l))]
            filt = bool(apps)
            for c in apps:
                conds = [(unparse(cfgc.nodes[cid].ast), lab) for cid, lab in cfgc.control_conditions(cfgc.node_of(c).id) if cfgc.nodes[cid].kind == "cond"]
                if not any(txt.startswith("isinstance(") and "Observation" in txt and "Missed" not in txt and lab is True for txt, lab in conds):
                    filt = False
        if filt:
            r.ok(col.qualname + ":background-filter", "only Observation results are kept", col.loc(host))
        else:
            r.violation(col.qualname + ":background-filter", "bg-filter", "background misses are not filtered out of the reported observations", col.loc(host))

    r.guard(col.qualname + ":background", two)


def rule_r7(chk, p, t):
    r = chk.rule(
        "C02.R7",
        "measurement provenance",
        4,
        "the target state measured is the one tested for field of view and visibility; sensor state and epoch are the "
        "host's; noise only on real observations; the measurement model receives (sensor, target, instant)",
        "noise magnitude",
    )
    att = p.func(f"{SENSOR}.attemptObservation")

    def one():
        fm = [c for c in walk_no_nested(att.node) if isinstance(c, ast.Call) and call_name(c) == "fromMeasurement"]
        require(len(fm) == 1, "no fromMeasurement call", att.node)
        kws = {k.arg: unparse(k.value) for k in fm[0].keywords}
        exp = dict(epoch_jd="self.host.julian_date_epoch", target_id=f"{att.params[1]}.simulation_id", sensor_id="self.host.simulation_id", sensor_eci="self.host.eci_state", measurement="self._measurement", noisy="True")
        bad = [f"{k}={kws.get(k)}" for k, v in exp.items() if kws.get(k) != v and not (k == "measurement" and kws.get(k) == "self.measurement")]
        st = kws.get("tgt_eci_state")
        sl = find_calls(att.node, "getSlantRangeVector")
        vis = find_calls(att.node, "isVisible")
        fov = find_calls(att.node, "inFieldOfView")
        require(len(sl) == 1 and len(vis) == 1 and len(fov) == 1, "expected one getSlantRangeVector / isVisible / inFieldOfView call", att.node)
        if [unparse(a) for a in sl[0].args] != ["self.host.eci_state", st, "self.host.datetime_epoch"]:
            bad.append(f"slant range of {[unparse(a) for a in sl[0].args]}")
        if unparse(vis[0].args[0]) != st:
            bad.append(f"isVisible tests {unparse(vis[0].args[0])}, measurement uses {st}")
        vargs = [unparse(a) for a in vis[0].args]
        if vargs[1:3] != [f"{att.params[1]}.visual_cross_section", f"{att.params[1]}.reflectivity"]:
            bad.append(f"isVisible target properties {vargs[1:3]}")
        defs = single_defs(att.node)
        sname = None
        for k, v in defs.items():
            if v is sl[0]:
                sname = k
        if sname is None or [unparse(a) for a in fov[0].args] != [att.params[2], sname] or vargs[3] != sname:
            bad.append(f"field of view / visibility not tested on the computed slant range ({[unparse(a) for a in fov[0].args]}, {vargs[3:]})")
        if bad:
            r.violation(att.qualname, "provenance:" + ";".join(bad), "the reported measurement is not taken from the geometry that was tested: " + "; ".join(bad), att.loc(fm[0]))
        else:
            r.ok(att.qualname, "same target state tested and measured; host state/epoch; noisy=True", att.loc(fm[0]))

    r.guard(att.qualname, one)
    pr = p.func("resonaate.tasking.predictions.predictObservation")

    def two():
        fm = [c for c in walk_no_nested(pr.node) if isinstance(c, ast.Call) and call_name(c) == "fromMeasurement"]
        require(len(fm) == 1, "no fromMeasurement call", pr.node)
        kws = {k.arg: unparse(k.value) for k in fm[0].keywords}
        if kws.get("noisy") == "False":
            r.ok(pr.qualname, "predicted observations are noise-free", pr.loc(fm[0]))
        else:
            r.violation(pr.qualname, f"noisy:{kws.get('noisy')}", "predicted observations must not draw measurement noise", pr.loc(fm[0]))

    r.guard(pr.qualname, two)
    fmf = p.func("resonaate.data.observation.Observation.fromMeasurement")

    def three():
        cm = find_calls(fmf.node, "calculateMeasurement")
        require(len(cm) == 1, "fromMeasurement does not call calculateMeasurement once", fmf.node)
        args = [unparse(a) for a in cm[0].args]
        kws = {k.arg: unparse(k.value) for k in cm[0].keywords}
        defs = single_defs(fmf.node)
        inst = defs.get(args[2]) if len(args) > 2 else None
        ok = args[:2] == ["sensor_eci", "tgt_eci_state"] and kws.get("noisy") == "noisy" and inst is not None and unparse(inst) == "julianDateToDatetime(JulianDate(epoch_jd))"
        ctor = [c for c in walk_no_nested(fmf.node) if isinstance(c, ast.Call) and isinstance(c.func, ast.Name) and c.func.id == fmf.params[0]]
        ck = {k.arg: unparse(k.value) for k in ctor[0].keywords if k.arg} if ctor else {}
        ok = ok and ck.get("julian_date") == "epoch_jd" and ck.get("target_id") == "target_id" and ck.get("sensor_id") == "sensor_id" and ck.get("sensor_eci") == "sensor_eci"
        if ok:
            r.ok(fmf.qualname, "calculateMeasurement(sensor, target, instant of the epoch, noisy=noisy)", fmf.loc(cm[0]))
        else:
            r.violation(fmf.qualname, f"model-args:{args}:{sorted(kws.items())}:{sorted(ck.items())}", f"the measurement model is called with {args} {kws}; the observation row is built with {ck}", fmf.loc(cm[0]))
        calc = p.func("resonaate.physics.measurements.Measurement.calculateMeasurement")
        noisy_if = [n for n in walk_no_nested(calc.node) if isinstance(n, ast.If) and unparse(n.test) == calc.params[4]]
        adds = [n for i in noisy_if for n in ast.walk(i) if isinstance(n, ast.AugAssign) and "noise" in unparse(n.value)]
        all_noise = [n for n in walk_no_nested(calc.node) if isinstance(n, (ast.AugAssign, ast.BinOp)) and "self.noise" in unparse(n)]
        if noisy_if and adds and len(all_noise) == len(adds):
            r.ok(calc.qualname, "noise added only under `if noisy`", calc.loc())
        else:
            r.violation(calc.qualname, "noise-unconditional", "measurement noise is not confined to the `if noisy:` branch: noise-free measurements no longer equal the true geometry", calc.loc())

    r.guard(fmf.qualname, three)


def run(chk, p, t):
    chk.explanation = (
        "Static decision of structural necessary conditions of C02 over the CFGs of the observation pipeline: (R1) "
        "every reported (and predicted) observation is dominated by the passing slew / field-of-view / visibility "
        "checks; (R2) each isVisible implementation passes every constraint atom of its class before `return True`; "
        "(R3) each miss reason is control-dependent on its own constraint failing; (R4) guards compare the documented "
        "operands with the documented operator; (R5) exactly one record of the tasked target per path; (R6) "
        "background targets exclude the primary, share the pointing and are slew-gated; (R7) the measurement is taken "
        "from the tested geometry, noise only when requested. NOT decided: that each predicate equals the exact "
        "geometry, boundary cases of the geometry, noise magnitude."
    )
    chk.assumptions += ["the constraint table (Appendix A.2 of DESIGN.md) lists each Explanation member with the source of its guard", "CFG paths do not include exceptions raised by callees"]
    def rule_r8(chk, p, t):
        # the field-of-view predicate the pipeline relies on: shared instances of C14.R1 / C14.R4
        from rules import C14

        C14.rule_r1(chk, p, t, rid="C02.R8")
        C14.rule_r4(chk, p, t, rid="C02.R9")
        C14.rule_r6(chk, p, t, rid="C02.R10")

    def rule_r11(chk, p, t):
        # the reported measurement equals the true geometry: range / azimuth / elevation / range rate are the exact
        # recoveries of the spherical model the SEZ vector is defined by (shared instance of C04.R10)
        from rules import C04

        C04.rule_r10(chk, p, t, rid="C02.R11", parts=("measurement",))


    def rule_r12(chk, p, t):
        """'within the sensor's stated noise': the noise added to the true measurement has the stated covariance R."""
        import ast as _ast

        from rules.C06 import _factor_kind

        r = chk.rule(
            "C02.R12",
            "measurement noise is drawn with the stated covariance",
            2,
            "Measurement.noise is F . (standard normal vector) with F the stored square-root of r_matrix, so F F^T must be R: "
            "the setter stores a symmetric root (scipy.linalg.sqrtm) or the LOWER Cholesky factor (numpy.linalg.cholesky, "
            "scipy.linalg.cholesky(lower=True)) of the validated self._r_matrix; the upper factor U gives noise of covariance "
            "U U^T - equal to R only for a diagonal R. The standard-normal vector has the dimension of R and the noise is "
            "added only when requested (R7)",
            "the random numbers themselves",
        )
        M = p.cls("resonaate.physics.measurements.Measurement")
        noise = M.methods.get("noise")
        setter = p.lookup_setter(M, "r_matrix")
        require(noise is not None and setter is not None, "Measurement.noise / r_matrix setter not found", M.node)

        def one():
            rets = [n for n in walk_no_nested(noise.node) if isinstance(n, _ast.Return) and n.value is not None]
            require(len(rets) == 1, "Measurement.noise: single return expected", noise.node)
            e = rets[0].value
            ops = None
            if isinstance(e, _ast.Call) and call_name(e) in ("matmul", "dot") and len(e.args) == 2:
                ops = e.args
            elif isinstance(e, _ast.BinOp) and isinstance(e.op, _ast.MatMult):
                ops = [e.left, e.right]
            elif isinstance(e, _ast.Call) and isinstance(e.func, _ast.Attribute) and e.func.attr == "dot" and len(e.args) == 1:
                ops = [e.func.value, e.args[0]]
            require(ops is not None, "Measurement.noise is not `factor . random vector`", rets[0])
            fac, vec = ops
            if not (isinstance(vec, _ast.Call) and call_name(vec) in ("randn", "standard_normal", "normal")):
                fac, vec = vec, fac
                if isinstance(vec, _ast.Call) and call_name(vec) in ("randn", "standard_normal", "normal"):
                    # row vector times factor: v F has covariance F^T F - the transposed convention
                    r.violation(noise.qualname, "noise-row-vector", f"the noise is `{unparse(e)[:70]}`: a random ROW vector times the factor has covariance F^T F, not F F^T", noise.loc(rets[0]))
                    return None
                raise Undecided("Measurement.noise: no standard-normal draw found in the product", rets[0])
            transposed = False
            while isinstance(fac, _ast.Attribute) and fac.attr == "T":
                transposed, fac = not transposed, fac.value
            require(isinstance(fac, _ast.Attribute) and isinstance(fac.value, _ast.Name) and fac.value.id == "self", "the noise factor is not a stored attribute", rets[0])
            dim = unparse(vec.args[0]) if vec.args else (unparse(vec.keywords[0].value) if vec.keywords else "")
            if "self._r_matrix.shape[0]" not in dim and "self.dim" not in dim and "len(self._measurements)" not in dim:
                r.violation(noise.qualname + ":dim", f"noise-dim:{dim}", f"the standard-normal vector has dimension `{dim}`, not that of the noise matrix", noise.loc(rets[0]))
            else:
                r.ok(noise.qualname + ":dim", f"standard normal of dimension {dim}", noise.loc(rets[0]))
            return fac.attr, transposed

        got = []
        r.guard(noise.qualname, lambda: got.append(one()))
        if not got or got[0] is None:
            return
        attr, transposed = got[0]

        def two():
            asg = [n for n in walk_no_nested(setter.node) if isinstance(n, _ast.Assign) and unparse(n.targets[0]) == f"self.{attr}"]
            require(len(asg) == 1, f"the r_matrix setter assigns self.{attr} not exactly once", setter.node)
            v = asg[0].value
            tr2 = transposed
            while True:
                if isinstance(v, _ast.Call) and call_name(v) in ("real", "asarray", "array") and len(v.args) == 1:
                    v = v.args[0]
                elif isinstance(v, _ast.Attribute) and v.attr == "T":
                    tr2, v = not tr2, v.value
                elif isinstance(v, _ast.Call) and call_name(v) == "transpose" and len(v.args) == 1:
                    tr2, v = not tr2, v.args[0]
                else:
                    break
            require(isinstance(v, _ast.Call) and v.args, f"self.{attr} is not the result of a square-root call", asg[0])
            k = _factor_kind(setter.module, v)
            arg_ok = unparse(v.args[0]) == "self._r_matrix"
            cons = setter.qualname + ":factor"
            if not arg_ok:
                r.violation(cons, f"noise-factor-of:{unparse(v.args[0])[:40]}", f"the noise factor is the root of `{unparse(v.args[0])[:60]}`, not of the validated self._r_matrix", setter.loc(asg[0]))
            elif k == "symmetric" or (k == "lower" and not tr2) or (k == "upper" and tr2):
                r.ok(cons, f"`{unparse(asg[0].value)[:60]}`: F F^T = R", setter.loc(asg[0]))
            elif k in ("upper", "lower"):
                r.violation(cons, f"noise-factor:{k}:{transposed}", f"the stored noise factor `{unparse(asg[0].value)[:70]}` is the {k} Cholesky factor{' used transposed' if tr2 else ''}: Measurement.noise multiplies it onto a standard-normal vector, so the noise has covariance {'U U^T' if k == 'upper' else 'L^T L'} instead of the stated R - identical for a diagonal R, wrong variances and correlations for any correlated sensor covariance", setter.loc(asg[0]))
            else:
                r.undecided(cons, f"cannot tell which factor `{unparse(asg[0].value)[:60]}` is", setter.loc(asg[0]))

        r.guard(setter.qualname, two)

    def rule_r13(chk, p, t):
        # slew reachability is judged against the sensor's *prior* pointing state, which is what the last executed
        # tasking reported back: sensor -> worker -> engine -> scenario -> sensing agent, every sensor its own values
        # (shared instance of C08.R4)
        from rsa.effects import EffectAnalysis
        from rules import C08

        C08.rule_r4(chk, p, t, EffectAnalysis(p, t), rid="C02.R13")

    def rule_r14(chk, p, t):
        # "by an independent evaluation of the geometry": the optical constraint predicates (line of sight, Earth limb,
        # ground / space lighting, galactic exclusion) keep their documented operands and polarity, so a reported
        # observation passed the real constraint and a miss names one that really fails - shared instance of C14.R3
        from rules import C14

        C14.rule_r3(chk, p, t, rid="C02.R14")

    steps = [("C02.R1", rule_r1), ("C02.R2", rule_isvisible), ("C02.R5", rule_r5), ("C02.R6", rule_r6), ("C02.R7", rule_r7), ("C02.R8", rule_r8), ("C02.R11", rule_r11), ("C02.R12", rule_r12), ("C02.R13", rule_r13), ("C02.R14", rule_r14)]
    for rid, fn in steps:
        if chk.only_rule is not None and chk.only_rule not in (rid, "C02.R3", "C02.R4") and not (rid == "C02.R8" and chk.only_rule in ("C02.R9", "C02.R10")):
            continue
        if chk.only_rule in ("C02.R3", "C02.R4") and fn is not rule_isvisible:
            continue
        try:
            fn(chk, p, t)
        except (Undecided, AnchorError) as e:
            rr = chk.rule(rid + ".x", fn.__name__, 0, "-")
            (rr.undecided if isinstance(e, Undecided) else rr.error)(fn.__name__, str(e))


_ = parents_map
