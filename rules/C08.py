"""C08 - tasking bookkeeping exact and independent of the order parallel jobs finish.

Decides: commutativity of every processResults merge into a shared registrant (effect analysis),
exactly-once accumulation, per-step buffer reset/drain discipline, application of every pointing
update / routing of every observation.  Does NOT decide that numerical values are identical across
schedules (float reduction order, unseeded worker noise).
"""

from __future__ import annotations

import ast

from rsa.cfg import cfg_of
from rsa.effects import EffectAnalysis
from rsa.model import AnchorError, ClassInfo, Undecided, call_name, norm_stmt, unparse, walk_no_nested
from rsa.util import find_calls, parents_map, require

# field of the result object that identifies the job (in 1-1 correspondence with the loop variable
# of the enqueue loop); confirmed by reading the remote functions
JOB_KEY = {
    "TaskingRewardRegistration": "estimate_id",
    "TaskExecutionRegistration": "target_id",
}
EMPTY_LITERALS = ("[]", "{}", "set()", "list()", "dict()")


def enqueue_sites(p):
    out = []
    for fi in p.all_functions(include_nested=True):
        pm = None
        for c in find_calls(fi.node, "enqueueJob"):
            if not c.args or not isinstance(c.args[0], ast.Call):
                out.append((fi, c, None, None, None))
                continue
            ctor = c.args[0]
            name = call_name(ctor)
            pm = pm or parents_map(fi.node)
            loop = None
            cur = c
            while cur in pm:
                cur = pm[cur]
                if isinstance(cur, (ast.For, ast.While)):
                    loop = cur
                    break
            out.append((fi, c, name, ctor, loop))
    return out


def _derives_from(expr, names):
    return any(isinstance(n, ast.Name) and n.id in names for n in ast.walk(expr))


def rule_r1(chk, p, t, ea):
    r = chk.rule(
        "C08.R1",
        "merge commutativity",
        5,
        "every processResults merge into a registrant shared by the jobs of a batch is commutative: in-place "
        "accumulation and keyed stores with job-disjoint keys only; no rebind of a field the closure accumulates into "
        "or whose value depends on the results",
        "float reduction order; RNG draw order in workers",
    )
    reg = p.cls("resonaate.parallel.Registration")
    subs = p.subclasses(reg)
    sites = enqueue_sites(p)
    by_cls = {}
    for fi, c, name, ctor, loop in sites:
        by_cls.setdefault(name, []).append((fi, c, ctor, loop))
    for sc in subs:
        cons = sc.qualname

        def one(sc=sc, cons=cons):
            ss = by_cls.get(sc.name, [])
            require(ss, f"no enqueueJob({sc.name}(...)) site found", sc.node)
            shared = False
            for fi, c, ctor, loop in ss:
                arg0 = ctor.args[0] if ctor.args else None
                require(arg0 is not None, "registration constructed without a registrant", ctor)
                if isinstance(arg0, ast.Name) and arg0.id == "self":
                    shared = True
                elif loop is not None and isinstance(loop, ast.For) and isinstance(arg0, ast.Name) and arg0.id in {n.id for n in ast.walk(loop.target) if isinstance(n, ast.Name)}:
                    # per-job registrant: loop must run over distinct agents (dict values / items)
                    pass
                else:
                    raise Undecided(f"registrant `{unparse(arg0)}` is neither `self` nor the loop variable of the enqueue loop", ctor)
            pr = sc.methods.get("processResults")
            require(pr is not None, "no processResults", sc.node)
            effs = [e for e in ea.effects(pr) if e.path.startswith("self._registrant")]
            if not shared:
                r.trivial(cons, f"per-job registrant (loop variable); {len(effs)} writes confined to that agent", pr.loc())
                return
            results_param = pr.params[1] if len(pr.params) > 1 else "results"
            fields = {}
            for e in effs:
                fields.setdefault(e.path, []).append(e)
            if not effs:
                raise Undecided("shared registrant but no effect of processResults was resolved", pr.node)
            for path, es in sorted(fields.items()):
                kinds = {e.kind for e in es}
                for e in es:
                    c2 = f"{cons}:{path.replace('self._registrant.', '')}"
                    if e.kind == "rebind":
                        dep = e.value is not None and _derives_from(e.value, set(e.func.all_params) - {"self"})
                        if dep or kinds & {"accum", "store"}:
                            r.violation(
                                c2,
                                f"rebind-in-merge:{norm_stmt(e.node)}",
                                f"merge callee {e.func.qualname} rebinds `{path}` (`{norm_stmt(e.node)}`) while the same merge also "
                                f"{'accumulates into / stores to it' if kinds & {'accum', 'store'} else 'derives it from the job results'}: with two jobs in a batch only the last finished job's contribution survives",
                                e.loc(),
                                dict(chain=list(e.chain)),
                            )
                        else:
                            r.ok(c2, f"idempotent rebind `{norm_stmt(e.node)}`", e.loc())
                    elif e.kind == "accum":
                        r.ok(c2, f"in-place accumulation `{norm_stmt(e.node)[:80]}` (commutative as a multiset)", e.loc())
                    elif e.kind == "delete":
                        r.violation(c2, f"delete-in-merge:{norm_stmt(e.node)}", f"merge removes from shared `{path}`: order-dependent", e.loc())
                    elif e.kind == "store":
                        key = e.key
                        jk = JOB_KEY.get(sc.name)
                        # does the key derive only from results.<job key>?
                        srcs = _key_sources(key, e.func, pr, results_param)
                        if srcs is not None and srcs and all(s == jk for s in srcs):
                            r.ok(c2, f"keyed store, key derives from results.{jk} (the job's own identity): disjoint across jobs", e.loc())
                        else:
                            r.violation(
                                c2,
                                f"store-key-not-job-disjoint:{unparse(key)}",
                                f"keyed store `{norm_stmt(e.node)[:90]}` uses key `{unparse(key)}` which does not derive from the job identity results.{jk}: two jobs of one batch can write the same key and the last finished job wins",
                                e.loc(),
                                dict(sources=sorted(srcs) if srcs else None),
                            )

        r.guard(cons, one)


def _key_sources(key, func, pr, results_param):
    """Attributes of ``results`` the key expression derives from (following single-def locals of the
    function holding the store and, one level, parameters bound at the call in processResults)."""
    from rsa.terms import single_defs

    defs = single_defs(func.node)
    srcs = set()
    seen = set()

    def visit(e, fn, fdefs, depth=0):
        if depth > 6:
            return
        for n in ast.walk(e):
            if isinstance(n, ast.Attribute) and isinstance(n.value, ast.Name) and n.value.id == results_param and fn is pr:
                srcs.add(n.attr)
            elif isinstance(n, ast.Name) and n.id in fdefs and (fn.qualname, n.id) not in seen:
                seen.add((fn.qualname, n.id))
                visit(fdefs[n.id], fn, fdefs, depth + 1)
            elif isinstance(n, ast.Name) and fn is not pr and n.id in fn.params and (fn.qualname, n.id) not in seen:
                seen.add((fn.qualname, n.id))
                # bound at the call in processResults
                for c in walk_no_nested(pr.node):
                    if isinstance(c, ast.Call) and call_name(c) == fn.name:
                        params = fn.params[1:] if fn.cls is not None else fn.params
                        idx = params.index(n.id) if n.id in params else None
                        arg = None
                        if idx is not None and idx < len(c.args):
                            arg = c.args[idx]
                        for k in c.keywords:
                            if k.arg == n.id:
                                arg = k.value
                        if arg is not None:
                            visit(arg, pr, single_defs(pr.node), depth + 1)
            elif isinstance(n, ast.Name) and (fn.qualname, n.id) not in seen:
                # loop variable over a parameter-derived list: follow the iterable
                for lp in walk_no_nested(fn.node):
                    if isinstance(lp, ast.For) and any(isinstance(x, ast.Name) and x.id == n.id for x in ast.walk(lp.target)):
                        seen.add((fn.qualname, n.id))
                        visit(lp.iter, fn, fdefs, depth + 1)
    visit(key, func, defs)
    return srcs


def rule_r2(chk, p, t, ea):
    r = chk.rule(
        "C08.R2",
        "exactly-once accumulation",
        5,
        "in the merge closure and in the task-execution worker every element of a results-derived list is added "
        "to each buffer exactly once (an accumulate inside `for x in xs` must add x, not xs; one accumulate per "
        "buffer and source)",
    )
    reg = p.cls("resonaate.parallel.Registration")
    closure = set()
    for sc in p.subclasses(reg):
        pr = sc.methods.get("processResults")
        if pr is None:
            continue
        closure.add(pr)
        for c in walk_no_nested(pr.node):
            if isinstance(c, ast.Call):
                for tg in t.callees(c, pr):
                    if hasattr(tg, "node") and not isinstance(tg, ClassInfo):
                        closure.add(tg)
    closure.add(p.func("resonaate.parallel.tasking_execution.asyncExecuteTasking"))
    for fn in sorted(closure, key=lambda f: f.qualname):
        pm = parents_map(fn.node)
        accs = []
        for n in walk_no_nested(fn.node):
            if isinstance(n, ast.Call) and isinstance(n.func, ast.Attribute) and n.func.attr in ("extend", "append", "update", "add") and n.args:
                accs.append((n, n.func.value, n.args[0], n.func.attr))
            elif isinstance(n, ast.AugAssign) and isinstance(n.op, ast.Add):
                accs.append((n, n.target, n.value, "+="))
        if not accs:
            continue
        per_buffer = {}
        for node, buf, val, how in accs:
            cons = f"{fn.qualname}:{unparse(buf)}"
            loops = [a for a in _ancestors(node, pm) if isinstance(a, ast.For)]
            bad = False
            for lp in loops:
                it = unparse(lp.iter)
                if how in ("extend", "+=", "update") and unparse(val) == it:
                    bad = True
                    r.violation(
                        cons,
                        f"whole-list-per-element:{how}({unparse(val)})",
                        f"`{norm_stmt(node)[:80]}` adds the whole list `{it}` once per element of the loop over it: n elements become n^2 records",
                        fn.loc(node),
                    )
            per_buffer.setdefault(unparse(buf), []).append((node, val, how, bad))
        for buf, lst in per_buffer.items():
            cons = f"{fn.qualname}:{buf}"
            srcs = [unparse(v) for _n, v, _h, _b in lst]
            dups = {s for s in srcs if srcs.count(s) > 1}
            if dups:
                r.violation(cons, f"double-accumulate:{sorted(dups)}", f"buffer `{buf}` receives {sorted(dups)} more than once in {fn.name}: duplicated records", fn.loc(lst[0][0]))
            elif not any(b for *_x, b in lst):
                r.ok(cons, f"receives {srcs} once", fn.loc(lst[0][0]))


def _ancestors(node, pm):
    out = []
    cur = node
    while cur in pm:
        cur = pm[cur]
        out.append(cur)
    return out


def _underlying_field(p, cls, attr):
    """Property -> the self field it returns (single-return getter), else the attr itself."""
    from rsa.terms import property_body

    m = p.lookup_method(cls, attr)
    if m is not None and m.kind == "property":
        b = property_body(m)
        if isinstance(b, ast.Attribute) and isinstance(b.value, ast.Name) and b.value.id == m.params[0]:
            return b.attr
        return None
    return attr


def rule_r3(chk, p, t, ea):
    r = chk.rule(
        "C08.R3",
        "per-step buffer discipline",
        7,
        "every engine field the scenario reads after assess() is rebound to an empty container at assess entry, "
        "before the first job is enqueued, and only accumulated afterwards; the not-yet-written buffers are drained "
        "(read, rebind empty, return) by their accessor; sibling buffers are treated alike",
    )
    engine = p.cls("TaskingEngine")
    step = p.func("Scenario.stepForward")
    # fields read by the scenario from the engine after assess()
    acalls = find_calls(step.node, "assess")
    require(len(acalls) == 1, "stepForward does not call assess exactly once", step.node)
    recv = acalls[0].func.value
    require(isinstance(recv, ast.Name), "assess receiver is not a simple name", acalls[0])
    read = set()
    for n in walk_no_nested(step.node):
        if isinstance(n, ast.Attribute) and isinstance(n.value, ast.Name) and n.value.id == recv.id and isinstance(n.ctx, ast.Load):
            if n.lineno > acalls[0].lineno:
                m = p.lookup_method(engine, n.attr)
                if m is None or m.kind == "property":
                    read.add(n.attr)
    fields = {}
    for a in sorted(read):
        f = _underlying_field(p, engine, a)
        if f is not None:
            fields[f] = a
    # siblings: the missed-observation twin of every observation buffer
    for f in list(fields):
        twin = f.replace("observations", "missed_observations")
        if twin != f and twin in p.instance_attrs(engine):
            fields.setdefault(twin, fields[f].replace("observations", "missed_observations"))
    require(len(fields) >= 3, f"expected >= 3 per-step engine fields read by the scenario, found {sorted(fields)}", step.node)
    for impl in p.overriders(engine, "assess"):
        if any(isinstance(s, ast.Raise) for s in impl.node.body[-1:]):
            continue
        cfg = cfg_of(impl)
        enq = [cfg.node_of(c).id for c in find_calls(impl.node, "enqueueJob")]
        for f, via in sorted(fields.items()):
            cons = f"{impl.qualname}:{f}"

            def one(f=f, cons=cons, impl=impl, cfg=cfg, enq=enq):
                resets = []
                for n in cfg.nodes:
                    if n.kind == "stmt" and isinstance(n.ast, ast.Assign):
                        for tg in n.ast.targets:
                            if isinstance(tg, ast.Attribute) and tg.attr == f and isinstance(tg.value, ast.Name) and tg.value.id == "self":
                                resets.append(n)
                good = [n for n in resets if unparse(n.ast.value) in EMPTY_LITERALS]
                if not good:
                    r.violation(
                        cons,
                        "no-reset-at-assess-entry",
                        f"`self.{f}` is read by the scenario after every assess() but is never reset to an empty container in {impl.name}: records of earlier steps are applied / stored again",
                        impl.loc(),
                    )
                    return
                # the reset must dominate the exit and precede every enqueue (hence every merge)
                ok = False
                for g in good:
                    dom_exit = cfg.must_pass(cfg.exit.id, via_nodes=[g.id])
                    before = all(cfg.must_pass(e, via_nodes=[g.id]) for e in enq)
                    later_reset = [x for x in resets if x is not g and g.id in cfg.reachable(cfg.entry.id) and x.id in cfg.reachable(g.id) and x.id != g.id]
                    if dom_exit and before and not later_reset:
                        ok = True
                if ok:
                    r.ok(cons, "reset to empty at entry, dominates every enqueueJob, no later reset", impl.loc(good[0].ast))
                else:
                    r.violation(cons, "reset-not-before-merge", f"the reset of `self.{f}` does not precede every enqueueJob on all paths (or is repeated later): results merged before it are lost", impl.loc(good[0].ast))

            r.guard(cons, one)
    # no reset of a per-step field anywhere in the merge closure (covered by R1 for shared registrants);
    # drained buffers
    for acc in ("getCurrentObservations", "getCurrentMissedObservations"):
        m = p.lookup_method(engine, acc)
        cons = f"{engine.qualname}.{acc}"

        def drain(m=m, cons=cons):
            require(m is not None, "accessor not found", engine.node)
            body = [s for s in m.node.body if not (isinstance(s, ast.Expr) and isinstance(s.value, ast.Constant))]
            rets = [s for s in body if isinstance(s, ast.Return)]
            require(len(rets) == 1 and isinstance(rets[0].value, ast.Name), "accessor is not `x = self.buf; self.buf = []; return x`", m.node)
            local = rets[0].value.id
            src = None
            reset = None
            for i, s in enumerate(body):
                if isinstance(s, ast.Assign) and isinstance(s.targets[0], ast.Name) and s.targets[0].id == local and isinstance(s.value, ast.Attribute):
                    src = (i, s.value.attr)
                if isinstance(s, ast.Assign) and isinstance(s.targets[0], ast.Attribute) and unparse(s.value) in EMPTY_LITERALS:
                    reset = (i, s.targets[0].attr)
            if src is None:
                raise Undecided("cannot find the read of the buffer", m.node)
            if reset is None or reset[1] != src[1]:
                r.violation(cons, "not-drained", f"{m.name} returns `self.{src[1]}` without rebinding it to an empty list: the same records are written again at the next output", m.loc())
            elif reset[0] < src[0]:
                r.violation(cons, "reset-before-read", f"{m.name} empties `self.{src[1]}` before reading it: records are lost", m.loc())
            else:
                # the drained buffer must be one the merge accumulates into
                r.ok(cons, f"drains self.{src[1]}", m.loc())
            return src[1]

        r.guard(cons, drain)
    # siblings: saveObservations / saveMissedObservations feed a per-step buffer and a saved buffer each
    for meth, step_buf, saved_buf in (("saveObservations", "_observations", "_saved_observations"), ("saveMissedObservations", "_missed_observations", "_saved_missed_observations")):
        m = p.lookup_method(engine, meth)
        cons = f"{engine.qualname}.{meth}"

        def sib(m=m, cons=cons, step_buf=step_buf, saved_buf=saved_buf):
            require(m is not None, "method not found", engine.node)
            effs = {(e.kind, e.field_path) for e in ea.effects(m) if e.root == "self"}
            want = {("accum", step_buf), ("accum", saved_buf)}
            if want <= effs and not any(k == "rebind" for k, _ in effs):
                r.ok(cons, f"accumulates into {step_buf} and {saved_buf}", m.loc())
            else:
                r.violation(cons, f"sibling-buffers:{sorted(effs)}", f"{m.name} must accumulate into both self.{step_buf} and self.{saved_buf} and rebind neither; found {sorted(effs)}", m.loc())

        r.guard(cons, sib)


def rule_r4(chk, p, t, ea, rid="C08.R4"):
    r = chk.rule(
        rid,
        "application of pointing updates and routing of observations",
        8,
        "after assess() the scenario applies every entry of sensor_changes to the agent of that key and routes "
        "every observation to obs_dict[target_id], which feeds exactly that target's update job; the pointing "
        "payload keeps its slots from the sensor through the worker and the engine to the agent",
    )
    step = p.func("Scenario.stepForward")
    pm = parents_map(step.node)

    def apply_changes():
        calls = find_calls(step.node, "updateInfo")
        require(len(calls) == 1, "stepForward does not call updateInfo exactly once", step.node)
        c = calls[0]
        loops = [a for a in _ancestors(c, pm) if isinstance(a, ast.For)]
        require(loops, "updateInfo is not inside a loop over sensor_changes", c)
        lp = loops[0]
        it = lp.iter
        base = it.func.value if isinstance(it, ast.Call) and isinstance(it.func, ast.Attribute) and it.func.attr in ("items", "keys") else it
        if not (isinstance(base, ast.Attribute) and base.attr == "sensor_changes"):
            from rsa.terms import single_defs as _sd

            d = _sd(step.node)
            if not (isinstance(base, ast.Name) and base.id in d and isinstance(d[base.id], ast.Attribute) and d[base.id].attr == "sensor_changes"):
                r.violation(
                    step.qualname + ":sensor_changes",
                    f"changes-applied-over-other-collection:{unparse(it)}",
                    f"pointing updates are applied while iterating `{unparse(it)}`, not the entries of sensor_changes: a tasked sensor that is absent from that collection (e.g. one that slewed and then missed) keeps a stale boresight and time_last_tasked",
                    step.loc(c),
                )
                return
        # unconditional inside the loop, and no break
        inner = [a for a in _ancestors(c, pm) if a is not lp and isinstance(a, (ast.If, ast.Try, ast.While)) and lp in _ancestors(a, pm)]
        has_break = any(isinstance(n, (ast.Break, ast.Return)) for n in ast.walk(lp))
        if inner or has_break:
            r.violation(step.qualname + ":sensor_changes", "conditional-application", "a pointing update is applied only conditionally / the loop can stop early: some tasked sensors keep a stale boresight", step.loc(c))
            return
        keyvars = {n.id for n in ast.walk(lp.target) if isinstance(n, ast.Name)}
        recv = c.func.value
        ok_recv = isinstance(recv, ast.Subscript) and isinstance(recv.slice, ast.Name) and recv.slice.id in keyvars and isinstance(recv.value, ast.Attribute) and recv.value.attr in ("sensor_agents", "_sensor_agents")
        arg = c.args[0] if c.args else None
        ok_arg = (isinstance(arg, ast.Subscript) and isinstance(arg.slice, ast.Name) and arg.slice.id in keyvars and isinstance(arg.value, ast.Attribute) and arg.value.attr == "sensor_changes") or (isinstance(arg, ast.Name) and arg.id in keyvars and isinstance(lp.target, ast.Tuple))
        if ok_recv and ok_arg:
            r.ok(step.qualname + ":sensor_changes", "every entry applied to sensor_agents[key]", step.loc(c))
        else:
            r.violation(step.qualname + ":sensor_changes", "applied-to-wrong-agent", f"updateInfo is called as `{unparse(c)}`: the entry of key k must be applied to sensor_agents[k]", step.loc(c))

    r.guard(step.qualname + ":sensor_changes", apply_changes)

    def route_obs():
        apps = [c for c in find_calls(step.node, "append") if isinstance(c.func.value, ast.Subscript) and isinstance(c.func.value.value, ast.Name)]
        apps = [c for c in apps if c.func.value.value.id == "obs_dict"]
        if not apps:
            grouped = _grouped_routing(step, p, t, r, pm)
            if grouped:
                return
        require(len(apps) == 1, "stepForward does not append to obs_dict exactly once", step.node)
        c = apps[0]
        loops = [a for a in _ancestors(c, pm) if isinstance(a, ast.For)]
        require(loops, "obs_dict append is not in a loop", c)
        lp = loops[0]
        require(isinstance(lp.iter, ast.Attribute) and lp.iter.attr == "observations", f"loop iterates `{unparse(lp.iter)}`, not the engine's observations", lp)
        var = lp.target.id
        inner = [a for a in _ancestors(c, pm) if a is not lp and isinstance(a, (ast.If, ast.Try, ast.While)) and lp in _ancestors(a, pm)]
        has_break = any(isinstance(n, (ast.Break, ast.Continue, ast.Return)) for n in ast.walk(lp))
        key = c.func.value.slice
        if inner or has_break:
            r.violation(step.qualname + ":obs_dict", "conditional-routing", "an observation is routed to its target only conditionally: some observations never reach a filter", step.loc(c))
        elif not (isinstance(key, ast.Attribute) and key.attr == "target_id" and isinstance(key.value, ast.Name) and key.value.id == var and c.args and isinstance(c.args[0], ast.Name) and c.args[0].id == var):
            r.violation(step.qualname + ":obs_dict", "routed-by-wrong-key", f"`{unparse(c)}`: observations must be routed by their own target_id", step.loc(c))
        else:
            r.ok(step.qualname + ":obs_dict", "every observation appended to obs_dict[observation.target_id]", step.loc(c))
        # update registration takes that target's list
        regs = [c2 for c2 in walk_no_nested(step.node) if isinstance(c2, ast.Call) and call_name(c2) == "EstUpdateRegistration"]
        require(len(regs) == 1, "EstUpdateRegistration not constructed exactly once", step.node)
        rg = regs[0]
        a0 = rg.args[0] if rg.args else None
        a2 = rg.args[2] if len(rg.args) > 2 else None
        good = (
            isinstance(a0, ast.Name)
            and isinstance(a2, ast.Subscript)
            and isinstance(a2.value, ast.Name)
            and a2.value.id == "obs_dict"
            and isinstance(a2.slice, ast.Attribute)
            and a2.slice.attr == "simulation_id"
            and isinstance(a2.slice.value, ast.Name)
            and a2.slice.value.id == a0.id
        )
        a1 = rg.args[1] if len(rg.args) > 1 else None
        good1 = isinstance(a1, ast.Subscript) and isinstance(a1.slice, ast.Attribute) and a1.slice.attr == "simulation_id" and isinstance(a1.slice.value, ast.Name) and isinstance(a0, ast.Name) and a1.slice.value.id == a0.id
        if good and good1:
            r.ok(step.qualname + ":EstUpdateRegistration", "update job of agent a gets store[a.id] and obs_dict[a.id]", step.loc(rg))
        else:
            r.violation(step.qualname + ":EstUpdateRegistration", "update-fed-wrong-observations", f"`{unparse(rg)[:120]}`: the update job of an estimate must receive its own handle and obs_dict[its id]", step.loc(rg))

    r.guard(step.qualname + ":obs_dict", route_obs)

    # payload slots: sensor -> worker -> engine -> agent
    def slots():
        co = p.func("Sensor.collectObservations")
        rets = [n for n in walk_no_nested(co.node) if isinstance(n, ast.Return) and isinstance(n.value, ast.Tuple)]
        require(rets, "collectObservations does not return a tuple", co.node)
        for rt in rets:
            el = rt.value.elts
            require(len(el) == 4, "collectObservations does not return 4 values", rt)
            tail = [unparse(x) for x in el[2:]]
            if tail == ["self.boresight", "self.time_last_tasked"]:
                r.ok(co.qualname + ":return", "(.., .., boresight, time_last_tasked)", co.loc(rt))
            else:
                r.violation(co.qualname + ":return", f"return-slots:{tail}", f"collectObservations returns {tail} in the pointing slots", co.loc(rt))
        w = p.func("resonaate.parallel.tasking_execution.asyncExecuteTasking")
        unp = None
        for n in walk_no_nested(w.node):
            if isinstance(n, ast.Assign) and isinstance(n.targets[0], ast.Tuple) and isinstance(n.value, ast.Call) and call_name(n.value) == "collectObservations":
                unp = n
        require(unp is not None, "worker does not unpack collectObservations", w.node)
        names = [e.id if isinstance(e, ast.Name) else "?" for e in unp.targets[0].elts]
        require(len(names) == 4, "worker does not unpack 4 values", unp)
        # args of collectObservations: (estimate state, primary target, background)
        dct = [n for n in walk_no_nested(w.node) if isinstance(n, ast.Dict)]
        require(len(dct) == 1, "worker does not build exactly one sensor-info dict", w.node)
        d = {k.value: v for k, v in zip(dct[0].keys, dct[0].values) if isinstance(k, ast.Constant)}
        exp = {"boresight": names[2], "time_last_tasked": names[3]}
        bad = [k for k, v in exp.items() if not (isinstance(d.get(k), ast.Name) and d[k].id == v)]
        sid = d.get("sensor_id")
        loopvar = None
        for lp in walk_no_nested(w.node):
            if isinstance(lp, ast.For) and any(x is unp for x in ast.walk(lp)):
                loopvar = lp.target.id if isinstance(lp.target, ast.Name) else None
        if not (isinstance(sid, ast.Attribute) and sid.attr == "simulation_id" and isinstance(sid.value, ast.Name) and sid.value.id == loopvar):
            bad.append("sensor_id")
        # the dict is built in the iteration that unpacked these values: lexically inside that loop's body, not in a
        # second pass (a comprehension / loop after it sees the values the LAST iteration left behind)
        loop = next((lp for lp in walk_no_nested(w.node) if isinstance(lp, ast.For) and any(x is unp for x in ast.walk(lp))), None)
        in_same_loop = loop is not None and any(x is dct[0] for b_ in loop.body for x in ast.walk(b_))
        in_comp = any(isinstance(cmp_, (ast.ListComp, ast.GeneratorExp, ast.DictComp, ast.SetComp)) and any(x is dct[0] for x in ast.walk(cmp_)) for cmp_ in walk_no_nested(w.node))
        if not in_same_loop or in_comp:
            r.violation(
                w.qualname + ":sensor_info",
                "worker-slots:stale-iteration",
                "the worker builds the sensor-info records outside the iteration that collected them (a second pass / comprehension): every sensor of the job is reported with the boresight and last-tasked time the LAST sensor returned",
                w.loc(dct[0]),
            )
        if bad:
            r.violation(w.qualname + ":sensor_info", f"worker-slots:{sorted(bad)}", f"the worker's sensor-info dict fills {sorted(bad)} from the wrong value", w.loc(dct[0]))
        else:
            r.ok(w.qualname + ":sensor_info", "sensor_id/boresight/time_last_tasked from the tasked sensor's own return slots", w.loc(dct[0]))
        # both lists extended once per sensor inside the loop (exactly-one-record is C02.R5)
        res = [c for c in walk_no_nested(w.node) if isinstance(c, ast.Call) and call_name(c) == "TaskExecutionResult"]
        require(len(res) == 1, "worker does not build one TaskExecutionResult", w.node)
        kws = {k.arg: unparse(k.value) for k in res[0].keywords}
        ext = {}
        for c in walk_no_nested(w.node):
            if isinstance(c, ast.Call) and isinstance(c.func, ast.Attribute) and c.func.attr == "extend" and c.args:
                ext[unparse(c.func.value)] = unparse(c.args[0])
        ok = ext.get(kws.get("observations")) == names[0] and ext.get(kws.get("missed_observations")) == names[1] and kws.get("sensor_info_list") is not None
        if ok:
            r.ok(w.qualname + ":result", "observations/misses/sensor info reach the result in their own slots", w.loc(res[0]))
        else:
            r.violation(w.qualname + ":result", f"result-slots:{sorted(kws.items())}", "the worker's result does not carry the made / missed observations in their own slots", w.loc(res[0]))
        # engine: dict rebuilt with the same keys
        up = p.func("TaskingEngine.updateFromAsyncTaskExecution")
        dd = [n for n in walk_no_nested(up.node) if isinstance(n, ast.Dict)]
        require(len(dd) == 1, "updateFromAsyncTaskExecution does not build one dict", up.node)
        bad = []
        for k, v in zip(dd[0].keys, dd[0].values):
            if not (isinstance(k, ast.Constant) and isinstance(v, ast.Subscript) and isinstance(v.slice, ast.Constant) and v.slice.value == k.value):
                bad.append(unparse(k))
        keys = sorted(k.value for k in dd[0].keys if isinstance(k, ast.Constant))
        if bad or keys != ["boresight", "time_last_tasked"]:
            r.violation(up.qualname, f"engine-slots:{bad}:{keys}", f"sensor_changes entries are built with keys {keys}, mismatched {bad}", up.loc(dd[0]))
        else:
            r.ok(up.qualname, "entry[k] = sensor_info[k] for boresight, time_last_tasked", up.loc(dd[0]))
        # processResults passes each result list to its own sink
        pr = p.func("TaskExecutionRegistration.processResults")
        exp_calls = {"saveObservations": "observations", "saveMissedObservations": "missed_observations", "updateFromAsyncTaskExecution": "sensor_info_list"}
        seen = {}
        for c in walk_no_nested(pr.node):
            if isinstance(c, ast.Call) and call_name(c) in exp_calls and c.args:
                seen.setdefault(call_name(c), []).append(c.args[0].attr if isinstance(c.args[0], ast.Attribute) else unparse(c.args[0]))
        for k, v in exp_calls.items():
            if seen.get(k) == [v]:
                r.ok(f"{pr.qualname}:{k}", f"{k}(results.{v}) once", pr.loc())
            else:
                r.violation(f"{pr.qualname}:{k}", f"merge-call:{seen.get(k)}", f"processResults must call {k}(results.{v}) exactly once; found {seen.get(k)}", pr.loc())
        # agent
        ui = p.func("SensingAgent.updateInfo")
        asg = {}
        for n in walk_no_nested(ui.node):
            if isinstance(n, ast.Assign) and isinstance(n.targets[0], ast.Attribute) and isinstance(n.value, ast.Subscript) and isinstance(n.value.slice, ast.Constant):
                asg[n.targets[0].attr] = (n.value.slice.value, unparse(n.targets[0].value))
        good = asg.get("boresight", (None,))[0] == "boresight" and asg.get("time_last_tasked", (None,))[0] == "time_last_tasked" and all(v[1] == "self.sensors" for v in asg.values())
        if good:
            r.ok(ui.qualname, "sensors.boresight/time_last_tasked <- change[same key]", ui.loc())
        else:
            r.violation(ui.qualname, f"agent-slots:{sorted(asg.items())}", f"updateInfo assigns {asg}: pointing state must be taken from the keys of the same name", ui.loc())

    r.guard("pointing-payload", slots)


def run(chk, p, t):
    chk.explanation = (
        "Static decision of structural necessary conditions of C08: (R1) effect analysis of every "
        "Registration.processResults closure - merges into a registrant shared by the jobs of a batch use only "
        "in-place accumulation and job-disjoint keyed stores; (R2) exactly-once accumulation; (R3) per-step buffers "
        "reset at assess entry before the first enqueue, saved buffers drained by their accessors; (R4) every "
        "pointing update applied, every observation routed, payload slots preserved from sensor to agent. NOT "
        "decided: numerical identity across schedules (float reduction order, worker RNG)."
    )
    chk.assumptions += [
        "JobExecutor.join() may call processResults of the jobs of a batch in any order (ray.wait)",
        "ray.put / ray.get are a deep-copy boundary: worker-side writes do not reach driver objects",
        "the job identity field of each result class (JOB_KEY table) is in 1-1 correspondence with the enqueue loop variable",
    ]
    ea = EffectAnalysis(p, t)
    for fn in (rule_r1, rule_r2, rule_r3, rule_r4, rule_r5, rule_r6, rule_r7, rule_r8, rule_r9):
        rid = "C08.R" + fn.__name__[-1]
        if not chk.wants(rid):
            continue
        try:
            fn(chk, p, t, ea)
        except (Undecided, AnchorError) as e:
            rr = chk.rule(rid + ".x", fn.__name__, 0, "-")
            if isinstance(e, Undecided):
                rr.undecided(fn.__name__, str(e))
            else:
                rr.error(fn.__name__, f"vanished anchor: {e}")


def rule_r8(chk, p, t, ea):
    r = chk.rule(
        "C08.R8",
        "the observations routed to an estimate reach its filter whole",
        1,
        "the per-target list the scenario builds from the engine's observation buffer is filled in the order the "
        "task-execution jobs complete; the estimate-update registration stores that list itself, submits that attribute "
        "and the job hands it to the filter's update - no hop keeps a subset chosen by position in the list (first "
        "observation per key wins: the survivor then depends on the completion order) - shared instance of C19.R4's "
        "update hop; a stored / submitted expression that is neither the list nor a recognised selection is undecided",
        "the numerical effect of the order of the observations inside the filter (C16)",
    )
    from rules.C19 import update_hop

    r.guard("update-hop", lambda: update_hop(r, p))


def rule_r9(chk, p, t, ea):
    from rsa.terms import inline_locals

    r = chk.rule(
        "C08.R9",
        "the engine keeps every record a task-execution job hands back",
        4,
        "'every tasked sensor-target pair leaves exactly one record': TaskingEngine.saveObservations / "
        "saveMissedObservations put what they are given into the per-step and the to-be-stored buffers - every `extend` "
        "argument is the parameter itself or a copy of it that leaves out nothing but empty placeholders (a comprehension "
        "whose only filter is the truthiness / not-None test of the element).  A filter that looks INSIDE the record "
        "(its reason, sensor, target ...) makes a whole class of tasked attempts leave no trace; any other expression is "
        "undecided",
        "which records the jobs produce (C02.R5)",
    )
    eng = p.cls("resonaate.tasking.engine.engine_base.TaskingEngine")
    n = 0
    for mname in ("saveObservations", "saveMissedObservations"):
        m = eng.methods.get(mname)
        if m is None:
            r.error(mname, "method not found")
            continue
        par = m.params[1]
        exts = [c for c in walk_no_nested(m.node) if isinstance(c, ast.Call) and isinstance(c.func, ast.Attribute) and c.func.attr in ("extend", "append", "__iadd__") and unparse(c.func.value).startswith("self.")]
        exts += [x for x in walk_no_nested(m.node) if isinstance(x, ast.AugAssign) and unparse(x.target).startswith("self.")]
        if not exts:
            r.violation(m.qualname, f"records-not-kept:{mname}", f"{mname} no longer adds its argument to a buffer of the engine", m.loc())
            continue
        for c in exts:
            n += 1
            arg = c.args[0] if isinstance(c, ast.Call) and c.args else getattr(c, "value", None)
            buf = unparse(c.func.value) if isinstance(c, ast.Call) else unparse(c.target)
            cons = f"{m.qualname}:{buf}"
            v = inline_locals(m, arg)
            verdict = None
            if isinstance(v, ast.Name) and v.id == par:
                verdict = ("ok", "the argument itself")
            elif isinstance(v, ast.Call) and call_name(v) in ("list", "tuple") and len(v.args) == 1 and unparse(v.args[0]) == par:
                verdict = ("ok", "a copy of the argument")
            elif isinstance(v, (ast.ListComp, ast.GeneratorExp)) and len(v.generators) == 1 and unparse(v.generators[0].iter) == par and isinstance(v.generators[0].target, ast.Name) and isinstance(v.elt, ast.Name) and v.elt.id == v.generators[0].target.id:
                el = v.generators[0].target.id
                inside = []
                for tst in v.generators[0].ifs:
                    atoms = tst.values if isinstance(tst, ast.BoolOp) and isinstance(tst.op, ast.And) else [tst]
                    for a in atoms:
                        txt = unparse(a)
                        if txt in (el, f"{el} is not None", f"bool({el})", f"{el} != None"):
                            continue
                        inside.append(txt)
                if inside:
                    verdict = ("violation", f"only records with `{' and '.join(inside)[:80]}` are kept")
                else:
                    verdict = ("ok", "every non-empty element")
            elif isinstance(v, ast.Call) and call_name(v) == "filter":
                verdict = ("violation", f"`{unparse(v)[:60]}`") if not (len(v.args) == 2 and isinstance(v.args[0], ast.Constant) and v.args[0].value is None) else ("ok", "filter(None, ...)")
            if verdict is None:
                r.undecided(cons, f"{mname} stores `{unparse(v)[:80]}`: not recognised as the whole argument", m.loc(c))
            elif verdict[0] == "ok":
                r.ok(cons, verdict[1], m.loc(c))
            else:
                r.violation(cons, f"records-dropped:{mname}:{verdict[1][:60]}", f"{mname} adds to {buf} a selection of what the job handed back: {verdict[1]}.  The tasked attempts whose record is filtered out leave neither an observation nor a miss - although the sensor was pointed and its last-tasked time moved", m.loc(c))
    if n < 4:
        r.error("stores", f"only {n} buffer stores found (4 confirmed by hand)")


def _grouped_routing(step, p, t, r, pm):
    """Routing through a grouping helper: `for k, v in <engine>.<helper>().items(): obs_dict[k].extend(v)`.
    Decides the helper: a plain bucket loop keeps every observation; itertools.groupby keeps them only when its
    input is sorted by the same key (it splits on *adjacent* keys and a dict built from it keeps the last run)."""
    exts = [c for c in find_calls(step.node, "extend") if isinstance(c.func.value, ast.Subscript) and isinstance(c.func.value.value, ast.Name) and c.func.value.value.id == "obs_dict"]
    exts += [n for n in walk_no_nested(step.node) if isinstance(n, ast.Assign) and isinstance(n.targets[0], ast.Subscript) and isinstance(n.targets[0].value, ast.Name) and n.targets[0].value.id == "obs_dict"]
    if len(exts) != 1:
        return False
    c = exts[0]
    loops = [a for a in _ancestors(c, pm) if isinstance(a, ast.For)]
    if not loops:
        return False
    lp = loops[0]
    it = lp.iter
    if not (isinstance(it, ast.Call) and isinstance(it.func, ast.Attribute) and it.func.attr == "items" and isinstance(it.func.value, ast.Call)):
        return False
    cons = step.qualname + ":obs_dict"
    helpers = [tg for tg in t.callees(it.func.value, step) if hasattr(tg, "node")]
    if len(helpers) != 1:
        return False
    h = helpers[0]
    rets = [n for n in walk_no_nested(h.node) if isinstance(n, ast.Return) and n.value is not None]
    if len(rets) != 1:
        return False
    rv = rets[0].value
    if isinstance(rv, ast.DictComp) and isinstance(rv.generators[0].iter, ast.Call) and call_name(rv.generators[0].iter) == "groupby":
        g = rv.generators[0].iter
        seq = g.args[0] if g.args else None
        keyf = next((unparse(k.value) for k in g.keywords if k.arg == "key"), unparse(g.args[1]) if len(g.args) > 1 else None)
        sorted_same = isinstance(seq, ast.Call) and call_name(seq) == "sorted" and next((unparse(k.value) for k in seq.keywords if k.arg == "key"), None) == keyf
        if sorted_same:
            r.ok(cons, f"grouped by {keyf} over a sequence sorted by the same key", h.loc(rv))
        else:
            r.violation(cons, f"groupby-unsorted:{unparse(seq)[:40]}", f"{h.qualname} groups `{unparse(seq)[:60]}` with itertools.groupby without sorting it by the same key: groupby splits on adjacent keys only and the dict keeps the last run, so when one target's observations arrive from two jobs that are not adjacent in completion order all but the last run are dropped - which observations reach the filter depends on the order the jobs finish", h.loc(rv))
        return True
    # bucket loop: d[o.target_id].append(o) / d.setdefault(o.target_id, []).append(o) over all observations
    if isinstance(rv, ast.Name):
        apps = [a for a in find_calls(h.node, "append") if unparse(a.func.value).startswith(rv.id)]
        for a in apps:
            lps = [x for x in _ancestors(a, parents_map(h.node)) if isinstance(x, ast.For)]
            if lps and isinstance(lps[0].target, ast.Name):
                v = lps[0].target.id
                keyed = f"{v}.target_id" in unparse(a.func.value) and a.args and unparse(a.args[0]) == v
                cond = [x for x in _ancestors(a, parents_map(h.node)) if isinstance(x, (ast.If, ast.Try)) and lps[0] in _ancestors(x, parents_map(h.node))]
                if keyed and not cond and "observations" in unparse(lps[0].iter):
                    r.ok(cons, f"{h.qualname} buckets every observation under its own target_id", h.loc(a))
                    return True
    return False


def rule_r5(chk, p, t, ea):
    r = chk.rule(
        "C08.R5",
        "each result reaches its own registration, exactly once",
        3,
        "enqueueJob maps the object reference of the submitted job to the registration that generated the "
        "submission; join fetches the result of a finished reference and hands it to the registration stored under "
        "that same reference, removes the entry, and processes every finished reference that ray.wait returns",
    )
    je = p.cls("resonaate.parallel.JobExecutor")
    enq, join = je.methods.get("enqueueJob"), je.methods.get("join")

    def f1():
        reg = enq.params[1]
        asg = {}
        for n in walk_no_nested(enq.node):
            if isinstance(n, ast.Assign):
                asg[unparse(n.targets[0])] = unparse(n.value)
        ok = asg.get("submission") == f"{reg}.generateSubmission()" and asg.get("remote_ref") == "self.getRemoteFunc().remote(submission)" and asg.get("self._result_reg_mapping[remote_ref]") == reg
        app = [c for c in find_calls(enq.node, "append") if unparse(c.func.value) == "self._unfinished_jobs" and unparse(c.args[0]) == "remote_ref"]
        if ok and len(app) == 1:
            r.ok(enq.qualname, "ref = remote(registration.generateSubmission()); mapping[ref] = registration; ref queued once", enq.loc())
        else:
            r.violation(enq.qualname, f"enqueue:{sorted(asg.items())}", "enqueueJob does not map the submitted job's own reference to the registration that generated the submission (or does not queue it exactly once)", enq.loc())

    r.guard(enq.qualname, f1)

    def f2():
        waits = [c for c in walk_no_nested(join.node) if isinstance(c, ast.Call) and unparse(c.func) == "ray.wait"]
        require(len(waits) == 1, "join does not call ray.wait exactly once per round", join.node)
        w = waits[0]
        kws = {k.arg: unparse(k.value) for k in w.keywords}
        bad = []
        if unparse(w.args[0]) != "self._unfinished_jobs":
            bad.append(f"waits on `{unparse(w.args[0])}`")
        if kws.get("num_returns", "1") != "1":
            bad.append(f"ray.wait(num_returns={kws.get('num_returns')}) but only the first finished job is processed: the others are dropped")
        unp = [n for n in walk_no_nested(join.node) if isinstance(n, ast.Assign) and n.value is w]
        if not (unp and isinstance(unp[0].targets[0], ast.Tuple) and [unparse(x) for x in unp[0].targets[0].elts] == ["finished_jobs", "self._unfinished_jobs"]):
            bad.append("ray.wait's (ready, remaining) pair is not stored as (finished_jobs, self._unfinished_jobs)")
        res = [n for n in walk_no_nested(join.node) if isinstance(n, ast.Assign) and isinstance(n.value, ast.Call) and unparse(n.value.func) == "ray.get"]
        procs = find_calls(join.node, "processResults")
        if not (len(res) == 1 and len(procs) == 1):
            bad.append("result fetch / processResults not exactly once per round")
        else:
            key = unparse(res[0].value.args[0])
            lookup = procs[0].func.value
            if not (isinstance(lookup, ast.Subscript) and unparse(lookup.value) == "self._result_reg_mapping" and unparse(lookup.slice) == key and unparse(procs[0].args[0]) == unparse(res[0].targets[0])):
                bad.append(f"the result of `{key}` is processed by `{unparse(lookup)}`: a result can reach another job's registration")
            dels = [n for n in walk_no_nested(join.node) if isinstance(n, ast.Delete)]
            if not (len(dels) == 1 and unparse(dels[0].targets[0]) == f"self._result_reg_mapping[{key}]"):
                bad.append("the processed entry is not removed from the mapping")
        loops = [n for n in walk_no_nested(join.node) if isinstance(n, ast.While)]
        if not (loops and unparse(loops[0].test) == "self._unfinished_jobs"):
            bad.append("join does not loop until no job is unfinished")
        if bad:
            r.violation(join.qualname, "join:" + ";".join(bad), "JobExecutor.join: " + "; ".join(bad), join.loc())
        else:
            r.ok(join.qualname, "each finished reference: result -> mapping[that reference].processResults, entry removed, until none is left", join.loc())

    r.guard(join.qualname, f2)
    subs = p.subclasses(je)
    regs = {c.name for c in p.subclasses(p.cls("resonaate.parallel.Registration"))}
    pair = {"PropagateExecutor": "asyncPropagate", "EstPredictExecutor": "asyncPredict", "EstUpdateExecutor": "asyncUpdateEstimate", "TaskingRewardExecutor": "asyncCalculateReward", "TaskExecutionExecutor": "asyncExecuteTasking"}
    bad = []
    for sc in subs:
        g = sc.methods.get("getRemoteFunc")
        rets = [n for n in walk_no_nested(g.node) if isinstance(n, ast.Return)] if g else []
        got = unparse(rets[0].value) if rets else None
        if pair.get(sc.name) is None:
            continue
        if got != pair[sc.name]:
            bad.append(f"{sc.name}.getRemoteFunc returns {got} (expected {pair[sc.name]})")
    if bad:
        r.violation("executors", "remote-func:" + ";".join(bad), "an executor runs another batch's remote function: " + "; ".join(bad), je.loc())
    else:
        r.ok("executors", f"{len(subs)} executors each run their own remote function", je.loc())
    _ = regs


# ====================================================================== R6
_INDEX_CALLS = {"where", "nonzero", "flatnonzero", "argwhere"}


def rule_r7(chk, p, t, ea):
    r = chk.rule(
        "C08.R7",
        "an executed tasking always restarts the sensor's pointing state",
        1,
        "Sensor.collectObservations returns (.., .., self.boresight, self.time_last_tasked) and the scenario copies both "
        "into the sensing agent after the step; when the slew is feasible (the canSlew branch, where the observation is "
        "attempted) both fields must have been written on EVERY path before the return - directly or by a helper that "
        "writes them on every one of its own paths - with time_last_tasked = self.host.time.  A conditional update "
        "(e.g. skipped when the sensor is already on target) leaves the previous tasking's clock in place, and later "
        "steps credit the sensor with slew time it has already spent",
        "the value of the boresight vector",
    )
    from rsa.cfg import cfg_of

    cls = p.cls("resonaate.sensors.sensor_base.Sensor")
    co = cls.methods.get("collectObservations")
    FIELDS = ("boresight", "time_last_tasked")

    def writes_nodes(fn, field, depth=2):
        """CFG nodes of fn that certainly write self.<field>: direct stores, or calls of a self-method that writes it on
        every path of its own."""
        cfg = cfg_of(fn)
        out = []
        for n in cfg.nodes:
            a = n.ast
            if a is None or n.kind not in ("stmt",):
                continue
            tgs = []
            if isinstance(a, ast.Assign):
                tgs = a.targets
            elif isinstance(a, (ast.AugAssign, ast.AnnAssign)):
                tgs = [a.target]
            flat = []
            for tg in tgs:
                flat.extend(tg.elts if isinstance(tg, (ast.Tuple, ast.List)) else [tg])
            if any(isinstance(tg, ast.Attribute) and tg.attr == field and isinstance(tg.value, ast.Name) and tg.value.id == "self" for tg in flat):
                out.append(n.id)
                continue
            if depth > 0:
                for c in ast.walk(a):
                    if isinstance(c, ast.Call) and isinstance(c.func, ast.Attribute) and isinstance(c.func.value, ast.Name) and c.func.value.id == "self":
                        mm = p.lookup_method(fn.cls or cls, c.func.attr)
                        if mm is None and c.func.attr in cls.setters:
                            mm = None
                        if mm is not None and mm.kind not in ("property",) and must_write(mm, field, depth - 1):
                            out.append(n.id)
                            break
        return out

    def must_write(fn, field, depth):
        cfg = cfg_of(fn)
        via = writes_nodes(fn, field, depth)
        return bool(via) and cfg.must_pass(cfg.exit.id, via_nodes=via)

    def one():
        cfg = cfg_of(co)
        slew = [n for n in cfg.nodes if n.kind == "cond" and isinstance(n.ast, ast.Call) and call_name(n.ast) == "canSlew"]
        require(len(slew) == 1, "collectObservations does not branch on canSlew exactly once", co.node)
        starts = [dst for dst, lab in cfg.succ[slew[0].id] if lab is True]
        require(starts, "no feasible-slew branch", slew[0].ast)
        rets = [n for n in cfg.nodes if n.kind == "return"]
        for field in FIELDS:
            via = writes_nodes(co, field)
            bad = [rt for rt in rets if any(rt.id in cfg.reachable(s0, blocked_nodes=via) and s0 not in via for s0 in starts)]
            if not via:
                r.violation(co.qualname, f"pointing-never-written:{field}", f"collectObservations never writes self.{field} on the feasible-slew branch", co.loc())
            elif bad:
                r.violation(
                    co.qualname,
                    f"pointing-conditional:{field}",
                    f"on the feasible-slew branch of collectObservations a path reaches the return (line {bad[0].lineno}) without writing self.{field}: "
                    "the tasking is executed but the sensor keeps the pointing state of an earlier tasking, which is what the scenario then copies into the sensing agent",
                    co.loc(bad[0].ast),
                )
            else:
                r.ok(co.qualname + ":" + field, f"written on every path of the feasible-slew branch ({len(via)} writing statement(s))", co.loc())
        # the clock value
        vals = []
        for fn in [co] + [m for m in cls.methods.values() if m is not co]:
            for n in walk_no_nested(fn.node):
                if isinstance(n, ast.Assign) and any(isinstance(tg, ast.Attribute) and tg.attr == "time_last_tasked" and unparse(tg.value) == "self" for tg in n.targets) and fn.name not in ("__init__",) and fn.kind != "setter":
                    vals.append((fn, n))
        for fn, n in vals:
            if fn.name == "time_last_tasked":
                continue
            if unparse(n.value) == "self.host.time":
                r.ok(fn.qualname + ":clock", "time_last_tasked = self.host.time", fn.loc(n))
            else:
                r.violation(fn.qualname, f"pointing-clock:{unparse(n.value)[:40]}", f"time_last_tasked is set to `{unparse(n.value)}`, not to the host's current time", fn.loc(n))

    r.guard(co.qualname, one)


def rule_r6(chk, p, t, ea):
    r = chk.rule(
        "C08.R6",
        "every tasked sensor-target pair is handed to a task-execution job",
        3,
        "in assess() the task-execution jobs are built from the stored decision matrix: one loop over every target row, "
        "the tasked sensors of a row are the indices of its non-zero entries, a job is submitted whenever that index set is "
        "NON-EMPTY (a test on its length / size - never on the truth of the index values, which is false for column 0), "
        "for that row's own target, with the handles of all those sensors in the matrix's column order",
        "what the job then does with the pair (R1-R5, C02)",
    )
    eng = p.cls("resonaate.tasking.engine.centralized_engine.CentralizedTaskingEngine")
    m = eng.methods.get("assess")
    pm = parents_map(m.node)

    def one():
        sites = [c for c in walk_no_nested(m.node) if isinstance(c, ast.Call) and call_name(c) == "TaskExecutionRegistration"]
        require(len(sites) == 1, "one TaskExecutionRegistration construction expected in assess", m.node)
        site = sites[0]
        loops = [a for a in _ancestors(site, pm) if isinstance(a, ast.For)]
        require(loops, "the task-execution job is not built in a loop over targets", site)
        lp = loops[-1] if len(loops) == 1 else loops[-1]
        bad = []
        # --- the loop covers every target row
        it = unparse(lp.iter)
        tgt_names = [x.id for x in ast.walk(lp.target) if isinstance(x, ast.Name)]
        if it == "self.target_indices.items()" and len(tgt_names) == 2:
            tid, row = tgt_names
        elif it in ("enumerate(self.target_list)",) and len(tgt_names) == 2:
            row, tid = tgt_names
        else:
            raise Undecided(f"assess: the job loop iterates `{it}` (expected self.target_indices.items() or enumerate(self.target_list))", lp)
        r.ok(m.qualname + ":rows", f"one iteration per target row: `{it}`", m.loc(lp))
        # --- index set of the row
        defs = {}
        for n in ast.walk(lp):
            if isinstance(n, ast.Assign) and len(n.targets) == 1 and isinstance(n.targets[0], ast.Name):
                defs.setdefault(n.targets[0].id, []).append(n.value)

        col_seen = []

        def row_expr(e):
            """True iff e is the row `row` of self.decision_matrix."""
            if isinstance(e, ast.Subscript) and unparse(e.value) == "self.decision_matrix":
                s = e.slice
                if isinstance(s, ast.Tuple) and len(s.elts) == 2 and unparse(s.elts[1]) == row and unparse(s.elts[0]) in (":", "slice(None)"):
                    col_seen.append(unparse(e))
                    return True
                if isinstance(s, ast.Tuple) and len(s.elts) == 2:
                    return unparse(s.elts[0]) == row and unparse(s.elts[1]) in (":", "slice(None)")
                return unparse(s) == row
            return False

        def index_kind(e, depth=0):
            """'idx' when e is the array of column indices of the non-zero entries of this target's row,
            'mask' for the row itself (boolean per sensor), None otherwise."""
            if depth > 4:
                return None
            if isinstance(e, ast.Name) and len(defs.get(e.id, [])) == 1:
                return index_kind(defs[e.id][0], depth + 1)
            if row_expr(e):
                return "mask"
            if isinstance(e, ast.Subscript) and isinstance(e.value, ast.Call) and call_name(e.value) in ("where", "nonzero") and unparse(e.slice) == "0" and e.value.args and len(e.value.args) == 1 and row_expr(e.value.args[0]):
                return "idx"
            if isinstance(e, ast.Call) and call_name(e) == "flatnonzero" and len(e.args) == 1 and row_expr(e.args[0]):
                return "idx"
            return None

        # --- guard of the submission
        guards = [a for a in _ancestors(site, pm) if isinstance(a, ast.If) and lp in _ancestors(a, pm)]
        in_body = lambda g: any(site is x or site in ast.walk(x) for x in g.body)  # noqa: E731
        g_ok = True
        gbad = []
        for g in guards:
            tst = g.test
            pos = in_body(g)
            verdict = None  # True = emptiness test with the right polarity
            # len(X) > 0 / len(X) != 0 / len(X) >= 1 / X.size > 0 ; truthiness of len(X) / X.size
            def size_of(e):
                if isinstance(e, ast.Call) and call_name(e) == "len" and len(e.args) == 1:
                    return e.args[0]
                if isinstance(e, ast.Attribute) and e.attr == "size":
                    return e.value
                if isinstance(e, ast.Call) and call_name(e) == "count_nonzero" and len(e.args) == 1 and index_kind(e.args[0]) == "mask":
                    return e.args[0]
                return None

            neg = False
            while isinstance(tst, ast.UnaryOp) and isinstance(tst.op, ast.Not):
                neg, tst = not neg, tst.operand
            if isinstance(tst, ast.Compare) and len(tst.ops) == 1 and isinstance(tst.comparators[0], ast.Constant):
                sz = size_of(tst.left)
                c = tst.comparators[0].value
                op = type(tst.ops[0])
                nonempty = (op is ast.Gt and c == 0) or (op is ast.NotEq and c == 0) or (op is ast.GtE and c == 1)
                empty = (op is ast.Eq and c == 0) or (op is ast.Lt and c == 1) or (op is ast.LtE and c == 0)
                if sz is not None and index_kind(sz) in ("idx", "mask") and (nonempty or empty):
                    is_nonempty_test = nonempty != neg
                    verdict = is_nonempty_test == pos
                elif sz is not None and index_kind(sz) in ("idx", "mask") and isinstance(c, int) and op in (ast.Gt, ast.GtE, ast.Lt, ast.LtE, ast.Eq, ast.NotEq):
                    gbad.append(f"the submission is guarded by `{unparse(g.test)}`: the size of the row's tasked set is compared with {c}, not tested for emptiness - rows with some numbers of tasked sensors get no job")
                    g_ok = False
                    continue
            elif size_of(tst) is not None and index_kind(size_of(tst)) in ("idx", "mask"):
                verdict = (not neg) == pos
            elif isinstance(tst, ast.Call) and call_name(tst) in ("any",) and ((isinstance(tst.func, ast.Attribute) and index_kind(tst.func.value) is not None) or (tst.args and index_kind(tst.args[0]) is not None)):
                k = index_kind(tst.func.value) if isinstance(tst.func, ast.Attribute) else index_kind(tst.args[0])
                if k == "mask":
                    verdict = (not neg) == pos
                else:
                    gbad.append(f"the submission is guarded by `{unparse(g.test)}`: any() of the array of tasked column INDICES is false when the only tasked sensor is column 0 - that pair gets no job, hence no observation, no miss and no pointing update")
                    g_ok = False
                    continue
            elif index_kind(tst) == "idx":
                gbad.append(f"the submission is guarded by the truth value of the index array `{unparse(g.test)}`: false for the single index 0 (and an error for several)")
                g_ok = False
                continue
            if verdict is None:
                raise Undecided(f"assess: guard `{unparse(g.test)}` of the task-execution submission is not a recognised emptiness test of the row's tasked-sensor indices", g)
            if not verdict:
                gbad.append(f"the submission is guarded by `{unparse(g.test)}` with the wrong polarity: rows WITH a tasked sensor get no job")
                g_ok = False
        if gbad:
            r.violation(m.qualname + ":guard", "job-guard:" + ";".join(b[:70] for b in gbad), "assess(): " + "; ".join(gbad), m.loc(site))
        elif g_ok:
            r.ok(m.qualname + ":guard", "a job is submitted iff the row has a tasked sensor (emptiness test)" if guards else "a job is submitted for every row", m.loc(site))
        # --- the job's target and sensors
        args = site.args
        require(len(args) == 4, "TaskExecutionRegistration(registrant, estimate, target store, sensors) expected", site)
        if unparse(args[1]) != f"self._estimate_store[{tid}]":
            bad.append(f"the job's target is `{unparse(args[1])}`, not this row's own target `self._estimate_store[{tid}]`")
        sens = args[3]
        ok_s = False
        if isinstance(sens, ast.ListComp) and len(sens.generators) == 1 and not sens.generators[0].ifs:
            gen = sens.generators[0]
            v = gen.target.id if isinstance(gen.target, ast.Name) else None
            src = gen.iter
            while isinstance(src, ast.Name) and len(defs.get(src.id, [])) == 1:
                src = defs[src.id][0]
            # sensor_num_array[idx]  with sensor_num_array = array(self.sensor_list)
            ids_ok = False
            if isinstance(src, ast.Subscript) and index_kind(src.slice) in ("idx", "mask"):
                base = src.value
                mdefs = {n.targets[0].id: n.value for n in walk_no_nested(m.node) if isinstance(n, ast.Assign) and isinstance(n.targets[0], ast.Name)}
                while isinstance(base, ast.Name) and base.id in mdefs:
                    base = mdefs[base.id]
                if unparse(base) in ("array(self.sensor_list)", "asarray(self.sensor_list)", "self.sensor_list"):
                    ids_ok = True
            if ids_ok and v and unparse(sens.elt) == f"self._sensor_store[{v}]":
                ok_s = True
        if not ok_s:
            bad.append(f"the job's sensors `{unparse(sens)[:80]}` are not the handles of sensor_list[all non-zero columns of the row]")
        if col_seen:
            bad.append(f"the tasked sensors are read from `{col_seen[0]}`: that is a COLUMN of the (targets x sensors) decision matrix indexed by the target's row number - the targets of one sensor, not the sensors of this target")
        if bad:
            r.violation(m.qualname + ":job", "job-coverage:" + ";".join(b[:60] for b in bad), "assess(): " + "; ".join(bad), m.loc(site))
        else:
            r.ok(m.qualname + ":job", "job(target of the row, handles of every tasked column in column order)", m.loc(site))

    r.guard(m.qualname, one)
