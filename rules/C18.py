"""C18 - multiple-model estimation keeps valid probabilities and moment-matched output.

Decides: normalisation typestate of the model weights at every public exit (R1) and at every
mixture use (R2), guarded removal with parallel-array pairing (R3), mixture freshness and the
documented mixture / likelihood formulas (R4).  Does NOT decide Bayes-rule values, likelihood
underflow beyond the existing reset, or PSD-ness.
"""

from __future__ import annotations

import ast

from rsa.cfg import cfg_of
from rsa.model import AnchorError, Undecided, call_name, unparse, walk_no_nested
from rsa.terms import canon, inline_locals, single_defs
from rsa.util import find_calls, require

AF = "resonaate.estimation.adaptive.adaptive_filter.AdaptiveFilter"
SMM = "resonaate.estimation.adaptive.smm.StaticMultipleModel"
GPB = "resonaate.estimation.adaptive.gpb1.GeneralizedPseudoBayesian1"
W = "model_weights"
SUM_FUNCS = {"np_sum", "sum", "nansum"}


def normalising_form(value, fn):
    """Does `self.model_weights = value` establish sum == 1 (given finite positive mass)?"""
    defs = single_defs(fn.node)
    if isinstance(value, ast.BinOp) and isinstance(value.op, ast.Div):
        num, den = value.left, value.right
        # X / sum(X)
        if isinstance(den, ast.Call) and call_name(den) in SUM_FUNCS and den.args and canon(den.args[0]) == canon(num):
            return True
        if isinstance(den, ast.Call) and isinstance(den.func, ast.Attribute) and den.func.attr == "sum" and canon(den.func.value) == canon(num):
            return True
        # ones(n) / n
        if isinstance(num, ast.Call) and call_name(num) == "ones" and num.args and canon(num.args[0]) == canon(den):
            return True
        # (a * b) / dot(a, b)
        cands = []
        if isinstance(den, ast.Name):
            if den.id in defs:
                cands = [defs[den.id]]
            else:
                cands = [n.value for n in walk_no_nested(fn.node) if isinstance(n, ast.Assign) and len(n.targets) == 1 and isinstance(n.targets[0], ast.Name) and n.targets[0].id == den.id]
        else:
            cands = [den]
        if isinstance(num, ast.BinOp) and isinstance(num.op, ast.Mult) and cands:
            a, b = canon(num.left), canon(num.right)
            good = True
            for d in cands:
                if not (isinstance(d, ast.Call) and call_name(d) in ("dot", "inner", "vdot") and len(d.args) == 2 and {canon(d.args[0]), canon(d.args[1])} == {a, b}):
                    good = False
            if good:
                return True
    return False


class WeightInterp:
    """Path-sensitive N/R typestate of self.model_weights with inlined self / super method calls."""

    def __init__(self, p, cls, reads_sink):
        self.p, self.cls = p, cls
        self.reads = reads_sink  # list of (fn, node, state, conds)
        self.paths = 0
        self._writes_cache = {}

    def resolve(self, call, fn):
        f = call.func
        if isinstance(f, ast.Attribute) and isinstance(f.value, ast.Name) and f.value.id == "self":
            return self.p.lookup_method(self.cls, f.attr)
        if isinstance(f, ast.Attribute) and isinstance(f.value, ast.Call) and call_name(f.value) == "super" and fn.cls is not None:
            return self.p.lookup_method(self.cls, f.attr, after=fn.cls)
        return None

    def writes(self, m, seen=None):
        """Does the method (transitively) write model_weights / models?"""
        if m.qualname in self._writes_cache:
            return self._writes_cache[m.qualname]
        seen = seen or set()
        if m.qualname in seen:
            return False
        seen.add(m.qualname)
        res = False
        for n in walk_no_nested(m.node):
            if isinstance(n, ast.Attribute) and n.attr in (W,) and isinstance(n.ctx, ast.Store) and isinstance(n.value, ast.Name) and n.value.id == "self":
                res = True
            if isinstance(n, ast.Subscript) and isinstance(n.ctx, ast.Store) and isinstance(n.value, ast.Attribute) and n.value.attr == W:
                res = True
            if isinstance(n, ast.Call):
                mm = self.resolve(n, m)
                if mm is not None and self.writes(mm, seen):
                    res = True
        self._writes_cache[m.qualname] = res
        return res

    def record_reads(self, node, fn, state, facts, depth=3):
        for n in walk_no_nested(node):
            if isinstance(n, ast.Attribute) and n.attr == W and isinstance(n.ctx, ast.Load) and isinstance(n.value, ast.Name) and n.value.id == "self":
                self.reads.append((fn, n, state, dict(facts)))
            if isinstance(n, ast.Call) and depth > 0:
                mm = self.resolve(n, fn)
                if mm is not None and not self.writes(mm):
                    self.record_reads(mm.node, mm, state, facts, depth - 1)

    def run(self, fn, state, facts, depth=5):
        """Returns set of (state, frozen facts) at the normal exits of fn."""
        cfg = cfg_of(fn)
        paths = cfg.paths(targets=[cfg.exit.id], limit=3000)
        self.paths += len(paths)
        outs = set()
        for path in paths:
            cur = {(state, tuple(sorted(facts.items())))}
            for nid, lab in path:
                node = cfg.nodes[nid]
                nxt = set()
                for st, fk in cur:
                    f = dict(fk)
                    for res in self.step(fn, node, lab, st, f, depth):
                        nxt.add(res)
                cur = nxt
                if not cur:
                    break
            outs |= cur
        return outs

    def step(self, fn, node, lab, st, facts, depth):
        a = node.ast
        if a is None:
            return [(st, tuple(sorted(facts.items())))]
        if node.kind == "cond":
            self.record_reads(a, fn, st, facts)
            if isinstance(a, ast.Name) and a.id in fn.params:
                if a.id in facts and facts[a.id] != lab:
                    return []  # infeasible: contradicts an earlier fact about the same parameter
                facts[a.id] = lab
            return [(st, tuple(sorted(facts.items())))]
        if node.kind == "loop":
            self.record_reads(a.iter, fn, st, facts)
            if isinstance(a.iter, ast.Name) and a.iter.id in fn.params:
                if lab is True:
                    if facts.get(a.iter.id) is False:
                        return []
                    facts[a.iter.id] = True
            return [(st, tuple(sorted(facts.items())))]
        # statements
        if isinstance(a, (ast.Assign, ast.AugAssign)):
            tg = a.targets[0] if isinstance(a, ast.Assign) else a.target
            value = a.value
            # value may be a call with side effects on the weights
            outs = [(st, facts)]
            if isinstance(value, ast.Call):
                mm = self.resolve(value, fn)
                if mm is not None and self.writes(mm) and depth > 0:
                    outs = [(s2, dict(f2)) for s2, f2 in self.run(mm, st, self.bind(value, fn, mm, facts), depth - 1)]
            res = []
            for s2, f2 in outs:
                self.record_reads(value, fn, s2, f2)
                # a local holding the current total mass: `total = np_sum(self.model_weights)` - fresh until the
                # weights are written again
                fresh_sum = None
                if isinstance(a, ast.Assign) and isinstance(tg, ast.Name) and isinstance(value, ast.Call) and ((call_name(value) in SUM_FUNCS and value.args and unparse(value.args[0]) == f"self.{W}") or (isinstance(value.func, ast.Attribute) and value.func.attr == "sum" and unparse(value.func.value) == f"self.{W}")):
                    fresh_sum = tg.id
                writes_w = (isinstance(tg, ast.Attribute) and tg.attr == W) or (isinstance(tg, ast.Subscript) and isinstance(tg.value, ast.Attribute) and tg.value.attr == W)
                by_fresh_sum = isinstance(a, ast.Assign) and isinstance(value, ast.BinOp) and isinstance(value.op, ast.Div) and unparse(value.left) == f"self.{W}" and isinstance(value.right, ast.Name) and f2.get(f"sum:{value.right.id}") is True
                by_fresh_sum = by_fresh_sum or (isinstance(a, ast.AugAssign) and isinstance(a.op, ast.Div) and isinstance(value, ast.Name) and f2.get(f"sum:{value.id}") is True)
                if writes_w:
                    f2 = {k: v for k, v in f2.items() if not k.startswith("sum:")}
                if fresh_sum is not None:
                    f2 = dict(f2)
                    f2[f"sum:{fresh_sum}"] = True
                if isinstance(tg, ast.Attribute) and tg.attr == W and isinstance(tg.value, ast.Name) and tg.value.id == "self" and by_fresh_sum:
                    res.append(("N", tuple(sorted(f2.items()))))
                    continue
                if isinstance(tg, ast.Attribute) and tg.attr == W and isinstance(tg.value, ast.Name) and tg.value.id == "self":
                    if isinstance(a, ast.AugAssign):
                        s3 = "R"
                        if isinstance(a.op, ast.Div) and isinstance(value, ast.Call) and call_name(value) in SUM_FUNCS and value.args and unparse(value.args[0]) == f"self.{W}":
                            s3 = "N"
                    elif normalising_form(value, fn):
                        s3 = "N"
                    elif isinstance(value, ast.Call) and isinstance(value.func, ast.Attribute) and value.func.attr == "copy" and unparse(value.func.value) == f"self.{W}":
                        s3 = s2
                    else:
                        s3 = "R"
                    res.append((s3, tuple(sorted(f2.items()))))
                elif isinstance(tg, ast.Subscript) and isinstance(tg.value, ast.Attribute) and tg.value.attr == W:
                    res.append(("R", tuple(sorted(f2.items()))))
                else:
                    res.append((s2, tuple(sorted(f2.items()))))
            return res
        if isinstance(a, ast.Expr) and isinstance(a.value, ast.Call):
            mm = self.resolve(a.value, fn)
            if mm is not None and self.writes(mm) and depth > 0:
                return [(s2, f2) for s2, f2 in self.run(mm, st, self.bind(a.value, fn, mm, facts), depth - 1)]
            self.record_reads(a, fn, st, facts)
            return [(st, tuple(sorted(facts.items())))]
        self.record_reads(a, fn, st, facts) if not isinstance(a, (ast.For, ast.While, ast.If, ast.With, ast.Try, ast.ExceptHandler)) else None
        return [(st, tuple(sorted(facts.items())))]

    def bind(self, call, fn, callee, facts):
        """Facts about parameters carry over when the argument is the same-named parameter."""
        out = {}
        params = callee.params[1:]
        for i, a in enumerate(call.args):
            if i < len(params) and isinstance(a, ast.Name) and a.id in facts:
                out[params[i]] = facts[a.id]
        return out


def rule_r1_r2(chk, p, t):
    r1 = chk.rule(
        "C18.R1",
        "normalisation typestate at public exits",
        4,
        "if the model weights sum to one on entry they are assigned a normalising form (w / sum(w), ones(n)/n, "
        "(a*b)/dot(a,b)) on every path to every normal exit of update (both subclasses) and prune; initialize "
        "establishes it",
        "finite positive mass of the raw weights (the zero-mass reset is checked separately)",
    )
    r2 = chk.rule(
        "C18.R2",
        "mixture uses see normalised weights",
        4,
        "every read of the model weights inside the mixture compilation steps and the stacking function happens "
        "after normalisation on every feasible path",
    )
    for q in (SMM, GPB):
        cls = p.cls(q)
        # every other public method that (transitively) writes the weights is an exit of the same kind: a caller sees
        # the filter between any two public calls (e.g. a pruning step added to predict)
        extra = []
        wi0 = WeightInterp(p, cls, [])
        for ci in p.mro(cls):
            for nm, mm in ci.methods.items():
                if nm.startswith("_") or nm in ("update", "prune", "initialize") or mm.kind in ("property", "classmethod", "staticmethod"):
                    continue
                top = p.lookup_method(cls, nm)
                if top is not None and top.qualname == mm.qualname and wi0.writes(mm) and nm not in [e for e, _ in extra]:
                    extra.append((nm, "N"))
        for entry, init_state in [("update", "N"), ("prune", "N"), ("initialize", "R")] + extra:
            m = p.lookup_method(cls, entry)
            if m is None:
                r1.error(f"{cls.name}.{entry}", "method not found")
                continue
            if entry == "prune" and q == GPB:
                continue

            def one(cls=cls, m=m, entry=entry, init_state=init_state):
                reads = []
                wi = WeightInterp(p, cls, reads)
                facts = {}
                outs = wi.run(m, init_state, facts)
                r1.paths_enumerated += wi.paths
                cons = f"{cls.qualname}.{entry}"
                bad = [(s, dict(f)) for s, f in outs if s != "N"]
                if entry == "initialize":
                    # exits that return False did not start MMAE; only successful exits matter: they pass through update
                    bad = [(s, f) for s, f in bad if not _init_failed(m, f)]
                if bad and entry == "initialize":
                    # initialize: the `return False` exits leave the (unused) weights raw - accept when update ran on the others
                    okexits = [s for s, f in outs if s == "N"]
                    if okexits:
                        bad = []
                if bad:
                    s, f = bad[0]
                    r1.violation(cons, f"exit-unnormalised:{sorted(f.items())}", f"{cls.name}.{entry} can return with model weights that were not renormalised (path facts {f}): probabilities no longer sum to one", m.loc())
                else:
                    r1.ok(cons, f"{len(outs)} exit state(s), all normalised", m.loc())
                # R2: reads in mixture steps
                mix_reads = [(fn, n, s, f) for fn, n, s, f in reads if fn.name.startswith("_compile")]
                cons2 = f"{cls.qualname}.{entry}:mixture-reads"
                raw = [(fn, n, s, f) for fn, n, s, f in mix_reads if s != "N"]
                if entry == "initialize":
                    raw = []
                if raw:
                    fn, n, s, f = raw[0]
                    r2.violation(cons2, f"raw-weights-in-mixture:{fn.name}", f"`{fn.name}` reads the model weights before they are renormalised on a path of {cls.name}.{entry} (facts {f}): the mixture mean / covariance use weights that do not sum to one", fn.loc(n))
                elif mix_reads:
                    r2.ok(cons2, f"{len(mix_reads)} reads in the compile steps, all in the normalised state", m.loc())
                elif entry != "initialize":
                    r2.undecided(cons2, "no read of the weights in a compile step was reached", m.loc())

            r1.guard(f"{cls.qualname}.{entry}", one)
    # AdaptiveFilter.initialize establishes uniform weights
    af = p.cls(AF)
    ini = af.methods.get("initialize")

    def two():
        asg = {}
        for n in walk_no_nested(ini.node):
            if isinstance(n, ast.Assign) and isinstance(n.targets[0], ast.Attribute):
                asg[n.targets[0].attr] = n.value
        w, mp, ml = asg.get("model_weights"), asg.get("mode_probabilities"), asg.get("model_likelihoods")
        ok = w is not None and normalising_form(w, ini) and mp is not None and normalising_form(mp, ini) and ml is not None and unparse(ml) == "ones(self.num_models)"
        if ok:
            r1.ok(ini.qualname, "weights and mode probabilities start uniform (ones(n)/n)", ini.loc())
        else:
            r1.violation(ini.qualname, "initial-weights", "initial model weights / mode probabilities are not ones(n)/n with the number of created models", ini.loc())

    r1.guard(ini.qualname, two)
    # zero-mass reset precedes the normalisation in both subclasses
    for q in (SMM, GPB):
        cls = p.cls(q)
        m = cls.methods.get("update")

        def three(cls=cls, m=m):
            cfg = cfg_of(m)
            resets = [n for n in cfg.nodes if n.kind == "cond" and "fpe_equals(0.0" in unparse(n.ast)]
            def _sum_var_div(v):
                if not (isinstance(v, ast.BinOp) and isinstance(v.op, ast.Div) and unparse(v.left) == f"self.{W}" and isinstance(v.right, ast.Name)):
                    return False
                ds = [x.value for x in walk_no_nested(m.node) if isinstance(x, ast.Assign) and len(x.targets) == 1 and isinstance(x.targets[0], ast.Name) and x.targets[0].id == v.right.id]
                return bool(ds) and all(isinstance(d, ast.Call) and call_name(d) in SUM_FUNCS and d.args and unparse(d.args[0]) == f"self.{W}" for d in ds)

            norms = [n for n in cfg.nodes if n.kind == "stmt" and isinstance(n.ast, ast.Assign) and unparse(n.ast.targets[0]) == f"self.{W}" and (normalising_form(n.ast.value, m) or _sum_var_div(n.ast.value))]
            if not resets:
                # the reset test may read the total mass through such a local: fpe_equals(0.0, total)
                resets = [n for n in cfg.nodes if n.kind == "cond" and "fpe_equals(" in unparse(n.ast) and ("0.0" in unparse(n.ast))]
            cons = f"{cls.qualname}.update:zero-mass"
            if resets and norms and all(cfg.must_pass(nm.id, via_nodes=[rs.id for rs in resets]) for nm in norms):
                r1.ok(cons, "zero total mass is reset to uniform before dividing", m.loc())
            else:
                r1.violation(cons, "zero-mass-unguarded", "the weights are divided by their sum without the zero-mass reset: likelihood underflow gives NaN probabilities", m.loc())

        r1.guard(f"{cls.qualname}.update:zero-mass", three)


def _init_failed(m, facts):
    return False


def rule_r3(chk, p, t):
    r = chk.rule(
        "C18.R3",
        "guarded removal and parallel-array pairing",
        2,
        "every removal of a model is dominated by `len(self.models) != 1` (or > 1); models, weights, likelihoods, "
        "mode probabilities and the model count shrink together in the same block with the same index, iterating "
        "the indices in reverse",
    )
    af = p.cls(AF)
    pops = []
    for cls in [af] + p.subclasses(af):
        for m in cls.methods.values():
            for c in find_calls(m.node, "pop"):
                if unparse(c.func.value) == "self.models":
                    pops.append((m, c))
            for n in walk_no_nested(m.node):
                if isinstance(n, ast.Delete) and any("self.models" in unparse(x) for x in n.targets):
                    pops.append((m, n))
    if not pops:
        r.error("models.pop", "no model removal site found (1 confirmed by hand)")
    for m, c in pops:
        cons = f"{m.qualname}:models.pop"

        def one(m=m, c=c, cons=cons):
            cfg = cfg_of(m)
            node = cfg.node_of(c)
            conds = cfg.control_conditions(node.id)
            guard = None
            for cid, lab in conds:
                tst = cfg.nodes[cid].ast
                txt = unparse(tst)
                if txt in ("len(self.models) != 1", "len(self.models) > 1", "self.num_models > 1", "self.num_models != 1") and lab is True:
                    guard = cfg.nodes[cid]
                if txt in ("len(self.models) == 1", "len(self.models) <= 1") and lab is False:
                    guard = cfg.nodes[cid]
            if guard is None:
                r.violation(cons, "unguarded-removal", "a model can be removed when it is the last one: at least one model must always remain", m.loc(c))
                return
            # a removal inside a loop must be guarded inside that loop: a test made once before the loop says nothing
            # about the second removal
            from rsa.util import parents_map as _pm

            pmap = _pm(m.node)

            def loops_of(x):
                out = []
                while x in pmap:
                    x = pmap[x]
                    if isinstance(x, (ast.For, ast.While)):
                        out.append(x)
                return out

            lp_pop = loops_of(c)
            g_ast = guard.ast
            holder = next((n for n in ast.walk(m.node) if isinstance(n, (ast.If, ast.While)) and any(x is g_ast for x in ast.walk(n.test))), None)
            lp_guard = loops_of(holder) if holder is not None else []
            if lp_pop and lp_pop[0] not in lp_guard:
                r.violation(cons, "guard-outside-loop", f"the guard `{unparse(guard.ast)}` is evaluated once, outside the loop that removes the models: the second removal of one call is not guarded, so every model can be removed", m.loc(c))
                return
            r.ok(cons, f"guarded by `{unparse(guard.ast)}`", m.loc(c))
            # pairing: the enclosing block shrinks all parallel arrays with the same index
            from rsa.util import parents_map

            pm = parents_map(m.node)
            cur = c
            # the statement list that holds the removal: body of the guarding `if`, or - with an early `continue` guard -
            # the body of the loop itself
            while cur in pm and not isinstance(pm[cur], (ast.If, ast.For, ast.While)):
                cur = pm[cur]
            par = pm.get(cur)
            blk = (par.body if cur in getattr(par, "body", []) else getattr(par, "orelse", [])) if par is not None else []
            idx = unparse(c.args[0]) if isinstance(c, ast.Call) and c.args else None
            shr = {}
            for s in blk:
                if isinstance(s, ast.Assign) and isinstance(s.value, ast.Call) and call_name(s.value) == "delete" and len(s.value.args) == 2:
                    tgt = unparse(s.targets[0])
                    if unparse(s.value.args[0]) == tgt and unparse(s.value.args[1]) == idx:
                        shr[tgt] = True
                if isinstance(s, ast.AugAssign) and isinstance(s.op, ast.Sub) and unparse(s.value) == "1":
                    shr[unparse(s.target)] = True
            need = ["self.model_weights", "self.model_likelihoods", "self.mode_probabilities", "self.num_models"]
            miss = [x for x in need if x not in shr]
            c2 = f"{m.qualname}:parallel-arrays"
            if miss:
                r.violation(c2, "unpaired:" + ",".join(miss), f"removing a model does not shrink {miss} with the same index: weights and models no longer correspond", m.loc(c))
            else:
                r.ok(c2, "weights, likelihoods, mode probabilities and count shrink with the model", m.loc(c))
            loops = [a for a in _anc(c, pm) if isinstance(a, ast.For)]
            if loops and isinstance(loops[0].iter, ast.Call) and call_name(loops[0].iter) in ("reversed", "sorted") and ("reverse=True" in unparse(loops[0].iter) or call_name(loops[0].iter) == "reversed"):
                r.ok(f"{m.qualname}:reverse-order", "indices removed from the back", m.loc(loops[0]))
            elif loops:
                r.violation(f"{m.qualname}:reverse-order", "forward-removal", "indices are removed in forward order: each removal shifts the later indices, so the wrong models are pruned", m.loc(loops[0]))

        r.guard(cons, one)


def _anc(node, pm):
    out = []
    cur = node
    while cur in pm:
        cur = pm[cur]
        out.append(cur)
    return out


# ---------------------------------------------------------------------------------- weighted-mean shape evaluation
def _stack_eval(p, t, fn):
    """Abstract evaluation of a stacking function `(models, weights) -> (mean of pred_x, mean of est_x)`.

    Values: ("models",), ("w",), ("rows", field) = one model vector per row (N, d), ("cols", field) = its transpose,
    ("mean", field) = sum_i w_i x_i, ("across", field, text, cond) = weights applied along the component axis (a
    (N, d) stack times an N-vector: only shape-correct when N == d, and then wrong), ("zero",), ("acc", field) partial
    sum inside the model loop.  Every expression evaluates to a SET of values (one per path); unknown forms -> None."""
    mparam, wparam = fn.params[0], fn.params[1]

    def ev_fn(fi, args, depth=0):
        env = {prm: a for prm, a in zip(fi.params, args)}
        return block(fi, fi.node.body, env, depth, [])

    def block(fi, stmts, env, depth, cond):
        """returns (list of returned value-tuples or None if no return on every path, env) - env is joined"""
        rets = []
        for k, st in enumerate(stmts):
            if isinstance(st, ast.Expr) and isinstance(st.value, ast.Constant):
                continue
            if isinstance(st, (ast.Assign, ast.AnnAssign)) and getattr(st, "value", None) is not None:
                tg = st.targets[0] if isinstance(st, ast.Assign) else st.target
                v = ev(fi, st.value, env, depth, cond)
                if isinstance(tg, ast.Name):
                    if v is None:
                        return None
                    env[tg.id] = v
                    continue
                return None
            if isinstance(st, ast.AugAssign) and isinstance(st.target, ast.Name):
                return None  # only inside the model loop (handled below)
            if isinstance(st, ast.For):
                it = st.iter
                if isinstance(it, ast.Call) and call_name(it) == "zip" and len(it.args) == 2 and isinstance(st.target, ast.Tuple) and len(st.target.elts) == 2:
                    a, b = ev(fi, it.args[0], env, depth, cond), ev(fi, it.args[1], env, depth, cond)
                    if a == {("models",)} and b == {("w",)}:
                        mv, wv = st.target.elts[0].id, st.target.elts[1].id
                        for s2 in st.body:
                            if isinstance(s2, ast.AugAssign) and isinstance(s2.op, ast.Add) and isinstance(s2.target, ast.Name) and env.get(s2.target.id) in ({("zero",)},):
                                e = s2.value
                                fld = None
                                if isinstance(e, ast.BinOp) and isinstance(e.op, ast.Mult):
                                    for x, y in ((e.left, e.right), (e.right, e.left)):
                                        if isinstance(x, ast.Attribute) and isinstance(x.value, ast.Name) and x.value.id == mv and isinstance(y, ast.Name) and y.id == wv:
                                            fld = x.attr
                                if fld is None:
                                    return None
                                env[s2.target.id] = {("mean", fld)}
                            else:
                                return None
                        continue
                return None
            if isinstance(st, ast.If):
                e1, e2 = dict(env), dict(env)
                ctxt = unparse(st.test)
                r1 = block(fi, st.body, e1, depth, cond + [ctxt])
                r2 = block(fi, st.orelse, e2, depth, cond + [f"not ({ctxt})"])
                if r1 is None or r2 is None:
                    return None
                rets += r1[0] + r2[0]
                done1, done2 = r1[2], r2[2]
                if done1 and done2:
                    return rets, env, True
                # join environments of the branches that fall through
                for key in set(e1) | set(e2):
                    a = e1.get(key) if not done1 else None
                    b = e2.get(key) if not done2 else None
                    if a is None and b is None:
                        continue
                    env[key] = (a or set()) | (b or set())
                continue
            if isinstance(st, ast.Return) and st.value is not None:
                v = st.value
                if isinstance(v, ast.Tuple):
                    parts = [ev(fi, x, env, depth, cond) for x in v.elts]
                    if any(x is None for x in parts):
                        return None
                    rets.append(tuple(parts))
                else:
                    x = ev(fi, v, env, depth, cond)
                    if x is None:
                        return None
                    rets.append((x,))
                return rets, env, True
            return None
        return rets, env, False

    def ev(fi, e, env, depth, cond):
        if isinstance(e, ast.Name):
            if e.id in env:
                return env[e.id]
            return None
        if isinstance(e, ast.Constant) and e.value == 0:
            return {("zero",)}
        if isinstance(e, (ast.ListComp, ast.GeneratorExp)) and len(e.generators) == 1 and not e.generators[0].ifs:
            g = e.generators[0]
            src = ev(fi, g.iter, env, depth, cond)
            if src == {("models",)} and isinstance(g.target, ast.Name) and isinstance(e.elt, ast.Attribute) and isinstance(e.elt.value, ast.Name) and e.elt.value.id == g.target.id:
                return {("rows", e.elt.attr)}
            return None
        if isinstance(e, ast.List) and len(e.elts) == 1:
            inner = ev(fi, e.elts[0], env, depth, cond)  # [[...]] -> vstack idiom: an extra leading axis, squeezed by vstack
            return inner
        if isinstance(e, ast.Attribute) and e.attr == "T":
            v = ev(fi, e.value, env, depth, cond)
            if v is None:
                return None
            out = set()
            for x in v:
                if x[0] == "rows":
                    out.add(("cols", x[1]))
                elif x[0] == "cols":
                    out.add(("rows", x[1]))
                else:
                    return None
            return out
        if isinstance(e, ast.Call):
            nm = call_name(e)
            if nm in ("asarray", "array", "atleast_2d", "vstack", "ascontiguousarray", "copy") and e.args:
                v = ev(fi, e.args[0], env, depth, cond)
                return v
            if nm in ("column_stack",) and e.args:
                v = ev(fi, e.args[0], env, depth, cond)
                return {("cols", x[1]) for x in v} if v and all(x[0] == "rows" for x in v) else None
            if nm in ("stack",) and e.args:
                v = ev(fi, e.args[0], env, depth, cond)
                ax = next((const_int(k.value) for k in e.keywords if k.arg == "axis"), 0)
                if v and all(x[0] == "rows" for x in v) and ax in (0, 1, -1):
                    return v if ax == 0 else {("cols", x[1]) for x in v}
                return None
            if nm in ("dot", "matmul") and (len(e.args) == 2 or (isinstance(e.func, ast.Attribute) and len(e.args) == 1 and not (isinstance(e.func.value, ast.Name) and e.func.value.id in ("np", "numpy")))):
                a, b = (e.args[0], e.args[1]) if len(e.args) == 2 else (e.func.value, e.args[0])
                return prod(fi, a, b, env, depth, cond, unparse(e))
            if nm == "average" and e.args:
                v = ev(fi, e.args[0], env, depth, cond)
                kw = {k.arg: k.value for k in e.keywords}
                w = ev(fi, kw["weights"], env, depth, cond) if "weights" in kw else None
                ax = const_int(kw["axis"]) if "axis" in kw else None
                if v and w == {("w",)} and ax is not None:
                    out = set()
                    for x in v:
                        good = (x[0] == "rows" and ax == 0) or (x[0] == "cols" and ax in (1, -1))
                        out.add(("mean", x[1]) if good else ("across", x[1], unparse(e)[:60], " and ".join(cond)))
                    return out
                return None
            # helper function of the module: evaluate its body with abstract arguments
            if isinstance(e.func, ast.Name) and depth < 3:
                tgs = [x for x in t.callees(e, fi) if hasattr(x, "node") and isinstance(x.node, ast.FunctionDef)]
                if len(tgs) == 1 and not e.keywords:
                    args = [ev(fi, a, env, depth, cond) for a in e.args]
                    if any(a is None for a in args):
                        return None
                    rr = block(tgs[0], tgs[0].node.body, {prm: a for prm, a in zip(tgs[0].params, args)}, depth + 1, list(cond))
                    if rr is None or not rr[0]:
                        return None
                    out = set()
                    for tup in rr[0]:
                        if len(tup) != 1:
                            return None
                        out |= tup[0]
                    return out
            return None
        if isinstance(e, ast.BinOp) and isinstance(e.op, ast.MatMult):
            return prod(fi, e.left, e.right, env, depth, cond, unparse(e))
        return None

    def prod(fi, a, b, env, depth, cond, txt):
        va, vb = ev(fi, a, env, depth, cond), ev(fi, b, env, depth, cond)
        if va is None or vb is None:
            return None
        out = set()
        for x in va:
            for y in vb:
                if x[0] == "cols" and y == ("w",):
                    out.add(("mean", x[1]))
                elif x == ("w",) and y[0] == "rows":
                    out.add(("mean", y[1]))
                elif x[0] == "rows" and y == ("w",):
                    out.add(("across", x[1], txt[:60], " and ".join(cond)))
                elif x == ("w",) and y[0] == "cols":
                    out.add(("across", y[1], txt[:60], " and ".join(cond)))
                else:
                    return None
        return out

    def const_int(n):
        if isinstance(n, ast.Constant) and isinstance(n.value, int):
            return n.value
        if isinstance(n, ast.UnaryOp) and isinstance(n.op, ast.USub) and isinstance(n.operand, ast.Constant):
            return -n.operand.value
        return None

    rr = block(fn, fn.node.body, {mparam: {("models",)}, wparam: {("w",)}}, 0, [])
    if rr is None or not rr[0]:
        return None
    preds, ests = set(), set()
    for tup in rr[0]:
        if len(tup) != 2:
            return None
        preds |= tup[0]
        ests |= tup[1]
    return preds, ests


def rule_r4(chk, p, t):
    r = chk.rule(
        "C18.R4",
        "mixture freshness and formulas",
        6,
        "the mixture mean is assigned from the stacking function before the covariance loop reads it; mean = sum w x, "
        "covariance = sum w (P + (x - mean)(x - mean)^T); likelihood = exp(-nis/2)/sqrt((2 pi)^m det S) in both "
        "subclasses; Bayes step multiplies prior weight by likelihood; the converged filter is built from the "
        "combined estimate",
        "Bayes-rule values",
    )
    af = p.cls(AF)
    cu = af.methods.get("_compileUpdateStep")

    def _mixture_accumulations(fn):
        """Every moment-matched accumulation in `fn`: list of dicts (field, loop, acc statement, ok, why) for the
        covariance fields pred_p / est_p.  The accumulator may be the field itself or a local that is assigned to the
        field after the loop; the difference vector may be a local or written inline; one loop may serve both fields."""
        out = {}
        body_stmts = list(walk_no_nested(fn.node))
        loops = [n for n in body_stmts if isinstance(n, ast.For)]
        fdefs = {}
        for n in body_stmts:
            if isinstance(n, ast.Assign) and len(n.targets) == 1 and isinstance(n.targets[0], ast.Name):
                fdefs.setdefault(n.targets[0].id, []).append(n.value)

        def seq_elem(e):
            """The element of a sequence that runs parallel to the models: MODEL, WT or MODEL.<attr>."""
            if isinstance(e, ast.Name) and len(fdefs.get(e.id, [])) == 1:
                e = fdefs[e.id][0]
            if unparse(e) == "self.models":
                return ast.Name(id="MODEL", ctx=ast.Load())
            if unparse(e) == "self.model_weights":
                return ast.Name(id="WT", ctx=ast.Load())
            if isinstance(e, (ast.ListComp, ast.GeneratorExp)) and len(e.generators) == 1 and not e.generators[0].ifs and unparse(e.generators[0].iter) == "self.models" and isinstance(e.generators[0].target, ast.Name):
                v = e.generators[0].target.id

                class M(ast.NodeTransformer):
                    def visit_Name(self, n):
                        return ast.copy_location(ast.Name(id="MODEL", ctx=n.ctx), n) if n.id == v else n

                import copy as _c

                return M().visit(_c.deepcopy(e.elt))
            return None

        for lp in loops:
            it = lp.iter
            if not (isinstance(it, ast.Call) and call_name(it) == "zip" and isinstance(lp.target, ast.Tuple) and len(lp.target.elts) == len(it.args) and all(isinstance(x, ast.Name) for x in lp.target.elts)):
                continue
            elems = [seq_elem(a) for a in it.args]
            if any(e is None for e in elems) or not any(unparse(e) == "WT" for e in elems):
                continue
            bind = {x.id: e for x, e in zip(lp.target.elts, elems)}
            mdl, wt = "MODEL", "WT"
            ldefs = dict(bind)
            for st in lp.body:
                if isinstance(st, ast.Assign) and len(st.targets) == 1 and isinstance(st.targets[0], ast.Name):
                    ldefs[st.targets[0].id] = st.value
            for st in lp.body:
                if not (isinstance(st, ast.AugAssign) and isinstance(st.op, ast.Add)):
                    continue
                acc = unparse(st.target)
                fld = None
                if acc in ("self.pred_p", "self.est_p"):
                    fld = acc.split(".")[1]
                else:
                    # a local accumulator handed to the field after the loop
                    hand = [n for n in body_stmts if isinstance(n, ast.Assign) and unparse(n.value) == acc and unparse(n.targets[0]) in ("self.pred_p", "self.est_p") and n.lineno > lp.lineno]
                    if len(hand) == 1:
                        fld = unparse(hand[0].targets[0]).split(".")[1]
                if fld is None:
                    continue
                x = "pred_x" if fld == "pred_p" else "est_x"

                class I(ast.NodeTransformer):
                    def visit_Name(self, n):
                        return I().visit(copy_.deepcopy(ldefs[n.id])) if n.id in ldefs else n

                import copy as copy_

                val = I().visit(copy_.deepcopy(st.value))
                want = f"{wt} * ({mdl}.{fld} + outer({mdl}.{x} - self.{x}, {mdl}.{x} - self.{x}))"
                ok = canon(val) == canon(ast.parse(want, mode="eval").body)
                zeros_before = [n for n in body_stmts if isinstance(n, ast.Assign) and unparse(n.targets[0]) == acc and isinstance(n.value, ast.Call) and call_name(n.value) == "zeros" and n.lineno < lp.lineno]
                out.setdefault(fld, []).append(dict(loop=lp, stmt=st, ok=ok, zero=zeros_before, acc=acc))
        return out

    def f1():
        stk = [n for n in walk_no_nested(cu.node) if isinstance(n, ast.Assign) and isinstance(n.value, ast.Call) and unparse(n.value.func) == "self.stacking_method"]
        require(len(stk) == 1, "stacking_method is not called exactly once", cu.node)
        s = stk[0]
        ok_t = unparse(s.targets[0]) in ("(self.pred_x, self.est_x)", "self.pred_x, self.est_x")
        ok_a = [unparse(a) for a in s.value.args] == ["self.models", "self.model_weights"]
        accs = _mixture_accumulations(cu)
        loops = [a["loop"] for v in accs.values() for a in v]
        ok_o = bool(loops) and all(lp.lineno > s.lineno for lp in loops)
        if ok_t and ok_a and ok_o:
            r.ok(cu.qualname + ":freshness", "mean <- stacking(models, weights) before the covariance loop", cu.loc(s))
        else:
            r.violation(cu.qualname + ":freshness", f"freshness:{ok_t}:{ok_a}:{bool(ok_o)}", "the mixture covariance is formed about a mean that was not (yet) recomputed from the current weights", cu.loc(s))
        ok_f = True
        for fld in ("pred_p", "est_p"):
            a = accs.get(fld, [])
            if len(a) != 1 or not a[0]["ok"]:
                ok_f = False
                continue
            zs = [z for z in a[0]["zero"] if z.lineno > s.lineno]
            if not zs:
                ok_f = False
        if ok_f:
            r.ok(cu.qualname + ":covariance", "P = sum w (P_i + (x_i - x)(x_i - x)^T), accumulated from zero (predicted and estimated)", cu.loc())
        else:
            r.violation(cu.qualname + ":covariance", "mixture-covariance", "the combined covariance is not the moment-matched mixture sum w (P_i + (x_i - mean)(x_i - mean)^T) accumulated from zero", cu.loc())

    r.guard(cu.qualname, f1)
    es = p.func("resonaate.estimation.adaptive.mmae_stacking_utils.eciStack")

    def f2():
        res = _stack_eval(p, t, es)
        want = ({("mean", "pred_x")}, {("mean", "est_x")})
        if res is None:
            raise Undecided("eciStack: the stacking function is not built from the recognised weighted-mean forms", es.node)
        bad = []
        for vals, w, nm in zip(res, want, ("predicted", "estimated")):
            extra = vals - w
            for v in sorted(extra, key=repr):
                if v[0] == "across":
                    bad.append(f"the {nm} mean can be `{v[2]}`: the weights multiply the COMPONENTS of each model's `{v[1]}` instead of the models" + (f" whenever `{v[3]}`" if len(v) > 3 and v[3] else "") + " - the layout of the stacked vectors is guessed from their shape, which is ambiguous when the number of models equals the state dimension (6)")
                elif v[0] == "mean":
                    bad.append(f"the {nm} slot returns the weighted mean of `{v[1]}`")
                else:
                    bad.append(f"the {nm} mean can be `{v}`")
            if not (vals & w):
                bad.append(f"no path returns the probability-weighted mean of the models' {w and sorted(w)[0][1]} in the {nm} slot")
        if bad:
            r.violation(es.qualname, "stacking:" + ";".join(sorted(set(b[:60] for b in bad))), "the stacking function is not the probability-weighted mean of the model states, returned as (predicted, estimated): " + "; ".join(sorted(set(bad))), es.loc())
        else:
            r.ok(es.qualname, "mean = sum w_i x_i (predicted, estimated) on every path", es.loc())

    r.guard(es.qualname, f2)
    want_l = "exp(-0.5 * model.nis) / sqrt((2 * const.PI) ** self.true_y.shape[0] * det(model.innov_cvr))"
    for q in (SMM, GPB):
        cls = p.cls(q)
        m = cls.methods.get("update")

        def f3(cls=cls, m=m):
            lk = [n for n in walk_no_nested(m.node) if isinstance(n, ast.Assign) and isinstance(n.targets[0], ast.Subscript) and unparse(n.targets[0].value) == "self.model_likelihoods"]
            require(len(lk) == 1, "likelihood assignment not found", m.node)
            ok = canon(lk[0].value) == canon(ast.parse(want_l, mode="eval").body) and unparse(lk[0].targets[0].slice) == "num"
            loops = [n for n in walk_no_nested(m.node) if isinstance(n, ast.For) and lk[0] in list(ast.walk(n))]
            ok = ok and loops and unparse(loops[0].iter) == "enumerate(self.models)"
            if ok:
                r.ok(f"{cls.qualname}.update:likelihood", "Gaussian likelihood of each model's own innovation", m.loc(lk[0]))
            else:
                r.violation(f"{cls.qualname}.update:likelihood", f"likelihood:{unparse(lk[0].value)[:80]}", f"the model likelihood is `{unparse(lk[0].value)[:100]}`, expected `{want_l}` for model `num`", m.loc(lk[0]))
            if cls.name.startswith("Static"):
                by = [n for n in walk_no_nested(m.node) if isinstance(n, ast.Assign) and isinstance(n.targets[0], ast.Subscript) and unparse(n.targets[0].value) == f"self.{W}"]
                aug = [n for n in walk_no_nested(m.node) if isinstance(n, ast.AugAssign) and isinstance(n.target, ast.Subscript) and unparse(n.target.value) == f"self.{W}"]
                okb = len(by) == 1 and not aug and canon(by[0].value) == canon(ast.parse(f"self.{W}[num] * self.model_likelihoods[num]", mode="eval").body) and by[0].lineno > lk[0].lineno
                if not by and len(aug) == 1:
                    # `w[num] *= L[num]` is the same element update
                    okb = isinstance(aug[0].op, ast.Mult) and unparse(aug[0].target.slice) == "num" and unparse(aug[0].value) == "self.model_likelihoods[num]" and aug[0].lineno > lk[0].lineno
                    by = aug
                if okb:
                    r.ok(f"{cls.qualname}.update:bayes", "w_i <- w_i * L_i (then renormalised)", m.loc(by[0]))
                else:
                    r.violation(f"{cls.qualname}.update:bayes", "bayes-step", "the weight update is not prior weight times the model's own likelihood", m.loc())
            else:
                defs = single_defs(m.node)
                by = [n for n in walk_no_nested(m.node) if isinstance(n, ast.Assign) and unparse(n.targets[0]) == f"self.{W}"]
                okb = len(by) == 1 and canon(by[0].value) == canon(ast.parse("self.model_likelihoods * self.mode_probabilities / c", mode="eval").body)
                cs = [n for n in walk_no_nested(m.node) if isinstance(n, ast.Assign) and unparse(n.targets[0]) == "c"]
                okb = okb and cs and all(unparse(x.value) in ("dot(self.model_likelihoods, self.mode_probabilities)", "dot(self.mode_probabilities, self.model_likelihoods)") for x in cs)
                mp = [n for n in walk_no_nested(m.node) if isinstance(n, ast.Assign) and unparse(n.targets[0]) == "self.mode_probabilities"]
                okm = len(mp) == 1 and unparse(mp[0].value) in ("matmul(mix_matrix, self.model_weights)", "mix_matrix @ self.model_weights", "mix_matrix.dot(self.model_weights)") and by and mp[0].lineno > by[0].lineno
                # the normaliser belongs to the likelihoods it divides: no store to the likelihoods may reach the
                # Bayes step without `c` being recomputed (underflow reset sets them to one)
                cfg = cfg_of(m)
                if by and cs:
                    tgt = cfg.node_of(by[0])
                    cnodes = [cfg.node_of(x).id for x in cs]
                    for n in cfg.nodes:
                        if n.kind != "stmt" or not isinstance(n.ast, (ast.Assign, ast.AugAssign)):
                            continue
                        tg = n.ast.targets[0] if isinstance(n.ast, ast.Assign) else n.ast.target
                        b = tg
                        while isinstance(b, ast.Subscript):
                            b = b.value
                        if unparse(b) in ("self.model_likelihoods", "self.mode_probabilities") and n.id != tgt.id and tgt.id in cfg.reachable(n.id) and not cfg.must_pass(tgt.id, via_nodes=cnodes, start=n.id):
                            # a path from this store to the Bayes step that bypasses every `c = ...`
                            pre = [x for x in cnodes if n.id in cfg.reachable(x)]
                            if pre:
                                okb = False
                                r.violation(f"{cls.qualname}.update:normaliser", f"stale-normaliser:{unparse(n.ast)[:50]}", f"`{unparse(n.ast)[:70]}` changes the likelihoods / mode probabilities after `c` was computed and a path reaches `{unparse(by[0])[:60]}` without recomputing it: after the underflow reset the weights are divided by the old, vanishing normaliser - infinite or astronomically large 'probabilities' that do not sum to one", m.loc(n.ast))
                                break
                if okb and okm:
                    r.ok(f"{cls.qualname}.update:bayes", "w = L * mu / (L . mu); mu <- M w", m.loc())
                else:
                    r.violation(f"{cls.qualname}.update:bayes", f"bayes-step:{okb}:{okm}", "the GPB1 weight update is not (likelihood * mode probability) / their dot product followed by mixing", m.loc())
                _ = defs

        r.guard(f"{cls.qualname}.update", f3)
    rs = af.methods.get("_resumeSequentialFiltering")

    def f4():
        ctor = [c for c in walk_no_nested(rs.node) if isinstance(c, ast.Call) and unparse(c.func) == "self._filter_class"]
        require(len(ctor) == 1, "converged filter is not constructed once", rs.node)
        kws = {k.arg: unparse(k.value) for k in ctor[0].keywords if k.arg}
        exp = dict(tgt_id="self.target_id", time="self.time", est_x="self.est_x", est_p="self.est_p", dynamics="self.dynamics", q_matrix="self.q_matrix")
        bad = [f"{k}={kws.get(k)}" for k, v in exp.items() if kws.get(k) != v]
        if bad:
            r.violation(rs.qualname, "handed-back-filter:" + ";".join(bad), f"the filter handed back after closure is not built from the combined estimate / covariance at the current time: {bad}", rs.loc(ctor[0]))
        else:
            r.ok(rs.qualname, "converged filter <- (time, est_x, est_p, dynamics, q) of the surviving mixture", rs.loc(ctor[0]))

    r.guard(rs.qualname, f4)


MIXTURE_INPUT = ("models", "model_weights", "mode_probabilities")


def rule_r5(chk, p, t):
    r = chk.rule(
        "C18.R5",
        "closure hands back the surviving model",
        3,
        "at every call of `_resumeSequentialFiltering` (it copies the combined estimate, covariance and update "
        "products into the handed-back filter): (a) on every path, each store to the models / weights / mode "
        "probabilities is followed by a recompilation of the mixture (prune or _compileUpdateStep) before the call; "
        "(b) nothing reachable after the call changes a field the call has read; (c) in the pruning filter the call "
        "is reached only with one model left: control-dependent on `len(self.models) == 1`, or every path to it "
        "passes through `self.prune(...)` of every model but the solution",
        "that the pruned indices are the right ones at run time",
    )
    from rsa.effects import EffectAnalysis

    ea = EffectAnalysis(p, t)
    af = p.cls(AF)
    rs = af.methods.get("_resumeSequentialFiltering")
    require(rs is not None, "_resumeSequentialFiltering not found", af.node)
    # fields read by the hand-over
    read = set()
    for n in ast.walk(rs.node):
        if isinstance(n, ast.Attribute) and isinstance(n.value, ast.Name) and n.value.id == "self" and isinstance(n.ctx, ast.Load):
            read.add(n.attr)
        if isinstance(n, ast.List) and n.elts and all(isinstance(e, ast.Constant) and isinstance(e.value, str) for e in n.elts):
            read |= {e.value for e in n.elts}
    read -= {"flags", "_filter_class", "_original_filter", "_converged_filter", "logger"}
    require({"est_x", "est_p"} <= read, "the hand-over does not read est_x / est_p", rs.node)
    compile_names = {"prune", "_compileUpdateStep"}

    def self_call(st, names):
        return [c for c in ast.walk(st) if isinstance(c, ast.Call) and isinstance(c.func, ast.Attribute) and isinstance(c.func.value, ast.Name) and c.func.value.id == "self" and c.func.attr in names]

    sites = []
    for cls in [af] + p.subclasses(af):
        for m in cls.methods.values():
            if m is rs:
                continue
            for c in find_calls(m.node, "_resumeSequentialFiltering"):
                sites.append((cls, m, c))
    for cls, m, c in sites:
        cons = f"{m.qualname}:resume"

        def one(cls=cls, m=m, c=c, cons=cons):
            cfg = cfg_of(m)
            site = cfg.node_of(c)
            compile_nodes = [n.id for n in cfg.stmt_nodes() if n.kind in ("stmt", "cond", "return") and self_call(n.ast, compile_names)]
            bad = []
            # (a) freshness
            for n in cfg.stmt_nodes():
                if n.kind != "stmt" or n.id == site.id:
                    continue
                tg = []
                if isinstance(n.ast, ast.Assign):
                    tg = n.ast.targets
                elif isinstance(n.ast, ast.AugAssign):
                    tg = [n.ast.target]
                stores = []
                for x in tg:
                    b = x
                    while isinstance(b, ast.Subscript):
                        b = b.value
                    if isinstance(b, ast.Attribute) and isinstance(b.value, ast.Name) and b.value.id == "self" and b.attr in MIXTURE_INPUT:
                        stores.append(b.attr)
                if not stores:
                    continue
                if site.id in cfg.reachable(n.id) and not cfg.must_pass(site.id, via_nodes=compile_nodes, start=n.id):
                    bad.append(f"stale-mixture:{stores[0]}")
                    r.violation(cons, f"stale-mixture:{stores[0]}", f"`{unparse(n.ast)[:70]}` changes {stores} and a path reaches the hand-over without recompiling the mixture: the filter handed back carries the estimate of the old weights", m.loc(n.ast))
            # (b) nothing after the call changes what it read
            after = cfg.reachable(site.id) - {site.id}
            for nid in sorted(after):
                n = cfg.nodes[nid]
                if n.ast is None or n.kind not in ("stmt", "cond", "return"):
                    continue
                for cc in self_call(n.ast, None) if False else [x for x in ast.walk(n.ast) if isinstance(x, ast.Call) and isinstance(x.func, ast.Attribute) and isinstance(x.func.value, ast.Name) and x.func.value.id == "self"]:
                    callee = p.lookup_method(cls, cc.func.attr)
                    if callee is None:
                        continue
                    w = sorted({e.first_field for e in ea.effects(callee) if e.root == "self" and e.first_field in (read | set(MIXTURE_INPUT))})
                    if w:
                        bad.append(f"changed-after:{cc.func.attr}")
                        r.violation(cons, f"changed-after-handover:{cc.func.attr}", f"`self.{cc.func.attr}(...)` runs after the hand-over and changes {w[:6]}: the filter handed back was built from the mixture before that change (e.g. before the losing models were pruned), not from the surviving model", m.loc(cc))
                if isinstance(n.ast, (ast.Assign, ast.AugAssign)):
                    for x in n.ast.targets if isinstance(n.ast, ast.Assign) else [n.ast.target]:
                        b = x
                        while isinstance(b, ast.Subscript):
                            b = b.value
                        if isinstance(b, ast.Attribute) and isinstance(b.value, ast.Name) and b.value.id == "self" and b.attr in (read | set(MIXTURE_INPUT)):
                            bad.append(f"changed-after:{b.attr}")
                            r.violation(cons, f"changed-after-handover:{b.attr}", f"`{unparse(n.ast)[:70]}` changes a field the hand-over has already copied", m.loc(n.ast))
            # (c) single model (pruning filter only)
            if cls.name.startswith("Static"):
                conds = cfg.control_conditions(site.id)
                single = any((unparse(cfg.nodes[cid].ast) in ("len(self.models) == 1", "self.num_models == 1") and lab is True) or (unparse(cfg.nodes[cid].ast) in ("len(self.models) != 1", "len(self.models) > 1") and lab is False) for cid, lab in conds)
                prune_nodes = [n.id for n in cfg.stmt_nodes() if n.kind in ("stmt", "cond", "return") and self_call(n.ast, {"prune"})]
                via_prune = bool(prune_nodes) and cfg.must_pass(site.id, via_nodes=prune_nodes)
                if via_prune and not single:
                    # the pruned index set must be the complement of the solution: weights < the closing threshold
                    pc = self_call(cfg.nodes[prune_nodes[0]].ast, {"prune"})[0]
                    idx = inline_locals(m.node, pc.args[0]) if pc.args else None
                    sol = None
                    exactly_one = False
                    for cid, lab in conds:
                        tst = inline_locals(m.node, cfg.nodes[cid].ast)
                        if "argwhere" in unparse(tst):
                            # `X.size == 1` taken, or `X.size != 1` not taken
                            if isinstance(tst, ast.Compare) and len(tst.ops) == 1 and unparse(tst.comparators[0]) == "1" and unparse(tst.left).endswith(".size"):
                                if (isinstance(tst.ops[0], ast.Eq) and lab is True) or (isinstance(tst.ops[0], ast.NotEq) and lab is False):
                                    sol, exactly_one = tst, True
                            elif lab is True:
                                sol = tst
                    itxt = unparse(idx) if idx is not None else ""
                    stxt = unparse(sol) if sol is not None else ""
                    comp = "self.model_weights < self.prune_percentage" in itxt and "self.model_weights >= self.prune_percentage" in stxt and exactly_one
                    if not comp:
                        bad.append("prune-set")
                        r.violation(cons, f"prune-set:{itxt[:60]}", f"closing prunes `{itxt[:80]}` under `{stxt[:80]}`: expected every model below the closing percentage when exactly one is at or above it, so that one model survives", m.loc(pc))
                if not (single or via_prune):
                    bad.append("several-models")
                    r.violation(cons, "several-models-at-handover", "the hand-over can be reached with several models left (neither guarded by `len(self.models) == 1` nor preceded on every path by prune): the filter handed back is a mixture, not the surviving model", m.loc(c))
            if not bad:
                r.ok(cons, "mixture recompiled before the hand-over, nothing changes it afterwards" + ("; one model left" if cls.name.startswith("Static") else ""), m.loc(c))

        r.guard(cons, one)


def rule_r6(chk, p, t):
    r = chk.rule(
        "C18.R6",
        "the agent installs a started multiple-model filter and takes the surviving model back",
        4,
        "the adaptive filter announces its closure on ITSELF (flag ADAPTIVE_ESTIMATION_CLOSE + converged_filter, set by "
        "_resumeSequentialFiltering - also when it closes on the update run inside initialize()), and the agent looks for "
        "that flag on `self.nominal_filter` only.  So: (a) in EstimateAgent._beginAdaptiveEstimation the filter built by "
        "adaptiveEstimationFactory is installed by `_resetFilter(<that filter>)` whenever its initialize() returned true - "
        "the installation is control-dependent on that result alone; (b) _handleMMAE tests the CLOSE flag of "
        "`self.nominal_filter` AFTER the call that may start adaptive estimation (a closure in the same step is seen), "
        "and under it installs `self.nominal_filter.converged_filter` and clears the flag; (c) _update reaches _handleMMAE "
        "whenever adaptive estimation is configured and there are observations",
        "which model survives (R5) and its numbers",
    )
    ag = p.cls("resonaate.agents.estimate_agent.EstimateAgent")
    begin, handle, upd = ag.methods.get("_beginAdaptiveEstimation"), ag.methods.get("_handleMMAE"), ag.methods.get("_update")
    require(begin is not None and handle is not None and upd is not None, "EstimateAgent._beginAdaptiveEstimation / _handleMMAE / _update not found", ag.node)

    def truth_atoms(test, lab):
        """[(atom text, polarity)] that are certainly implied by `test` evaluating to `lab` (conjunction on True, disjunction on
        False); None for an atom whose value is not fixed."""
        if isinstance(test, ast.UnaryOp) and isinstance(test.op, ast.Not):
            return truth_atoms(test.operand, not lab)
        if isinstance(test, ast.BoolOp) and ((isinstance(test.op, ast.And) and lab) or (isinstance(test.op, ast.Or) and not lab)):
            out = []
            for v in test.values:
                out += truth_atoms(v, lab)
            return out
        if isinstance(test, ast.Call) and call_name(test) == "bool" and len(test.args) == 1:
            return truth_atoms(test.args[0], lab)
        return [(unparse(test), lab)]

    def a():
        cfg = cfg_of(begin)
        defs = single_defs(begin.node)
        made = [n for n, v in defs.items() if isinstance(v, ast.Call) and call_name(v) == "adaptiveEstimationFactory"]
        require(len(made) == 1, "the adaptive filter is not built by one adaptiveEstimationFactory(...) call bound to a local", begin.node)
        flt = made[0]
        inits = [c for c in find_calls(begin.node, "initialize") if unparse(c.func.value) == flt]
        require(len(inits) == 1, f"{flt}.initialize(...) is not called exactly once", begin.node)
        started = [n for n, v in defs.items() if v is inits[0]]
        installs = [c for c in find_calls(begin.node, "_resetFilter") if len(c.args) == 1 and unparse(c.args[0]) == flt]
        cons = begin.qualname + ":install"
        if not installs:
            r.violation(cons, "started-filter-not-installed", f"`{flt}` is never handed to _resetFilter: a started multiple-model filter is discarded", begin.loc())
            return
        init_node = cfg.node_of(inits[0])
        before = {cid for cid, _ in cfg.control_conditions(init_node.id)}
        extra, seen_started = [], False
        for c in installs:
            for cid, lab in cfg.control_conditions(cfg.node_of(c).id):
                if cid in before:
                    continue
                for txt, pol in truth_atoms(cfg.nodes[cid].ast, lab):
                    if (started and txt == started[0]) or txt == unparse(inits[0]):
                        seen_started = seen_started or pol is True
                        if pol is not True:
                            extra.append(f"not {txt}")
                    else:
                        extra.append(txt if pol else f"not ({txt})")
        others = [c for c in find_calls(begin.node, "_resetFilter") if c not in installs and any(isinstance(x, ast.Name) and x.id == flt for x in ast.walk(c))]
        if extra and others:
            raise Undecided(f"the started filter is installed under `{' and '.join(extra)[:80]}` and `{unparse(others[0])[:60]}` runs elsewhere: another closing protocol", others[0])
        if extra:
            r.violation(cons, "started-filter-dropped:" + ";".join(e[:50] for e in extra), f"`_resetFilter({flt})` runs only when additionally `{' and '.join(extra)[:120]}`: a filter whose initialize() returned true is then NOT installed, yet it is the only object that carries the CLOSE flag and the surviving model (a filter that closes on the update inside initialize() is silently discarded and the agent keeps the pre-manoeuvre filter)", begin.loc(installs[0]))
        elif not seen_started:
            r.violation(cons, "installed-unstarted", f"`_resetFilter({flt})` does not depend on the result of initialize(): a filter that could not start (no models) replaces the nominal filter", begin.loc(installs[0]))
        else:
            r.ok(cons, f"_resetFilter({flt}) control-dependent on the result of initialize() alone", begin.loc(installs[0]))

    def b():
        cfg = cfg_of(handle)
        cons = handle.qualname + ":close"
        closes = [n for n in cfg.nodes.values() if n.kind == "cond" and "ADAPTIVE_ESTIMATION_CLOSE" in unparse(n.ast)] if isinstance(cfg.nodes, dict) else [n for n in cfg.nodes if n.kind == "cond" and "ADAPTIVE_ESTIMATION_CLOSE" in unparse(n.ast)]
        require(len(closes) == 1, "one test of ADAPTIVE_ESTIMATION_CLOSE expected in _handleMMAE", handle.node)
        cl = closes[0]
        tst = cl.ast
        ok_test = isinstance(tst, ast.Compare) and len(tst.ops) == 1 and isinstance(tst.ops[0], ast.In) and unparse(tst.comparators[0]) == "self.nominal_filter.flags"
        bad = []
        if not ok_test:
            raise Undecided(f"closure test `{unparse(tst)[:80]}`", tst)
        starts = find_calls(handle.node, "_beginAdaptiveEstimation")
        require(len(starts) >= 1, "_handleMMAE does not call _beginAdaptiveEstimation", handle.node)
        for sc in starts:
            sn = cfg.node_of(sc)
            if sn.id in cfg.reachable(cl.id) - {cl.id}:
                bad.append("the CLOSE flag is tested BEFORE adaptive estimation may be started in the same call: a filter that closes on its first update keeps the flag (and the mixture filter stays installed) until the next observed step")
        resets = [c for c in find_calls(handle.node, "_resetFilter")]
        good = [c for c in resets if len(c.args) == 1 and unparse(inline_locals(handle, c.args[0])) == "self.nominal_filter.converged_filter" and (cl.id, True) in cfg.control_conditions(cfg.node_of(c).id)]
        if not good:
            bad.append("under the CLOSE flag the agent does not install `self.nominal_filter.converged_filter`")
        cleared = False
        for n in walk_no_nested(handle.node):
            if isinstance(n, ast.AugAssign) and unparse(n.target) == "self.nominal_filter.flags" and "ADAPTIVE_ESTIMATION_CLOSE" in unparse(n.value) and isinstance(n.op, (ast.BitXor, ast.BitAnd)):
                node = cfg.node_of(n)
                if (cl.id, True) in cfg.control_conditions(node.id):
                    cleared = True
                    # the flag must be cleared on the mixture filter, i.e. before the nominal filter is replaced
                    for c in good:
                        if node.id in cfg.reachable(cfg.node_of(c).id) - {cfg.node_of(c).id}:
                            bad.append("the flag is cleared after the filter was replaced - on the new filter, which never carried it")
        if not cleared:
            bad.append("the CLOSE flag is not cleared under the test")
        if bad:
            r.violation(cons, "close-protocol:" + ";".join(b_[:40] for b_ in bad), "; ".join(bad), handle.loc(tst))
        else:
            r.ok(cons, "CLOSE tested on self.nominal_filter after the start attempt; converged_filter installed; flag cleared", handle.loc(tst))

    def c():
        cfg = cfg_of(upd)
        calls = find_calls(upd.node, "_handleMMAE")
        cons = upd.qualname + ":handle"
        if not calls:
            r.violation(cons, "mmae-not-handled", "_update never calls _handleMMAE: a closed multiple-model filter is never replaced by the surviving model", upd.loc())
            return
        atoms = []
        for cid, lab in cfg.control_conditions(cfg.node_of(calls[0]).id):
            atoms += truth_atoms(cfg.nodes[cid].ast, lab)
        allowed = {("self.adaptive_filter_config", True), (upd.params[1], True), (f"len({upd.params[1]}) > 0", True), (f"len({upd.params[1]}) == 0", False), ("self.adaptive_filter_config is not None", True), ("self.adaptive_filter_config is None", False)}
        extra = [f"{'' if pol else 'not '}{txt}" for txt, pol in atoms if (txt, pol) not in allowed]
        if extra:
            r.violation(cons, "mmae-handling-conditional:" + ";".join(e[:40] for e in extra), f"_handleMMAE runs only when additionally `{' and '.join(extra)[:100]}`: on the other steps a closed filter is not replaced by the surviving model", upd.loc(calls[0]))
        else:
            r.ok(cons, f"reached whenever adaptive estimation is configured and the step has observations ({sorted(set(t_ for t_, _ in atoms))})", upd.loc(calls[0]))

    r.guard(begin.qualname + ":install", a)
    r.guard(handle.qualname + ":close", b)
    r.guard(upd.qualname + ":handle", c)
    # the filter side of the protocol: the hand-over raises the flag and builds the converged filter
    af = p.cls(AF)
    rs = af.methods.get("_resumeSequentialFiltering")

    def d():
        require(rs is not None, "_resumeSequentialFiltering not found", af.node)
        cfg = cfg_of(rs)
        sets = [n for n in walk_no_nested(rs.node) if isinstance(n, ast.AugAssign) and unparse(n.target) == "self.flags" and isinstance(n.op, ast.BitOr) and "ADAPTIVE_ESTIMATION_CLOSE" in unparse(n.value)]
        conv = [n for n in walk_no_nested(rs.node) if isinstance(n, ast.Assign) and unparse(n.targets[0]) == "self._converged_filter"]
        cons = rs.qualname + ":announce"
        bad = []
        if not sets or any(cfg.control_conditions(cfg.node_of(n).id) for n in sets[:1]):
            bad.append("the CLOSE flag is not raised unconditionally")
        if not conv or any(cfg.control_conditions(cfg.node_of(n).id) for n in conv[:1]):
            bad.append("the converged filter is not built unconditionally")
        prop = af.methods.get("converged_filter") or next((m for m in af.methods.values() if m.name == "converged_filter"), None)
        if prop is not None:
            rets = [n for n in walk_no_nested(prop.node) if isinstance(n, ast.Return) and n.value is not None]
            if not (len(rets) == 1 and unparse(rets[0].value) == "self._converged_filter"):
                bad.append(f"the converged_filter property returns `{unparse(rets[0].value) if rets else None}`")
        if bad:
            r.violation(cons, "announce:" + ";".join(b_[:40] for b_ in bad), "; ".join(bad), rs.loc())
        else:
            r.ok(cons, "flag raised and converged filter built on every path of the hand-over", rs.loc())

    r.guard("announce", d)


def rule_r7(chk, p, t):
    from rules.shared_fresh import rule_factories_fresh

    rule_factories_fresh(
        chk, p, t, "C18.R7", "every estimate gets a multiple-model filter of its own",
        "model weights, the per-model filters and the CLOSE flag are the state of one estimate's adaptive estimation.",
        ["resonaate.estimation.adaptiveEstimationFactory"],
        "two estimates would prune and re-weight one set of models: the probabilities no longer describe either of them",
    )


_CLIPS = {"maximum", "minimum", "clip", "fmax", "fmin", "floor", "ceil", "round", "rint", "trunc", "where", "heaviside", "sign", "around", "fix", "nan_to_num"}
_SUMS = {"sum", "np_sum", "nansum", "fsum"}


def rule_r8(chk, p, t):
    r = chk.rule(
        "C18.R8",
        "weights formed as shares of a total are never 0 / 0 by construction",
        1,
        "model probabilities stay finite: wherever model_weights is computed from terms divided by their own total "
        "(`x / sum(x)`), the terms reach the division as computed - not through an operation that sends a whole "
        "range of values to exactly zero (maximum(. - floor, 0), clip, where, rounding, a comparison mask), which "
        "makes `all terms zero` an ordinary input and the shares NaN; NaN passes every later guard (`nan < t`, "
        "`fpe_equals(0, nan)` are false), so nothing is pruned, nothing closes and the mixture stays NaN.  Accepted "
        "otherwise only under a dominating test of the total.  Decided for every assignment of model_weights in the "
        "adaptive filter hierarchy",
        "the exact-zero coincidence of unclipped floating-point terms",
    )
    base = p.cls("resonaate.estimation.adaptive.adaptive_filter.AdaptiveFilter")
    n_sites = 0
    for c in [base] + p.subclasses(base):
        for m in c.methods.values():
            fn = m.node
            for st in walk_no_nested(fn):
                if not (isinstance(st, (ast.Assign, ast.AugAssign)) and any(isinstance(tg, ast.Attribute) and tg.attr == "model_weights" for tg in (st.targets if isinstance(st, ast.Assign) else [st.target]))):
                    continue
                for d in ast.walk(st.value):
                    if not (isinstance(d, ast.BinOp) and isinstance(d.op, ast.Div)):
                        continue
                    den = d.right
                    tot = None
                    if isinstance(den, ast.Call) and call_name(den) in _SUMS and den.args and isinstance(den.args[0], ast.Name):
                        tot = den.args[0].id
                    elif isinstance(den, ast.Call) and isinstance(den.func, ast.Attribute) and den.func.attr == "sum" and isinstance(den.func.value, ast.Name):
                        tot = den.func.value.id
                    if tot is None or not any(isinstance(x, ast.Name) and x.id == tot for x in ast.walk(d.left)):
                        continue
                    n_sites += 1
                    cons = f"{m.qualname}:{tot}"
                    # definitions of the terms
                    srcs = []
                    for n in walk_no_nested(fn):
                        if isinstance(n, ast.Assign) and any(isinstance(tg, ast.Name) and tg.id == tot for tg in n.targets):
                            srcs.append(n.value)
                        elif isinstance(n, ast.AugAssign) and isinstance(n.target, ast.Name) and n.target.id == tot:
                            srcs.append(n.value)
                        elif isinstance(n, ast.Call) and isinstance(n.func, ast.Attribute) and n.func.attr in ("append", "extend", "insert") and isinstance(n.func.value, ast.Name) and n.func.value.id == tot:
                            srcs.extend(n.args)
                    clip = None
                    for e in srcs:
                        for x in ast.walk(e):
                            if isinstance(x, ast.Call) and call_name(x) in _CLIPS:
                                clip = x
                            elif isinstance(x, ast.Compare) or (isinstance(x, ast.BinOp) and isinstance(x.op, ast.FloorDiv)):
                                clip = x
                    if clip is None:
                        r.ok(cons, f"`{unparse(d)[:50]}`: the terms reach the division as computed", m.loc(st))
                        continue
                    # dominating guard on the total?
                    guarded = False
                    for g in walk_no_nested(fn):
                        if isinstance(g, ast.If) and g.lineno < st.lineno and any(isinstance(x, ast.Call) and call_name(x) in _SUMS | {"fpe_equals", "isfinite", "any", "all", "count_nonzero"} for x in ast.walk(g.test)) and any(isinstance(x, ast.Name) and x.id == tot for x in ast.walk(g.test)):
                            guarded = True
                    if guarded:
                        r.undecided(cons, f"`{unparse(clip)[:50]}` can zero every term of `{tot}`; a test of the total precedes the division but its sufficiency is not decided", m.loc(st))
                    else:
                        r.violation(cons, "zero-over-zero-shares", f"`{unparse(d)[:60]}` divides `{tot}` by its own total after `{unparse(clip)[:60]}` (line {clip.lineno}) has sent every term below a threshold to exactly zero: when all models agree to within that threshold the shares are 0 / 0 = NaN, no guard downstream is true for NaN, and the model probabilities never recover", m.loc(st))
    if n_sites < 1:
        r.error("sites", "no share-of-total computation of model_weights found (1 confirmed by hand: StaticMultipleModel._preWeight)")


def run(chk, p, t):
    chk.explanation = (
        "Static decision of structural necessary conditions of C18: (R1/R2) a path-sensitive typestate "
        "(normalised / raw) of the model weights over update, prune and initialize of both multiple-model filters, "
        "with inlined self / super calls and the truthiness of `observations` tracked as a path atom, shows every "
        "public exit and every mixture read sees normalised weights, and that the zero-mass reset precedes the "
        "division; (R3) model removal is guarded and shrinks all parallel arrays together, back to front; (R4) the "
        "mixture mean is refreshed before the covariance, and mean / covariance / likelihood / Bayes step are the "
        "documented expressions. NOT decided: Bayes-rule values, underflow beyond the reset, PSD-ness."
    )
    chk.assumptions += ["a normalising form w / sum(w) yields weights summing to one when the sum is finite and non-zero", "numpy.delete returns a new array without the indexed element"]
    steps = [("C18.R1", rule_r1_r2), ("C18.R3", rule_r3), ("C18.R4", rule_r4), ("C18.R5", rule_r5), ("C18.R6", rule_r6), ("C18.R7", rule_r7), ("C18.R8", rule_r8)]
    for rid, fn in steps:
        if chk.only_rule is not None and chk.only_rule != rid and not (chk.only_rule == "C18.R2" and rid == "C18.R1"):
            continue
        try:
            fn(chk, p, t)
        except (Undecided, AnchorError) as e:
            rr = chk.rule(rid + ".x", fn.__name__, 0, "-")
            (rr.undecided if isinstance(e, Undecided) else rr.error)(fn.__name__, str(e))
