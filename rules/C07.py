"""C07 - tasking decisions are feasible and optimal in the sense each policy documents.

Decides: visibility-mask closure of the public decision path (R1), whether the optimiser's input
depends on the mask (R2), registries total and injective (R3), one-target-per-sensor store shape and
argument order of the optimisers (R4), documented reward combination and normalisation shape (R5).
Does NOT decide optimality of the assignment, argmax correctness, equivariance or metric values.
"""

from __future__ import annotations

import ast

from rsa.effects import EffectAnalysis
from rsa.model import AnchorError, Undecided, call_name, unparse, walk_no_nested
from rsa.terms import canon, inline_locals, single_defs
from rsa.util import find_calls, parents_map, require

DEC = "resonaate.tasking.decisions.decision_base.Decision"


def rule_r1(chk, p, t):
    r = chk.rule(
        "C07.R1",
        "visibility-mask closure",
        6,
        "Decision.calculate returns <_calculate result> & visibility_matrix; no policy overrides calculate; nobody "
        "but calculate calls _calculate; the engine stores the result unmodified and nothing else writes "
        "decision_matrix; the visibility matrix is filled only from successful predicted observations",
        "optimality",
    )
    dec = p.cls(DEC)
    calc = dec.methods.get("calculate")

    def one():
        require(calc is not None, "Decision.calculate not found", dec.node)
        rets = [n for n in walk_no_nested(calc.node) if isinstance(n, ast.Return) and n.value is not None]
        require(len(rets) == 1, "calculate has several returns", calc.node)
        e = inline_locals(calc, rets[0].value)
        vis = calc.params[2]
        ok = False
        if isinstance(e, ast.BinOp) and isinstance(e.op, ast.BitAnd):
            sides = [e.left, e.right]
            has_vis = any(isinstance(s, ast.Name) and s.id == vis for s in sides)
            has_calc = any(isinstance(s, ast.Call) and call_name(s) == "_calculate" for s in sides)
            ok = has_vis and has_calc
        elif isinstance(e, ast.Call) and call_name(e) in ("logical_and", "bitwise_and") and len(e.args) == 2:
            ok = any(isinstance(s, ast.Name) and s.id == vis for s in e.args) and any(isinstance(s, ast.Call) and call_name(s) == "_calculate" for s in e.args)
        if ok:
            r.ok(calc.qualname, f"returns {unparse(e)}", calc.loc(rets[0]))
        else:
            r.violation(calc.qualname, f"mask-not-applied:{unparse(e)}", f"Decision.calculate returns `{unparse(e)}`: the policy's choice is no longer ANDed with the visibility matrix, so a sensor can be tasked to a target it cannot see", calc.loc(rets[0]))
        # _calculate receives (reward, visibility) in order
        c = [x for x in find_calls(calc.node, "_calculate")]
        if len(c) == 1 and [unparse(a) for a in c[0].args] == calc.params[1:3]:
            r.ok(calc.qualname + ":args", "_calculate(reward_matrix, visibility_matrix)", calc.loc(c[0]))
        else:
            r.violation(calc.qualname + ":args", f"args:{[unparse(a) for a in c[0].args] if c else None}", "_calculate is not called with (reward_matrix, visibility_matrix)", calc.loc())

    r.guard(calc.qualname if calc else DEC, one)
    subs = p.subclasses(dec)
    if len(subs) < 4:
        r.error(DEC, f"only {len(subs)} Decision subclasses found (4 confirmed by hand)")
    for sc in subs:
        if "calculate" in sc.methods:
            r.violation(sc.qualname, "calculate-overridden", f"{sc.name} overrides calculate(): its result bypasses the visibility mask", sc.methods["calculate"].loc())
        elif "_calculate" not in sc.methods and not any("_calculate" in b.methods for b in p.mro(sc)[1:-1]):
            r.violation(sc.qualname, "no-_calculate", f"{sc.name} does not implement _calculate", sc.loc())
        else:
            r.ok(sc.qualname, "implements _calculate only", sc.loc())
    # who may call _calculate
    n = 0
    for fi in p.all_functions(include_nested=True):
        for c in find_calls(fi.node, "_calculate"):
            n += 1
            if fi is calc:
                continue
            if fi.cls is not None and p.is_subclass(fi.cls, dec) and fi.name == "_calculate" and isinstance(c.func, ast.Attribute) and isinstance(c.func.value, ast.Call) and call_name(c.func.value) == "super":
                continue
            r.violation(f"{fi.qualname}:_calculate", "mask-bypass", f"`{unparse(c)[:70]}` calls the unmasked policy directly", fi.loc(c))
    # engine stores the result unmodified
    eng = p.cls("resonaate.tasking.engine.engine_base.TaskingEngine")
    ea = EffectAnalysis(p, t)
    for impl in p.overriders(eng, "generateTasking"):
        if impl.cls is eng:
            continue

        def two(impl=impl):
            asg = [n for n in walk_no_nested(impl.node) if isinstance(n, ast.Assign) and isinstance(n.targets[0], ast.Attribute) and n.targets[0].attr == "decision_matrix"]
            require(len(asg) == 1, "generateTasking does not assign decision_matrix once", impl.node)
            v = asg[0].value
            ok = isinstance(v, ast.Call) and call_name(v) == "calculate" and unparse(v.func.value) in ("self.decision", "self._decision") and [unparse(a) for a in v.args] == ["self.reward_matrix", "self.visibility_matrix"]
            if ok:
                r.ok(impl.qualname, "decision_matrix = decision.calculate(reward_matrix, visibility_matrix)", impl.loc(asg[0]))
            else:
                r.violation(impl.qualname, f"generateTasking:{unparse(v)[:80]}", f"generateTasking stores `{unparse(v)[:90]}`: expected self.decision.calculate(self.reward_matrix, self.visibility_matrix)", impl.loc(asg[0]))

        r.guard(impl.qualname, two)
    # writers of decision_matrix / visibility_matrix
    for field, allowed in (("decision_matrix", {"__init__", "assess", "generateTasking"}), ("visibility_matrix", {"__init__", "assess"})):
        for fi in p.all_functions(include_nested=True):
            for nn in walk_no_nested(fi.node):
                tgts = []
                if isinstance(nn, ast.Assign):
                    tgts = nn.targets
                elif isinstance(nn, (ast.AugAssign, ast.AnnAssign)):
                    tgts = [nn.target]
                for tg in tgts:
                    base = tg.value if isinstance(tg, ast.Subscript) else tg
                    if isinstance(base, ast.Attribute) and base.attr == field:
                        is_item = isinstance(tg, ast.Subscript)
                        cons = f"{fi.qualname}:{field}"
                        if field == "visibility_matrix" and is_item and fi.qualname.endswith("TaskingRewardRegistration.processResults"):
                            ok = unparse(nn.value) == "results.visibility"
                            if ok:
                                r.ok(cons, "row filled from the reward job's visibility", fi.loc(nn))
                            else:
                                r.violation(cons, f"visibility-source:{unparse(nn.value)}", f"visibility row is filled from `{unparse(nn.value)}`", fi.loc(nn))
                        elif fi.name in allowed and not is_item and isinstance(nn, ast.Assign):
                            if fi.name == "assess":
                                # reset must precede generateTasking
                                gt = find_calls(fi.node, "generateTasking")
                                if gt and nn.lineno > gt[0].lineno:
                                    r.violation(cons, "written-after-generateTasking", f"`{unparse(nn)[:60]}` overwrites {field} after the tasking was generated", fi.loc(nn))
                                else:
                                    r.ok(cons, "reset at assess entry", fi.loc(nn))
                            else:
                                r.ok(cons, f"initialised in {fi.name}", fi.loc(nn))
                        else:
                            r.violation(cons, f"unexpected-writer:{unparse(nn)[:50]}", f"`{unparse(nn)[:70]}` writes {field} outside the mask-closed path", fi.loc(nn))
    # visibility only from successful predictions
    w = p.func("resonaate.parallel.tasking_reward_generation.asyncCalculateReward")

    def three():
        sets = [n for n in walk_no_nested(w.node) if isinstance(n, ast.Assign) and isinstance(n.targets[0], ast.Subscript) and unparse(n.targets[0].value) == "visibility"]
        require(len(sets) == 1, "worker does not set visibility[...] once", w.node)
        pm = parents_map(w.node)
        cur = sets[0]
        guard = None
        while cur in pm:
            cur = pm[cur]
            if isinstance(cur, ast.If):
                guard = cur
                break
        ok = guard is not None and "predictObservation(" in unparse(guard.test) and sets[0] in guard.body and unparse(sets[0].value) == "True"
        if not ok and unparse(sets[0].value) == "True":
            # the same guard through the CFG: every path to the store passes a true test of the prediction result (a
            # walrus in the test, or a local bound to predictObservation(...) tested directly / by `if not x: continue`)
            from rsa.cfg import cfg_of as _cfg_of

            cfg_ = _cfg_of(w)
            nd_ = cfg_.node_of(sets[0])
            defs_ = {}
            for n_ in walk_no_nested(w.node):
                if isinstance(n_, ast.Assign) and len(n_.targets) == 1 and isinstance(n_.targets[0], ast.Name):
                    defs_.setdefault(n_.targets[0].id, []).append(n_.value)
            for cid, lab in cfg_.control_conditions(nd_.id) if nd_ is not None else []:
                cn = cfg_.nodes[cid]
                if cn.kind != "cond" or lab is not True:
                    continue
                a_ = cn.ast
                if "predictObservation(" in unparse(a_) and not isinstance(a_, ast.Compare):
                    ok = True
                if isinstance(a_, ast.Name) and len(defs_.get(a_.id, [])) == 1 and isinstance(defs_[a_.id][0], ast.Call) and call_name(defs_[a_.id][0]) == "predictObservation":
                    ok = True
        # index is the loop index over the sensors
        loops = [n for n in walk_no_nested(w.node) if isinstance(n, ast.For) and sets[0] in list(ast.walk(n))]
        idx_ok = loops and isinstance(loops[0].iter, ast.Call) and call_name(loops[0].iter) == "enumerate" and isinstance(loops[0].target, ast.Tuple) and unparse(loops[0].target.elts[0]) == unparse(sets[0].targets[0].slice)
        pa = [c for c in find_calls(w.node, "predictObservation")]
        arg_ok = pa and isinstance(loops[0].target, ast.Tuple) and [unparse(a) for a in pa[0].args] == [unparse(loops[0].target.elts[1]), "estimate"] if loops else False
        if ok and idx_ok and arg_ok:
            r.ok(w.qualname, "visibility[i] = True only when predictObservation(sensor_i, estimate) succeeds", w.loc(sets[0]))
        else:
            r.violation(w.qualname, f"visibility-set:{ok}:{bool(idx_ok)}:{bool(arg_ok)}", "a (target, sensor) pair is marked visible without a successful predicted observation of that pair", w.loc(sets[0]))
        res = [c for c in walk_no_nested(w.node) if isinstance(c, ast.Call) and call_name(c) == "RewardCalcResult"]
        kws = {k.arg: unparse(k.value) for k in res[0].keywords} if res else {}
        if kws.get("visibility") == "visibility" and kws.get("metric_matrix") == "metric_matrix" and kws.get("estimate_id") == "estimate.simulation_id":
            r.ok(w.qualname + ":result", "result carries its own visibility / metrics / estimate id", w.loc())
        else:
            r.violation(w.qualname + ":result", f"result:{sorted(kws.items())}", "reward job result slots are mixed up", w.loc())

    r.guard(w.qualname, three)

    def four_mask_fresh():
        """The visibility mask (and the metric rows the rewards come from) used in a step are the ones computed in that
        step.  They are either re-created (`zeros`) on every path of assess() before the reward jobs run, or every row is
        rewritten by its reward job's processResults on every path; when neither holds, a target that dropped out of
        every sensor's view keeps last step's row and `decision & visibility` no longer removes the pair."""
        from rsa.cfg import cfg_of

        eng = p.cls("resonaate.tasking.engine.centralized_engine.CentralizedTaskingEngine")
        assess = eng.methods.get("assess")
        reg = p.cls("resonaate.parallel.tasking_reward_generation.TaskingRewardRegistration")
        pr = reg.methods.get("processResults")
        require(assess is not None and pr is not None, "assess / processResults not found", eng.node)
        cfg_a = cfg_of(assess)
        first_job = [n.id for n in cfg_a.nodes if n.ast is not None and n.kind in ("stmt", "loop", "cond") and any(isinstance(c, ast.Call) and call_name(c) in ("enqueueJob", "generateTasking", "calculateRewards") for c in ast.walk(n.ast))]
        stale = {}
        for fld in ("visibility_matrix", "metric_matrix"):
            resets = [n.id for n in cfg_a.nodes if n.kind == "stmt" and isinstance(n.ast, ast.Assign) and any(unparse(tg) == f"self.{fld}" for tg in n.ast.targets) and isinstance(n.ast.value, ast.Call) and call_name(n.ast.value) in ("zeros", "zeros_like", "full")]
            fresh = bool(resets) and bool(first_job) and all(cfg_a.must_pass(j, via_nodes=resets) for j in first_job)
            cfg_p = cfg_of(pr)
            writes = [n.id for n in cfg_p.nodes if n.kind == "stmt" and isinstance(n.ast, ast.Assign) and any(isinstance(tg, ast.Subscript) and unparse(tg.value).endswith(f".{fld}") for tg in n.ast.targets)]
            always = bool(writes) and cfg_p.must_pass(cfg_p.exit.id, via_nodes=writes)
            stale[fld] = (fresh, always)
        bad = [f for f, (fresh, always) in stale.items() if not fresh and not always]
        if bad:
            r.violation(
                assess.qualname + ":mask-freshness",
                "stale-rows:" + ",".join(bad),
                f"{', '.join(bad)}: not re-created on every path of assess() before the reward jobs run, and "
                "TaskingRewardRegistration.processResults does not rewrite the target's row on every path - a target that no sensor sees any more keeps "
                "last step's row, so a sensor can be tasked to a target it cannot see now (and rewards of unseen pairs stay non-zero)",
                assess.loc(),
            )
        else:
            r.ok(assess.qualname + ":mask-freshness", "; ".join(f"{f}: " + ("re-created every step" if fr else "every row rewritten by its job") for f, (fr, al) in stale.items()), assess.loc())

    r.guard("mask-freshness", four_mask_fresh)
    _ = ea


def rule_r2(chk, p, t):
    r = chk.rule(
        "C07.R2",
        "optimiser sees the mask",
        1,
        "the assignment policy's optimiser input depends on the visibility matrix (the property asks for a maximum "
        "assignment 'of the reward matrix masked by visibility')",
        "optimality of the returned assignment",
    )
    mk = p.cls("resonaate.tasking.decisions.decisions.MunkresDecision")
    m = mk.methods.get("_calculate")

    def one():
        require(m is not None, "MunkresDecision._calculate not found", mk.node)
        calls = find_calls(m.node, "linear_sum_assignment")
        require(len(calls) == 1, "linear_sum_assignment not called exactly once", m.node)
        arg = inline_locals(m, calls[0].args[0])
        vis = m.params[2]
        names = {n.id for n in ast.walk(arg) if isinstance(n, ast.Name)}
        if vis in names:
            r.ok(m.qualname, f"optimiser input `{unparse(arg)[:80]}` depends on the visibility matrix", m.loc(calls[0]))
        else:
            r.violation(
                m.qualname,
                "assignment-on-unmasked-rewards",
                f"linear_sum_assignment is solved on `{unparse(arg)}`, which does not depend on the visibility matrix: pairs the optimiser picks but the mask removes are lost (R=[[5,1],[3,0]], V=[[F,T],[T,T]]: the unmasked optimum (0,0),(1,1) keeps only (1,1) with reward 0 after the AND, while the masked optimum (0,1),(1,0) has total reward 4)",
                m.loc(calls[0]),
            )

    r.guard(mk.qualname, one)


def rule_r3(chk, p, t):
    r = chk.rule(
        "C07.R3",
        "registries",
        20,
        "decision / reward / metric labels map totally and injectively to classes that implement the abstract "
        "method; reward classes read each metric type through _metric_type_indices",
    )
    regs = [
        ("resonaate.tasking.decisions", "_DECISION_MAPPING", "resonaate.common.labels.DecisionLabel", DEC, "_calculate"),
        ("resonaate.tasking.rewards", "_REWARD_MAPPING", "resonaate.common.labels.RewardLabel", "resonaate.tasking.rewards.reward_base.Reward", "calculate"),
        ("resonaate.tasking.metrics", "_METRIC_MAPPING", "resonaate.common.labels.MetricLabel", "resonaate.tasking.metrics.metric_base.Metric", "calculate"),
    ]
    for modname, var, labelq, baseq, meth in regs:
        mod = p.module(modname)
        d = mod.assigns.get(var)

        def one(mod=mod, d=d, var=var, labelq=labelq, baseq=baseq, meth=meth):
            require(isinstance(d, ast.Dict), f"{var} is not a dict literal", mod.tree)
            lab = p.cls(labelq)
            base = p.cls(baseq)
            members = set(p.enum_members(lab))
            seen_lab, seen_cls = {}, {}
            for k, v in zip(d.keys, d.values):
                kn = k.attr if isinstance(k, ast.Attribute) else unparse(k)
                cq = p.resolve_dotted(mod, unparse(v))
                ci = p.classes.get(cq)
                cons = f"{var}[{kn}]"
                if kn not in members:
                    r.violation(cons, "label-not-member", f"{kn} is not a member of {lab.name}", mod.relpath)
                elif kn in seen_lab:
                    r.violation(cons, "label-twice", f"{kn} is mapped twice", mod.relpath)
                elif ci is None or not p.is_subclass(ci, base):
                    r.violation(cons, f"not-a-{base.name}:{unparse(v)}", f"{kn} maps to {unparse(v)}, which is not a {base.name} subclass", mod.relpath)
                elif cq in seen_cls:
                    r.violation(cons, f"class-twice:{ci.name}", f"{ci.name} is mapped by both {seen_cls[cq]} and {kn}: one policy is unreachable by its label", mod.relpath)
                else:
                    impl = p.lookup_method(ci, meth)
                    abstract = impl is None or any(isinstance(s, ast.Raise) and "NotImplementedError" in unparse(s) for s in impl.node.body)
                    if abstract:
                        r.violation(cons, f"abstract:{ci.name}.{meth}", f"{ci.name} does not implement {meth}", ci.loc())
                    else:
                        r.ok(cons, f"-> {ci.name}", ci.loc())
                seen_lab[kn] = True
                if ci is not None:
                    seen_cls[cq] = kn
            for mname in sorted(members - set(seen_lab)):
                r.violation(f"{var}[{mname}]", "label-unmapped", f"{lab.name}.{mname} has no class in {var}: configuring it raises KeyError", mod.relpath)
            # label value names its class (the config refers to classes by that string)
            for mname in members & set(seen_lab):
                val = lab.class_attrs.get(mname)
                if isinstance(val, ast.Constant) and isinstance(val.value, str):
                    pass

        r.guard(var, one)


def rule_r4(chk, p, t):
    r = chk.rule(
        "C07.R4",
        "one target per sensor: store shape and optimiser arguments",
        4,
        "in the one-target-per-sensor policies each store into the decision matrix uses the sensor (column) loop "
        "variable and a scalar target index, at most once per iteration; the assignment is maximised and its "
        "(target, sensor) pairs are stored in that order; the greedy choice is the argmax of the sensor's column; the "
        "random choice is drawn among the visible targets; all-visible returns the visible pairs",
    )
    D = "resonaate.tasking.decisions.decisions."
    def vectorised_greedy(m):
        """Loop-free greedy policy: decide between the argmax idiom (one target per sensor) and the
        equality-with-column-maximum idiom (every tied maximum is flagged)."""
        rw = m.params[1]
        rets = [n for n in walk_no_nested(m.node) if isinstance(n, ast.Return)]
        require(len(rets) == 1, "single return expected", m.node)
        e = inline_locals(m, rets[0].value)
        txt = unparse(e)
        eq_max = isinstance(e, ast.Compare) and len(e.ops) == 1 and isinstance(e.ops[0], (ast.Eq, ast.GtE)) and any(
            isinstance(s, ast.Call) and call_name(s) in ("max", "amax", "nanmax") and rw in unparse(s) for s in (e.left, e.comparators[0])
        )
        if eq_max:
            r.violation(
                m.qualname,
                "ties-flag-several-targets",
                f"the greedy policy returns `{txt}`: every target tied for a sensor's maximum reward is flagged, so a sensor can be tasked to more than one target (argmax picks exactly one)",
                m.loc(rets[0]),
            )
            return
        stores = [n for n in walk_no_nested(m.node) if isinstance(n, ast.Assign) and isinstance(n.targets[0], ast.Subscript) and unparse(n.targets[0].value) in ("decision_matrix", unparse(rets[0].value))]
        ok = False
        for s in stores:
            sl = s.targets[0].slice
            if isinstance(sl, ast.Tuple) and len(sl.elts) == 2:
                a0, a1 = inline_locals(m, sl.elts[0]), inline_locals(m, sl.elts[1])
                if isinstance(a0, ast.Call) and call_name(a0) == "argmax" and f"{rw}" in unparse(a0) and "axis=0" in unparse(a0) and isinstance(a1, ast.Call) and call_name(a1) == "arange" and unparse(s.value) == "True":
                    ok = True
                # per-column argmax collected by a comprehension: rows [argmax(reward[:, k]) for k in range(n_sensors)],
                # columns arange(n_sensors)
                inner = a0
                while isinstance(inner, ast.Call) and call_name(inner) in ("asarray", "array", "list", "tuple") and inner.args:
                    inner = inner.args[0]
                if isinstance(inner, (ast.ListComp, ast.GeneratorExp)) and len(inner.generators) == 1 and not inner.generators[0].ifs and isinstance(inner.generators[0].target, ast.Name):
                    k = inner.generators[0].target.id
                    n_sens = f"{rw}.shape[1]"
                    if unparse(inner.elt) == f"argmax({rw}[:, {k}])" and unparse(inner.generators[0].iter) == f"range({n_sens})" and unparse(a1) == f"arange({n_sens})" and unparse(s.value) == "True":
                        ok = True
        if ok:
            r.ok(m.qualname, "vectorised argmax over each sensor column (one target per sensor)", m.loc())
        else:
            raise Undecided(f"loop-free greedy policy of unknown shape: `{txt[:80]}`", rets[0])

    for name in ("MyopicNaiveGreedyDecision", "RandomDecision"):
        m = p.cls(D + name).methods.get("_calculate")

        def one(m=m, name=name):
            import copy

            loops = [n for n in walk_no_nested(m.node) if isinstance(n, ast.For)]
            if not loops and name.startswith("Myopic"):
                return vectorised_greedy(m)
            require(len(loops) == 1, "one loop over sensors expected", m.node)
            lp = loops[0]
            it = lp.iter
            rw, vis = m.params[1], m.params[2]
            # column-iteration idioms: `for j in range(M.shape[1])` / `for j, col in enumerate(M.T)`
            var, alias = None, {}
            if isinstance(it, ast.Call) and call_name(it) == "range" and len(it.args) == 1 and unparse(it.args[0]) in (f"{rw}.shape[1]", f"{vis}.shape[1]", f"{rw}.shape[-1]", f"{vis}.shape[-1]", f"len({rw}.T)", f"len({vis}.T)") and isinstance(lp.target, ast.Name):
                var = lp.target.id
            elif isinstance(it, ast.Call) and call_name(it) == "enumerate" and len(it.args) == 1 and unparse(it.args[0]) in (f"{rw}.T", f"{vis}.T", f"{rw}.transpose()", f"{vis}.transpose()") and isinstance(lp.target, ast.Tuple) and len(lp.target.elts) == 2 and all(isinstance(x, ast.Name) for x in lp.target.elts):
                var = lp.target.elts[0].id
                mat = unparse(it.args[0]).split(".")[0]
                alias[lp.target.elts[1].id] = ast.parse(f"{mat}[:, {var}]", mode="eval").body
            bad = []
            if var is None:
                bad.append(f"loop iterates `{unparse(it)}`, expected the sensor columns (range(<matrix>.shape[1]) or enumerate(<matrix>.T))")
                r.violation(m.qualname, "shape:" + ";".join(bad), f"{name}: " + "; ".join(bad), m.loc())
                return

            ldefs = {}
            for n in ast.walk(lp):
                if isinstance(n, ast.Assign) and len(n.targets) == 1 and isinstance(n.targets[0], ast.Name):
                    ldefs.setdefault(n.targets[0].id, []).append(n.value)

            def norm(e, depth=0):
                class N(ast.NodeTransformer):
                    def visit_Name(self, nn):
                        if nn.id in alias:
                            return copy.deepcopy(alias[nn.id])
                        if nn.id in ldefs and len(ldefs[nn.id]) == 1 and depth < 4 and nn.id != var:
                            return norm(ldefs[nn.id][0], depth + 1)
                        return nn

                return N().visit(copy.deepcopy(e))

            stores = [n for n in ast.walk(lp) if isinstance(n, ast.Assign) and isinstance(n.targets[0], ast.Subscript) and unparse(n.targets[0].value) == "decision_matrix"]
            if len(stores) != 1:
                bad.append(f"{len(stores)} stores per iteration")
            else:
                sl = stores[0].targets[0].slice
                if not (isinstance(sl, ast.Tuple) and len(sl.elts) == 2 and unparse(norm(sl.elts[1])) == var):
                    bad.append(f"store index `{unparse(sl)}` is not [target index, sensor loop variable]")
                else:
                    tv = norm(sl.elts[0])
                    txt = unparse(tv)
                    if name.startswith("Myopic"):
                        col = f"{rw}[:, {var}]"
                        if txt not in (f"argmax({col})", f"{col}.argmax()", f"int(argmax({col}))", f"nanargmax({col})"):
                            bad.append(f"target index is `{txt}`, expected argmax(reward_matrix[:, sensor])")
                    else:
                        col = f"{vis}[:, {var}]"
                        pools = (f"{col}.nonzero()[0]", f"flatnonzero({col})", f"where({col})[0]", f"nonzero({col})[0]")
                        ok_draw = isinstance(tv, ast.Call) and call_name(tv) == "choice" and tv.args and unparse(tv.args[0]) in pools
                        if ok_draw:
                            size = tv.args[1] if len(tv.args) > 1 else next((k.value for k in tv.keywords if k.arg == "size"), None)
                            ok_draw = size is None or unparse(size) in ("1", "None", "(1,)")
                        if not ok_draw:
                            bad.append(f"target index is `{txt}`, expected one draw among visibility_matrix[:, sensor].nonzero()[0]")
                if unparse(stores[0].value) != "True":
                    bad.append("stored value is not True")
            if bad:
                r.violation(m.qualname, "shape:" + ";".join(bad), f"{name}: " + "; ".join(bad), m.loc())
            else:
                r.ok(m.qualname, "one store decision_matrix[target, sensor] per sensor column", m.loc())

        r.guard(m.qualname, one)
    mk = p.cls(D + "MunkresDecision").methods.get("_calculate")

    def two():
        calls = find_calls(mk.node, "linear_sum_assignment")
        require(len(calls) == 1, "one linear_sum_assignment call expected", mk.node)
        kws = {k.arg: unparse(k.value) for k in calls[0].keywords}
        bad = []
        if kws.get("maximize") != "True":
            bad.append("assignment is not maximised")
        asg = [n for n in walk_no_nested(mk.node) if isinstance(n, ast.Assign) and n.value is calls[0]]
        if not (asg and isinstance(asg[0].targets[0], ast.Tuple) and len(asg[0].targets[0].elts) == 2):
            bad.append("row/column indices are not unpacked")
        else:
            rows, cols = [unparse(x) for x in asg[0].targets[0].elts]
            loops = [n for n in walk_no_nested(mk.node) if isinstance(n, ast.For)]
            stores = [n for n in walk_no_nested(mk.node) if isinstance(n, ast.Assign) and isinstance(n.targets[0], ast.Subscript) and unparse(n.targets[0].value) == "decision_matrix"]
            if len(loops) == 1 and unparse(loops[0].iter) == f"zip({rows}, {cols})" and isinstance(loops[0].target, ast.Tuple):
                tv = [unparse(x) for x in loops[0].target.elts]
                if not (len(stores) == 1 and unparse(stores[0].targets[0].slice) in (f"({tv[0]}, {tv[1]})", f"{tv[0]}, {tv[1]}")):
                    bad.append(f"pairs are stored as `{unparse(stores[0].targets[0].slice) if stores else None}`, expected [row (target), column (sensor)]")
            elif len(stores) == 1 and unparse(stores[0].targets[0].slice) in (f"({rows}, {cols})", f"{rows}, {cols}"):
                pass
            else:
                bad.append("assigned pairs are not stored row->target, column->sensor")
        from rsa.cfg import cfg_of

        cfgm = cfg_of(mk)
        for s in [n for n in walk_no_nested(mk.node) if isinstance(n, ast.Assign) and isinstance(n.targets[0], ast.Subscript) and unparse(n.targets[0].value) == "decision_matrix"]:
            extra = [unparse(cfgm.nodes[cid].ast) for cid, lab in cfgm.control_conditions(cfgm.node_of(s).id) if cfgm.nodes[cid].kind == "cond"]
            if extra:
                bad.append(f"an assigned pair is stored only if {extra}: the assignment is no longer complete (pairs of zero or negative reward are dropped)")
        if bad:
            r.violation(mk.qualname, "munkres:" + ";".join(bad), "MunkresDecision: " + "; ".join(bad), mk.loc())
        else:
            r.ok(mk.qualname, "maximised assignment, pairs stored [target, sensor]", mk.loc())

    r.guard(mk.qualname, two)
    av = p.cls(D + "AllVisibleDecision").methods.get("_calculate")

    def three():
        rets = [n for n in walk_no_nested(av.node) if isinstance(n, ast.Return)]
        e = rets[0].value
        vis = av.params[2]
        # masking the result once more with the visibility matrix changes nothing
        while isinstance(e, ast.BinOp) and isinstance(e.op, ast.BitAnd) and any(isinstance(s, ast.Name) and s.id == vis for s in (e.left, e.right)):
            e = e.right if (isinstance(e.left, ast.Name) and e.left.id == vis) else e.left
        ok = (isinstance(e, ast.Call) and call_name(e) == "where" and len(e.args) == 3 and unparse(e.args[0]) in (f"{vis} > 0.0", f"{vis} > 0", vis) and unparse(e.args[1]) == "True" and unparse(e.args[2]) == "False") or unparse(e) in (f"{vis}.astype(bool)", f"{vis} > 0", f"{vis}.copy()")
        if ok:
            r.ok(av.qualname, "tasks exactly the visible pairs", av.loc())
        else:
            r.violation(av.qualname, f"all-visible:{unparse(e)}", f"AllVisibleDecision returns `{unparse(e)}`, expected the visible pairs", av.loc())

    r.guard(av.qualname, three)


def _inline_helper_calls(e, fi, t, depth=2):
    """Replace calls of small pure helpers (module functions / static methods whose body is single-definition
    locals and one return) by their returned expression with the arguments substituted."""
    import copy

    from rsa.terms import inline_locals as _inl

    if depth <= 0:
        return e

    class T(ast.NodeTransformer):
        def visit_Call(self, c):
            self.generic_visit(c)
            tgs = [tg for tg in t.callees(c, fi) if hasattr(tg, "node") and isinstance(tg.node, ast.FunctionDef)]
            if len(tgs) != 1:
                return c
            h = tgs[0]
            if h.kind not in ("function", "staticmethod", "nested"):
                return c
            body = [b for b in h.node.body if not (isinstance(b, ast.Expr) and isinstance(b.value, ast.Constant))]
            rets = [b for b in body if isinstance(b, ast.Return)]
            if len(rets) != 1 or rets[0] is not body[-1] or any(not isinstance(b, (ast.Assign, ast.AnnAssign, ast.Return)) for b in body):
                return c
            params = [a.arg for a in h.node.args.posonlyargs + h.node.args.args]
            binding = dict(zip(params, c.args))
            binding.update({k.arg: k.value for k in c.keywords if k.arg})
            if set(params) - set(binding):
                return c
            inner = _inl(h, rets[0].value)

            class S(ast.NodeTransformer):
                def visit_Name(self, n):
                    return copy.deepcopy(binding[n.id]) if n.id in binding else n

            return _inline_helper_calls(S().visit(copy.deepcopy(inner)), fi, t, depth - 1)

    return T().visit(copy.deepcopy(e))


def rule_r5(chk, p, t):
    r = chk.rule(
        "C07.R5",
        "documented reward combination and normalisation shape",
        4,
        "rewards are the documented combination r = delta (sign(stab) + info) - (1 - delta) sens (+ staleness), the "
        "plain sum for the summation reward, each term read through its metric type; metrics are normalised per "
        "metric by their own maximum when it is positive; the engine reshapes rewards to (targets, sensors)",
        "metric values",
    )
    R = "resonaate.tasking.rewards.rewards."
    exp = {
        "CostConstrainedReward": "self._delta * (sign(stability) + information) - (1 - self._delta) * sensor",
        "CombinedReward": "self._delta * (sign(stability) + information) - (1 - self._delta) * sensor + behavior",
    }
    types = {"stability": "STABILITY", "information": "INFORMATION", "sensor": "SENSOR", "behavior": "TARGET"}
    for name, formula in exp.items():
        m = p.cls(R + name).methods.get("calculate")

        def one(m=m, name=name, formula=formula):
            rets = [n for n in walk_no_nested(m.node) if isinstance(n, ast.Return)]
            require(len(rets) == 1, "single return expected", m.node)
            bad = []
            val = _inline_helper_calls(rets[0].value, m, t)
            if canon(val) != canon(ast.parse(formula, mode="eval").body):
                bad.append(f"formula is `{unparse(val)}`, documented `{formula}`")
            defs = single_defs(m.node)
            for local, ty in types.items():
                if local not in formula:
                    continue
                d = defs.get(local)
                want = f"{m.params[1]}[..., self._metric_type_indices[MetricTypeLabel.{ty}]].squeeze()"
                if d is None or unparse(d) != want:
                    bad.append(f"{local} = `{unparse(d) if d is not None else None}`, expected the {ty} metric slice")
            if bad:
                r.violation(m.qualname, "reward:" + ";".join(bad), f"{name}.calculate: " + "; ".join(bad), m.loc())
            else:
                r.ok(m.qualname, formula, m.loc())

        r.guard(m.qualname, one)
    ss = p.cls(R + "SimpleSummationReward").methods.get("calculate")

    def two():
        rets = [n for n in walk_no_nested(ss.node) if isinstance(n, ast.Return)]
        e = rets[0].value
        ok = isinstance(e, ast.Call) and call_name(e) in ("np_sum", "sum") and unparse(e.args[0]) == ss.params[1] and any(k.arg == "axis" and unparse(k.value) in ("2", "-1") for k in e.keywords)
        if ok:
            r.ok(ss.qualname, "sum over the metric axis", ss.loc())
        else:
            r.violation(ss.qualname, f"sum:{unparse(e)}", f"SimpleSummationReward returns `{unparse(e)}`, expected the sum over the metric axis", ss.loc())

    r.guard(ss.qualname, two)
    nm = p.func("resonaate.tasking.rewards.reward_base.Reward.normalizeMetrics")

    def three():
        loops = [n for n in walk_no_nested(nm.node) if isinstance(n, ast.For)]
        if not loops:
            # vectorised form: per-metric maxima, then a per-metric decision whether to divide
            glob = [n for n in walk_no_nested(nm.node) if isinstance(n, ast.If) and any(isinstance(c, ast.Call) and call_name(c) in ("all", "any") for c in ast.walk(n.test)) and any(isinstance(x, (ast.AugAssign, ast.Assign)) for b in n.body for x in ast.walk(b))]
            if glob:
                r.violation(nm.qualname, f"normalisation-global-guard:{unparse(glob[0].test)[:50]}", f"normalizeMetrics divides under the single guard `{unparse(glob[0].test)}`: whether *any one* metric has a positive maximum decides the normalisation of *all* metrics - with one metric that is zero or negative for every pair (time since observation at the first step) no metric is normalised and rewards are no longer a combination of terms bounded by one", nm.loc(glob[0]))
                return
            masked = [c for c in ast.walk(nm.node) if isinstance(c, ast.Call) and call_name(c) in ("where", "divide", "maximum")]
            if masked:
                raise Undecided("vectorised normalisation with a per-metric mask: form not modelled", nm.node)
        require(len(loops) == 1, "one loop over metrics expected", nm.node)
        lp = loops[0]
        var = lp.target.id
        mm = nm.params[1]
        aug = [n for n in ast.walk(lp) if isinstance(n, ast.AugAssign) and isinstance(n.op, ast.Div)]
        sl = f"{mm}[..., {var}]"
        # locals of the loop body: a view of the slice (`col = m[..., k]`, numpy basic indexing of the documented
        # 2-D+ metric matrix: an in-place division of the view divides the slice) or its maximum (`top = col.max()`)
        import copy

        local = {}
        for n in ast.walk(lp):
            if isinstance(n, ast.Assign) and len(n.targets) == 1 and isinstance(n.targets[0], ast.Name):
                local.setdefault(n.targets[0].id, []).append(n.value)
        local = {k: v[0] for k, v in local.items() if len(v) == 1 and k != var}

        def norm(e):
            class S(ast.NodeTransformer):
                def visit_Name(self, n):
                    if n.id in local:
                        return self.visit(copy.deepcopy(local[n.id]))
                    return n

            return unparse(S().visit(copy.deepcopy(e)))

        from rsa.cfg import CFG

        cfg = CFG(nm.node)
        ok = len(aug) == 1 and norm(aug[0].target) == sl and norm(aug[0].value) == f"{sl}.max()" and unparse(lp.iter) == "range(len(self.metrics))"
        if ok:
            nd = next((n for n in cfg.nodes if n.ast is aug[0]), None)
            conds = [(cfg.nodes[cid], lab) for cid, lab in cfg.control_conditions(nd.id)] if nd is not None else []
            conds = [(c, lab) for c, lab in conds if c.kind == "cond"]
            ok = len(conds) == 1 and conds[0][1] is True and norm(conds[0][0].ast) in (f"{sl}.max() > 0.0", f"{sl}.max() > 0", f"0.0 < {sl}.max()", f"0 < {sl}.max()")
        rets = [n for n in walk_no_nested(nm.node) if isinstance(n, ast.Return)]
        ok = ok and rets and unparse(rets[0].value) == mm
        if ok:
            r.ok(nm.qualname, "each metric slice divided by its own positive maximum (so each is at most one)", nm.loc())
        else:
            r.violation(nm.qualname, "normalisation-shape", "normalizeMetrics no longer divides each metric slice by its own maximum when that maximum is positive", nm.loc())

    r.guard(nm.qualname, three)

    def four():
        """The column of a metric in the metric matrix (its position in the sequence calculateMetrics iterates) is the
        index the reward formulas look it up by: `_metric_type_indices` / `_metric_class_indices` are filled with
        positions in the very sequence that is stored as `self._metrics`.  A stored sequence that is a re-ordering
        (sorted, reversed, filtered) of the one the positions are taken from makes the formulas read other metrics'
        columns."""
        rb = p.cls("resonaate.tasking.rewards.reward_base.Reward")
        init, cm = rb.methods.get("__init__"), rb.methods.get("calculateMetrics")
        require(init is not None and cm is not None, "Reward.__init__ / calculateMetrics not found", rb.node)
        stored = [n for n in walk_no_nested(init.node) if isinstance(n, ast.Assign) and len(n.targets) == 1 and unparse(n.targets[0]) == "self._metrics"]
        require(len(stored) == 1, "self._metrics is not assigned exactly once", init.node)
        seq = unparse(stored[0].value)
        bad = []
        n_idx = 0
        for n in walk_no_nested(init.node):
            if isinstance(n, ast.Call) and isinstance(n.func, ast.Attribute) and n.func.attr == "index":
                n_idx += 1
                if unparse(n.func.value) not in (seq, "self._metrics", "self.metrics"):
                    bad.append(f"positions are taken from `{unparse(n.func.value)}` but the stored sequence is `{seq}`")
        for n in walk_no_nested(init.node):
            if isinstance(n, ast.For) and any(isinstance(c, ast.Call) and isinstance(c.func, ast.Attribute) and c.func.attr == "index" for c in ast.walk(n)):
                it = unparse(n.iter)
                if it.startswith("enumerate("):
                    it = it[len("enumerate(") : -1]
                if it not in (seq, "self._metrics", "self.metrics"):
                    bad.append(f"the index tables are filled while iterating `{it}`, the stored sequence is `{seq}`")
        if not isinstance(stored[0].value, ast.Name) and not (isinstance(stored[0].value, ast.Call) and call_name(stored[0].value) in ("list", "tuple") and len(stored[0].value.args) == 1 and isinstance(stored[0].value.args[0], ast.Name)):
            if n_idx and not bad:
                raise Undecided(f"self._metrics = `{seq}`: not the constructor's sequence itself", stored[0])
        comps = [c for c in walk_no_nested(cm.node) if isinstance(c, (ast.ListComp, ast.GeneratorExp)) and isinstance(c.elt, ast.Call) and call_name(c.elt) == "calculate"]
        if len(comps) != 1 or unparse(comps[0].generators[0].iter) not in ("self.metrics", "self._metrics") or comps[0].generators[0].ifs:
            bad.append("calculateMetrics does not build one column per metric of self.metrics, in that order")
        if bad:
            r.violation(init.qualname, "metric-index-layout:" + ";".join(sorted(set(b[:50] for b in bad))), "the metric index tables do not describe the metric matrix's column layout: " + "; ".join(sorted(set(bad))), init.loc(stored[0]))
        else:
            require(n_idx >= 1, "no index table is filled in Reward.__init__", init.node)
            r.ok(init.qualname, f"index tables filled from `{seq}`, stored as self._metrics, iterated by calculateMetrics", init.loc(stored[0]))

    r.guard("metric-index-layout", four)
    cr = p.func("CentralizedTaskingEngine.calculateRewards")

    def four():
        asg = {}
        for n in walk_no_nested(cr.node):
            if isinstance(n, ast.Assign):
                asg[unparse(n.targets[0])] = unparse(n.value)
        ok = asg.get("metrics") == "self.reward.normalizeMetrics(self.metric_matrix)" and asg.get("rewards") == "self.reward.calculate(metrics)" and asg.get("self.reward_matrix") == "rewards.reshape(self.num_targets, self.num_sensors)"
        if ok:
            r.ok(cr.qualname, "reward_matrix = reward.calculate(normalize(metric_matrix)) reshaped (targets, sensors)", cr.loc())
        else:
            r.violation(cr.qualname, f"calculateRewards:{sorted(asg.items())}", "the engine no longer computes rewards as reward.calculate(normalizeMetrics(metric_matrix)) reshaped to (targets, sensors)", cr.loc())

    r.guard(cr.qualname, four)


def rule_r6(chk, p, t):
    from rsa.cfg import cfg_of

    r = chk.rule(
        "C07.R6",
        "the id -> row / column maps are the enumeration of the id lists",
        4,
        "decisions are made on matrices whose rows / columns follow `target_list` / `sensor_list`, and are carried out and "
        "reported through `target_indices` / `sensor_indices`: a tasking is executed against the target it was decided for "
        "only if, whenever a list changes (add / remove / sort), the map is again {id: position in the list}.  Every method "
        "of the engine classes that modifies a list passes, on every path to its exit, a full rebuild - `self.X_indices = "
        "{id: i for i, id in enumerate(self.X_list)}`, directly or through a helper method.  An incremental update is "
        "undecided, except the one shape that is certainly wrong: positions taken from `enumerate(list[start:])` without "
        "`start=start` (the renumbering restarts at zero)",
        "the contents of the lists",
    )
    eng = p.cls("resonaate.tasking.engine.engine_base.TaskingEngine")
    classes = [eng] + list(p.subclasses(eng))
    pairs = {"target_list": "target_indices", "sensor_list": "sensor_indices"}
    MUT = {"append", "remove", "sort", "insert", "pop", "extend", "clear", "reverse"}

    def rebuilds(m, lst, idx, depth=0):
        """statement-level AST nodes of `m` that fully rebuild `idx` from `lst` (own statements or helper calls)."""
        out = []
        for n in walk_no_nested(m.node):
            if isinstance(n, (ast.Assign, ast.AnnAssign)) and unparse(n.targets[0] if isinstance(n, ast.Assign) else n.target) == f"self.{idx}" and n.value is not None:
                v = n.value
                if isinstance(v, ast.DictComp) and len(v.generators) == 1 and not v.generators[0].ifs:
                    g = v.generators[0]
                    if isinstance(g.iter, ast.Call) and call_name(g.iter) == "enumerate" and len(g.iter.args) == 1 and not g.iter.keywords and unparse(g.iter.args[0]) == f"self.{lst}" and isinstance(g.target, ast.Tuple) and len(g.target.elts) == 2:
                        i, e = (x.id if isinstance(x, ast.Name) else None for x in g.target.elts)
                        if unparse(v.key) == e and unparse(v.value) == i:
                            out.append(n)
            if isinstance(n, ast.Call) and isinstance(n.func, ast.Attribute) and isinstance(n.func.value, ast.Name) and n.func.value.id == "self" and depth < 2:
                callee = p.lookup_method(m.cls, n.func.attr)
                if callee is not None and callee is not m:
                    ccfg = cfg_of(callee)
                    rb = rebuilds(callee, lst, idx, depth + 1)
                    ids = [ccfg.node_of(x).id for x in rb]
                    if ids and ccfg.must_pass(ccfg.exit.id, via_nodes=ids):
                        out.append(n)
        return out

    n_sites = 0
    for ci in classes:
        for m in ci.methods.values():
            if m.name == "__init__":
                continue
            cfg = cfg_of(m)
            for lst, idx in pairs.items():
                muts = [c for c in walk_no_nested(m.node) if isinstance(c, ast.Call) and isinstance(c.func, ast.Attribute) and c.func.attr in MUT and unparse(c.func.value) == f"self.{lst}"]
                muts += [a for a in walk_no_nested(m.node) if isinstance(a, (ast.Assign, ast.AugAssign)) and any(unparse(x) == f"self.{lst}" or (isinstance(x, ast.Subscript) and unparse(x.value) == f"self.{lst}") for x in (a.targets if isinstance(a, ast.Assign) else [a.target]))]
                if not muts:
                    continue
                rb_ids = [cfg.node_of(x).id for x in rebuilds(m, lst, idx)]
                for mu in muts:
                    n_sites += 1
                    cons = f"{m.qualname}:{lst}@{unparse(mu)[:30]}"
                    node = cfg.node_of(mu)
                    if rb_ids and cfg.must_pass(cfg.exit.id, via_nodes=rb_ids, start=node.id):
                        r.ok(cons, f"followed on every path by the full rebuild of {idx}", m.loc(mu))
                        continue
                    # the one certainly wrong incremental shape
                    wrong = None
                    scope = [m] + [c for c in (p.lookup_method(m.cls, x.func.attr) for x in walk_no_nested(m.node) if isinstance(x, ast.Call) and isinstance(x.func, ast.Attribute) and isinstance(x.func.value, ast.Name) and x.func.value.id == "self") if c is not None]
                    for f in scope:
                        for lp in ast.walk(f.node):
                            if isinstance(lp, (ast.For, ast.comprehension)) and isinstance(lp.iter, ast.Call) and call_name(lp.iter) == "enumerate" and lp.iter.args and isinstance(lp.iter.args[0], ast.Subscript) and isinstance(lp.iter.args[0].slice, ast.Slice) and lp.iter.args[0].slice.lower is not None:
                                has_start = len(lp.iter.args) > 1 or any(k.arg == "start" for k in lp.iter.keywords)
                                if not has_start:
                                    wrong = (f, lp)
                    if wrong is not None:
                        f, lp = wrong
                        r.violation(cons, f"index-offset-lost:{m.name}:{f.name}", f"after `{unparse(mu)[:50]}` the map {idx} is patched by {f.name}, which numbers `{unparse(lp.iter)[:60]}` from ZERO although the slice starts at `{unparse(lp.iter.args[0].slice.lower)}`: the entries behind the removed one get the positions 0, 1, ... instead of their positions in the list, so decisions are carried out against other targets / sensors than they were made for", f.loc(lp.iter))
                    elif not rb_ids and not any(idx in unparse(x) for x in walk_no_nested(m.node) if isinstance(x, (ast.Assign, ast.AugAssign, ast.Call))):
                        r.violation(cons, f"index-not-maintained:{m.name}:{idx}", f"`{unparse(mu)[:50]}` changes {lst} and {m.name} does not touch {idx}: the map no longer gives positions in the list", m.loc(mu))
                    else:
                        r.undecided(cons, f"after `{unparse(mu)[:40]}` the map {idx} is maintained incrementally (no full rebuild on every path): not decided", m.loc(mu))
    if n_sites < 4:
        r.error("sites", f"only {n_sites} list modifications found (8 confirmed by hand: add / remove x sort for targets and sensors)")


def run(chk, p, t):
    chk.explanation = (
        "Static decision of structural necessary conditions of C07: (R1) the only public decision path ends in "
        "`& visibility_matrix`, nothing overrides or bypasses it, the engine stores the result unmodified, and the "
        "visibility matrix is filled only from successful predicted observations - a closure fact that holds for all "
        "matrices; (R2) whether the assignment optimiser's input depends on the mask; (R3) label registries total and "
        "injective; (R4) store shapes and optimiser arguments of the four policies; (R5) documented reward "
        "combination and normalisation shape. NOT decided: optimality of the assignment, argmax correctness, "
        "equivariance under relabelling, metric values."
    )
    chk.assumptions += ["scipy.optimize.linear_sum_assignment returns an optimal assignment of the matrix it is given", "numpy `&` on boolean arrays is element-wise AND"]
    for fn in (rule_r1, rule_r2, rule_r3, rule_r4, rule_r5, rule_r6):
        rid = "C07.R" + fn.__name__[-1]
        if not chk.wants(rid):
            continue
        try:
            fn(chk, p, t)
        except (Undecided, AnchorError) as e:
            rr = chk.rule(rid + ".x", fn.__name__, 0, "-")
            (rr.undecided if isinstance(e, Undecided) else rr.error)(fn.__name__, str(e))
