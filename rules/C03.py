"""C03 - orbit propagation is composable, batch-consistent, Kepler-exact and conservative.

Decides (deliberately narrow): batch layout discipline of the derivative siblings and of the
restart loop (R1), confinement and unit-correctness of the absolute epoch inside the perturbed
derivative (R2), the two-body acceleration and the f / g closed form of the universal Kepler
solver with its consistency check (R3).  Does NOT decide composability within tolerance, Kepler
exactness or conservation as numbers (integrator numerics).
"""

from __future__ import annotations

import ast

from rsa.cfg import cfg_of
from rsa.model import AnchorError, Undecided, call_name, unparse, walk_no_nested
from rsa.terms import canon, inline_locals, single_defs
from rsa.util import find_calls, require

CEL = "resonaate.dynamics.celestial.Celestial"


_CUR_FN = [None]


def _slice_form(sub):
    """(lower, upper, step) texts of a subscript with a slice, single-definition locals inlined."""
    sl = sub.slice
    if not isinstance(sl, ast.Slice):
        return None
    fn = _CUR_FN[0]
    return tuple((unparse(inline_locals(fn, x)) if fn is not None else unparse(x)) if x is not None else None for x in (sl.lower, sl.upper, sl.step))


def _form(fn, src):
    return unparse(inline_locals(fn, ast.parse(src, mode="eval").body))


def rule_r1(chk, p, t):
    r = chk.rule(
        "C03.R1",
        "batch layout discipline",
        4,
        "in every Celestial._differentialEquation, for a raveled (6, K) state: K = len/6, positions of state jj are "
        "{jj + i K, i < 3}, velocities {jj + 3K + i K}; derivative[pos] = state[vel]; the acceleration is written to "
        "derivative[vel] of the same jj; the loop covers jj in range(K); the state handed to the next solve_ivp round "
        "is the solver's last column reshaped to the saved shape",
        "equality of batched and separate propagation within tolerance",
    )
    cel = p.cls(CEL)
    impls = [m for m in p.overriders(cel, "_differentialEquation") if m.cls is not cel]
    if len(impls) < 2:
        r.error(CEL, f"only {len(impls)} derivative implementations found (2 confirmed by hand)")
    for m in impls:

        def one(m=m):
            st = m.params[2]
            defs = single_defs(m.node)
            bad = []
            step, half = defs.get("step"), defs.get("half")
            if step is None or canon(step) != canon(ast.parse(f"int({st}.shape[0] / 6)", mode="eval").body):
                bad.append(f"step = `{unparse(step) if step is not None else None}` (expected int(len/6))")
            if half is None or canon(half) != canon(ast.parse(f"int({st}.shape[0] / 2)", mode="eval").body):
                bad.append(f"half = `{unparse(half) if half is not None else None}` (expected int(len/2))")
            loops = [n for n in walk_no_nested(m.node) if isinstance(n, ast.For)]
            main = [l for l in loops if unparse(l.iter) == "range(step)"]
            if len(main) != 1:
                bad.append(f"state loop `{[unparse(l.iter) for l in loops]}` (expected range(step))")
            jj = main[0].target.id if main else "jj"
            _CUR_FN[0] = m
            POS = (jj, _form(m, f"{jj} + half"), _form(m, "step"))
            VEL = (_form(m, f"{jj} + half"), None, _form(m, "step"))
            # every slice of state / derivative inside the loop is the position or the velocity slice of jj
            kinds = {}
            for n in walk_no_nested(m.node):
                if isinstance(n, ast.Subscript) and isinstance(n.value, ast.Name) and n.value.id in (st, "derivative") and isinstance(n.slice, ast.Slice):
                    f = _slice_form(n)
                    k = "pos" if f == POS else ("vel" if f == VEL else None)
                    if k is None:
                        bad.append(f"slice `{unparse(n)}` is neither the position nor the velocity slots of state {jj}")
                    kinds.setdefault((n.value.id, isinstance(n.ctx, ast.Store)), []).append(k)
            stores = [n for n in walk_no_nested(m.node) if isinstance(n, ast.Assign) and isinstance(n.targets[0], ast.Subscript) and unparse(n.targets[0].value) == "derivative"]
            pos_st = [n for n in stores if _slice_form(n.targets[0]) == POS]
            vel_st = [n for n in stores if _slice_form(n.targets[0]) == VEL]
            pos_rhs = inline_locals(m, pos_st[0].value) if len(pos_st) == 1 else None
            if len(pos_st) != 1 or not (isinstance(pos_rhs, ast.Subscript) and unparse(pos_rhs.value) == st and _slice_form(pos_rhs) == VEL):
                bad.append("derivative[pos] is not state[vel] of the same state")
            if len(vel_st) != 1:
                bad.append("derivative[vel] is not assigned exactly once per state")
            else:
                # the acceleration is computed from this state's own position
                rv = None
                for n in walk_no_nested(m.node):
                    if isinstance(n, ast.Assign) and isinstance(n.targets[0], ast.Name) and isinstance(n.value, ast.Subscript) and unparse(n.value.value) == st and _slice_form(n.value) == POS:
                        rv = n.targets[0].id
                if rv is None or rv not in {x.id for x in ast.walk(vel_st[0].value) if isinstance(x, ast.Name)}:
                    bad.append("the acceleration written to derivative[vel] does not use this state's own position slice")
            rets = [n for n in walk_no_nested(m.node) if isinstance(n, ast.Return)]
            if not (rets and unparse(rets[-1].value) == "derivative"):
                bad.append("does not return the derivative array")
            d0 = defs.get("derivative")
            if d0 is None or call_name(d0) not in ("empty_like", "zeros_like") or unparse(d0.args[0]) != st:
                bad.append("derivative is not allocated like the state")
            if bad:
                r.violation(m.qualname, "layout:" + ";".join(sorted(set(bad))), f"{m.cls.name}._differentialEquation batch layout: " + "; ".join(sorted(set(bad))), m.loc())
            else:
                r.ok(m.qualname, "strided (6, K) layout: pos {jj + iK}, vel {jj + 3K + iK}, one pass over jj", m.loc(), obligations=6)

        r.guard(m.qualname, one)
    for nm in ("propagate", "propagateBulk"):
        m = cel.methods.get(nm)

        def two(m=m, nm=nm):
            calls = find_calls(m.node, "solve_ivp")
            require(len(calls) == 1, "one solve_ivp call expected", m.node)
            c = calls[0]
            bad = []
            if nm != "propagate":
                y0 = unparse(inline_locals(m, c.args[2]))
                if not y0.endswith(".ravel()") and not y0.endswith(".flatten()"):
                    bad.append(f"initial state passed as `{y0}`")
                f0 = unparse(inline_locals(m, c.args[0]))
                if "self._differentialEquation" not in f0:
                    bad.append(f"right-hand side `{f0}`")
            if nm == "propagate":
                _facts, layout, _restart = propagate_loop_facts(m)
                bad += layout
            else:
                kws = {k.arg: unparse(k.value) for k in c.keywords}
                if kws.get("t_eval") != m.params[1]:
                    bad.append(f"t_eval={kws.get('t_eval')}")
                rsh = [n for n in walk_no_nested(m.node) if isinstance(n, ast.Assign) and unparse(n.targets[0]) == "states" and "reshape" in unparse(n.value)]
                if not (rsh and "(*state_shape, n_t)" in unparse(rsh[0].value)):
                    bad.append("solution is not reshaped to (*state_shape, n_t)")
                rets = [n for n in walk_no_nested(m.node) if isinstance(n, ast.Return)]
                if not rets or unparse(rets[-1].value) != "final_states[..., 1:]":
                    bad.append(f"return `{unparse(rets[-1].value) if rets else None}`")
            # the (6, K) batch is flattened and restored in C (row-major) order - what the derivative's index arithmetic
            # assumes; memory order ("K" / "A") or column-major ("F") scramble a transposed / Fortran-ordered batch
            for cc in walk_no_nested(m.node):
                if isinstance(cc, ast.Call) and call_name(cc) in ("ravel", "flatten", "reshape", "asarray", "array", "copy"):
                    for k in cc.keywords:
                        if k.arg == "order" and not (isinstance(k.value, ast.Constant) and k.value.value in ("C", None)):
                            bad.append(f"`{unparse(cc)[:60]}` flattens / reshapes in order {unparse(k.value)}, not in C order")
                    if call_name(cc) in ("ravel", "flatten") and isinstance(cc.func, ast.Attribute) and cc.args and not (isinstance(cc.args[0], ast.Constant) and cc.args[0].value in ("C",)):
                        bad.append(f"`{unparse(cc)[:60]}` flattens in order {unparse(cc.args[0])}, not in C order")
            if bad:
                r.violation(f"{CEL}.{nm}", "restart-layout:" + ";".join(bad), f"{nm}: " + "; ".join(bad), m.loc())
            else:
                r.ok(f"{CEL}.{nm}", "raveled in, last column / t_eval columns reshaped to the saved shape out", m.loc())

        r.guard(f"{CEL}.{nm}", two)


def rule_r2(chk, p, t):
    r = chk.rule(
        "C03.R2",
        "epoch confinement and unit",
        2,
        "inside the perturbed derivative the elapsed time flows only into init_julian_date + time / 86400 (and the "
        "thrust callback); every epoch-dependent quantity (rotation, third-body and Sun positions) is a function of "
        "that sum alone, so the result depends on the absolute epoch, not on how it is split",
    )
    sp = p.cls("resonaate.dynamics.special_perturbations.SpecialPerturbations")
    m = sp.methods.get("_differentialEquation")

    def one():
        tm = m.params[1]
        loads = [n for n in walk_no_nested(m.node) if isinstance(n, ast.Name) and n.id == tm and isinstance(n.ctx, ast.Load)]
        defs = single_defs(m.node)
        jd = defs.get("julian_date")
        want = canon(ast.parse(f"JulianDate(self.init_julian_date + {tm} / 86400)", mode="eval").body)
        bad = []
        if jd is None or canon(jd) != want:
            bad.append(f"epoch = `{unparse(jd) if jd is not None else None}` (expected JulianDate(self.init_julian_date + time / 86400))")
        if len(loads) != 1:
            bad.append(f"the elapsed time is read {len(loads)} times (once expected, inside the epoch)")
        # epoch consumers use julian_date only
        for c in walk_no_nested(m.node):
            if isinstance(c, ast.Call) and call_name(c) in ("getPosition", "_getRotationMatrix", "julianDateToDatetime"):
                if unparse(c.args[0]) != "julian_date":
                    bad.append(f"`{unparse(c)[:60]}` is not evaluated at the absolute epoch")
        # init_julian_date only used in the epoch
        ij = [n for n in walk_no_nested(m.node) if isinstance(n, ast.Attribute) and n.attr == "init_julian_date"]
        if len(ij) != 1:
            bad.append("init_julian_date is used outside the epoch sum")
        if bad:
            r.violation(m.qualname, "epoch:" + ";".join(bad), "the perturbed derivative does not depend on the absolute epoch alone: " + "; ".join(bad), m.loc())
        else:
            r.ok(m.qualname, "epoch = init_julian_date + time/86400; rotation and body positions are functions of it alone", m.loc(), obligations=4)
        init = sp.methods.get("__init__")
        asg = [n for n in walk_no_nested(init.node) if isinstance(n, ast.Assign) and unparse(n.targets[0]) == "self.init_julian_date"]
        if asg and unparse(asg[0].value) == init.params[1]:
            r.ok(init.qualname + ":epoch", "init_julian_date = the scenario start date passed in", init.loc())
        else:
            r.violation(init.qualname + ":epoch", "init-epoch", "init_julian_date is not the start date passed to the constructor", init.loc())

    r.guard(m.qualname, one)


def rule_r3(chk, p, t):
    r = chk.rule(
        "C03.R3",
        "two-body acceleration and Kepler closed form",
        3,
        "the two-body derivative is -mu r / |r|^3; the universal-variable Kepler solver builds the final state as "
        "(f r0 + g v0, fdot r0 + gdot v0) with the documented f, g, fdot, gdot and refuses a solution that fails "
        "f gdot - fdot g = 1",
        "the Newton iteration's convergence and accuracy",
    )
    tb = p.cls("resonaate.dynamics.two_body.TwoBody").methods.get("_differentialEquation")

    def one():
        stores = [n for n in walk_no_nested(tb.node) if isinstance(n, ast.Assign) and isinstance(n.targets[0], ast.Subscript) and unparse(n.targets[0].value) == "derivative" and isinstance(n.targets[0].slice, ast.Slice) and n.targets[0].slice.lower is not None and unparse(n.targets[0].slice.lower) == "jj + half"]
        require(len(stores) == 1, "one acceleration store expected", tb.node)
        e = inline_locals(tb, stores[0].value)
        st = tb.params[2]
        rv = f"{st}[jj:jj + half:step]"
        want = canon(inline_locals(tb, ast.parse(f"-1.0 * Earth.mu / norm({rv}) ** 3.0 * {rv}", mode="eval").body))
        if canon(e) == want:
            r.ok(tb.qualname, "-mu r / |r|^3", tb.loc(stores[0]))
        else:
            r.violation(tb.qualname, f"two-body:{unparse(e)[:100]}", f"two-body acceleration is `{unparse(e)[:120]}`, expected -mu r / |r|^3", tb.loc(stores[0]))

    r.guard(tb.qualname, one)
    ks = p.func("resonaate.physics.orbits.kepler.solveKeplerProblemUniversal")

    def two():
        # Vallado Algorithm 8 (universal-variable Kepler propagation) in the implementation's names, compared definition by
        # definition (rsa/refdefs.py): alpha, the three initial guesses under their alpha ranges, psi, r, the Newton
        # update, f, g, fdot, gdot and the returned state
        from rsa import refdefs

        prm = ks.params
        ref_src = f"""
def solveKeplerProblemUniversal({", ".join(prm)}):
    r0 = array(init_state[:3], copy=True)
    v0 = array(init_state[3:], copy=True)
    alpha = -norm(v0) ** 2 / mu + 2.0 / norm(r0)
    sqrt_mu = sqrt(mu)
    if alpha > 1e-06:
        chi = sqrt_mu * tof * alpha
    if fabs(alpha) < 1e-06:
        p = norm(getAngularMomentum(r0, v0)) ** 2 / mu
        s = 0.5 * arctan(1 / (3 * sqrt_mu / p ** 3 * tof))
        chi = sqrt(p) * 2 / tan(2 * arctan(power(tan(s), 1 / 3)))
    if alpha < -1e-06:
        sqrt_a = sqrt(-1 / alpha)
        chi = sign(tof) * sqrt_a * log(-2 * mu * alpha * tof / (vdot(r0, v0) + sign(tof) * sqrt_mu * sqrt_a * (1 - norm(r0) * alpha)))
    for ii in range(maxiter):
        chi_sq = chi ** 2
        psi = chi_sq * alpha
        c2, c3 = universalC2C3(psi)
        tmp = 1 - psi * c3
        r = chi_sq * c2 + vdot(r0, v0) / sqrt_mu * chi * tmp + norm(r0) * (1 - psi * c2)
        chi_old = chi
        chi += (sqrt_mu * tof - chi ** 3 * c3 - vdot(r0, v0) / sqrt_mu * chi_sq * c2 - norm(r0) * chi * tmp) / r
        if isclose(chi, chi_old, rtol=0.0, atol=tol):
            break
    f = 1 - chi ** 2 / norm(r0) * c2
    fdot = sqrt_mu / (r * norm(r0)) * chi * (psi * c3 - 1)
    g = tof - chi ** 3 / sqrt_mu * c3
    gdot = 1 - chi ** 2 / r * c2
    return concatenate((f * r0 + g * v0, fdot * r0 + gdot * v0))
"""
        require(list(prm)[:3] == ["init_state", "tof", "mu"] or {"init_state", "tof", "mu", "maxiter", "tol"} <= set(prm), "solveKeplerProblemUniversal: unexpected parameters", ks.node)
        res = refdefs.compare(ks.node, ast.parse(ref_src).body[0], names=("alpha", "chi", "psi", "c2", "c3", "tmp", "r", "f", "g", "fdot", "gdot", "<return>", "p", "s", "sqrt_a"), unknown_calls={nm_ for nm_ in ks.module.functions if nm_ not in ref_src and not nm_.startswith("__")})
        bad = [text for _nm, text, _ln in res["mismatch"]]
        unsure = [text for _nm, text, _ln in res["unsure"] if _nm not in ("chi_old",)]
        # the time of flight and the initial state are the caller's: the reference never re-binds them.  The one
        # legitimate re-binding is the removal of whole revolutions of a closed orbit, by the orbit's own period
        # 2 pi sqrt(a^3 / mu) with a = 1 / alpha - anything else shifts the point reached along the orbit
        from rsa import ratfun as rf
        from rsa.terms import inline_locals as _il

        for n_ in walk_no_nested(ks.node):
            tgs_ = n_.targets if isinstance(n_, ast.Assign) else [n_.target] if isinstance(n_, (ast.AugAssign, ast.AnnAssign)) else []
            for tg_ in tgs_:
                if not (isinstance(tg_, ast.Name) and tg_.id in ("tof", "mu", "init_state")):
                    continue
                v_ = getattr(n_, "value", None)
                red = None
                if tg_.id == "tof" and isinstance(n_, ast.Assign) and isinstance(v_, ast.Call) and call_name(v_) in ("fmod", "remainder", "mod") and len(v_.args) == 2 and unparse(v_.args[0]) == "tof":
                    red = v_.args[1]
                elif tg_.id == "tof" and isinstance(v_, ast.BinOp) and isinstance(v_.op, ast.Mod) and unparse(v_.left) == "tof":
                    red = v_.right
                elif tg_.id == "tof" and isinstance(n_, ast.AugAssign) and isinstance(n_.op, ast.Mod):
                    red = v_
                if red is None:
                    unsure.append(f"`{unparse(n_)[:60]}` re-binds the caller's `{tg_.id}` (the reference does not)")
                    continue
                red = _il(ks, red)
                a_ = red.args[0] if isinstance(red, ast.Call) and call_name(red) == "getPeriod" and red.args else None
                a_ = a_ if a_ is not None else next((k.value for k in getattr(red, "keywords", []) if k.arg == "sma"), None)
                if a_ is None:
                    unsure.append(f"`{unparse(n_)[:60]}`: whole revolutions removed by `{unparse(red)[:40]}`, not recognised as getPeriod(semi-major axis)")
                    continue
                try:
                    is_sma = rf.same_value(a_, rf.parse("1 / alpha")) or rf.same_value(a_, _il(ks, rf.parse("1 / alpha")))
                except Exception:  # noqa: BLE001
                    is_sma = False
                semi_latus = any(isinstance(c_, ast.Call) and call_name(c_) == "getAngularMomentum" for c_ in ast.walk(a_)) and not any(isinstance(c_, ast.Call) and call_name(c_) in ("getEccentricity", "getEccentricityVector") or (isinstance(c_, ast.Name) and c_.id in ("ecc", "e")) for c_ in ast.walk(a_))
                if is_sma:
                    pass
                elif semi_latus:
                    bad.append(f"whole revolutions are removed with the period of `{unparse(a_)[:50]}`: h^2 / mu is the semi-latus rectum a (1 - e^2), not the semi-major axis 1 / alpha - for an eccentric orbit the flight is shortened by a wrong period and the state returned is another point of the orbit")
                else:
                    unsure.append(f"`{unparse(n_)[:60]}`: `{unparse(a_)[:40]}` is not recognised as the semi-major axis 1 / alpha")
        cfg = cfg_of(ks)
        chk_nodes = [n for n in cfg.nodes if n.kind == "cond" and "f * gdot - fdot * g" in unparse(n.ast)]
        ret_nodes = [n for n in cfg.nodes if n.kind == "return"]
        if not chk_nodes or not all(cfg.must_pass(rn.id, via_nodes=[c.id for c in chk_nodes]) for rn in ret_nodes):
            bad.append("the f gdot - fdot g = 1 consistency check does not guard the return")
        else:
            c0 = chk_nodes[0]
            raises = [n for n in cfg.nodes if n.kind == "stmt" and isinstance(n.ast, ast.Raise)]
            neg = isinstance(c0.ast, ast.Call)  # atom is isclose(...): `if not isclose` -> raise on False
            if not any(cfg.must_pass(rz.id, via_edges=[(c0.id, False)]) for rz in raises if rz.lineno > c0.lineno):
                bad.append("a failed consistency check does not raise")
            _ = neg
        if bad:
            r.violation(ks.qualname, "kepler:" + ";".join(b_[:60] for b_ in bad), "universal Kepler solver differs from Vallado's Algorithm 8: " + "; ".join(bad), ks.loc())
        elif unsure:
            r.undecided(ks.qualname, "; ".join(unsure)[:400], ks.loc())
        else:
            r.ok(ks.qualname, "f, g, fdot, gdot closed form, guarded by the angular-momentum check", ks.loc(), obligations=10)

    r.guard(ks.qualname, two)
    c23 = p.func("resonaate.physics.orbits.kepler.universalC2C3") if p.has_func("resonaate.physics.orbits.kepler.universalC2C3") else None
    if c23 is None:
        cands = [f for f in p.all_functions() if f.name == "universalC2C3"]
        c23 = cands[0] if cands else None
    if c23 is not None:

        def three():
            from math import factorial
            from fractions import Fraction

            from rsa.terms import poly_in

            prm = c23.params[0]
            want = {
                "c2": {"ell": f"(1 - cos(sqrt({prm}))) / {prm}", "hyp": f"(1 - cosh(sqrt(-{prm}))) / {prm}", "k0": 2},
                "c3": {"ell": f"(sqrt({prm}) - sin(sqrt({prm}))) / sqrt({prm} ** 3)", "hyp": f"(sinh(sqrt(-{prm})) - sqrt(-{prm})) / sqrt(-({prm} ** 3))", "k0": 3},
            }
            bad = []
            seen = {"c2": set(), "c3": set()}
            n_asg = 0
            for n in walk_no_nested(c23.node):
                tg = n.targets[0] if isinstance(n, ast.Assign) else (n.target if isinstance(n, ast.AnnAssign) else None)
                if not (isinstance(tg, ast.Name) and tg.id in want) or n.value is None:
                    continue
                n_asg += 1
                w = want[tg.id]
                e = inline_locals(c23, n.value)
                fns = {call_name(x) for x in ast.walk(e) if isinstance(x, ast.Call)}
                if fns & {"cos", "sin"}:
                    if canon(e) == canon(ast.parse(w["ell"], mode="eval").body):
                        seen[tg.id].add("elliptic")
                    else:
                        bad.append(f"elliptic {tg.id} = `{unparse(e)}` (expected `{w['ell']}`)")
                elif fns & {"cosh", "sinh"}:
                    if canon(e) == canon(ast.parse(w["hyp"], mode="eval").body):
                        seen[tg.id].add("hyperbolic")
                    else:
                        bad.append(f"hyperbolic {tg.id} = `{unparse(e)}` (expected `{w['hyp']}`)")
                else:
                    poly = poly_in(e, prm)
                    if poly is None:
                        bad.append(f"{tg.id} = `{unparse(e)[:80]}` is neither a closed form nor a polynomial in {prm}")
                        continue
                    deg = max(poly) if poly else 0
                    wrong = [k for k in range(deg + 1) if poly.get(k, 0) != Fraction((-1) ** k, factorial(2 * k + w["k0"]))]
                    if wrong:
                        k = wrong[0]
                        bad.append(f"{tg.id} = `{unparse(e)[:80]}`: the coefficient of {prm}^{k} is {poly.get(k, 0)}, the Stumpff series has {Fraction((-1) ** k, factorial(2 * k + w['k0']))}")
                    else:
                        seen[tg.id].add("limit" if deg == 0 else f"series[{deg}]")
            for nm in ("c2", "c3"):
                if not {"elliptic", "hyperbolic"} <= seen[nm] or not (seen[nm] - {"elliptic", "hyperbolic"}):
                    bad.append(f"{nm} lacks a branch (found {sorted(seen[nm])}; needs elliptic, hyperbolic and the limit 1/{2 if nm == 'c2' else 6} / series)")
            if bad:
                r.violation(c23.qualname, "stumpff:" + ";".join(b[:50] for b in bad), "the Stumpff functions c2, c3 deviate from their definition: " + "; ".join(bad), c23.loc())
            else:
                r.ok(c23.qualname, f"c2 {sorted(seen['c2'])}, c3 {sorted(seen['c3'])}: closed forms and exact series coefficients", c23.loc(), obligations=n_asg)

        r.guard(c23.qualname, three)


def rule_r4(chk, p, t):
    r = chk.rule(
        "C03.R4",
        "per-event bookkeeping of the restart loops",
        2,
        "solve_ivp reports events per event function: `t_events` / `y_events` are lists with one array per event, of "
        "different lengths as soon as only some of several events fired. In both restart loops (propagate, "
        "propagateBulk) these lists are only handed on whole to _applyEvents, iterated, or indexed by a loop variable; "
        "stacking them into one array (array / asarray / numpy max / min / concatenate of the whole list) raises for a "
        "ragged list, and a constant index takes the state of the first event instead of the one that stopped the "
        "integration - so a batched call with two scheduled events fails or restarts from the wrong state where the "
        "same propagation in separate calls succeeds",
        "the values the integrator reports",
    )
    from rsa.util import parents_map

    cel = p.cls(CEL)
    STACKERS = {"array", "asarray", "np_max", "amax", "max", "np_min", "amin", "min", "concatenate", "hstack", "vstack", "stack", "sum", "np_sum"}
    n_uses = 0
    for nm in ("propagate", "propagateBulk"):
        m = cel.methods.get(nm)

        def one(m=m, nm=nm):
            nonlocal n_uses
            pm = parents_map(m.node)
            bad = []
            good = 0
            for n in walk_no_nested(m.node):
                if not (isinstance(n, ast.Attribute) and n.attr in ("t_events", "y_events") and isinstance(n.ctx, ast.Load)):
                    continue
                n_uses += 1
                par = pm.get(n)
                # `sol.t_events or ()`
                if isinstance(par, ast.BoolOp) and isinstance(par.op, ast.Or):
                    par = pm.get(par)
                if isinstance(par, ast.Subscript) and par.value in (n, pm.get(n)):
                    idx = par.slice
                    if isinstance(idx, ast.Constant):
                        bad.append(f"`{unparse(par)}`: the entry of event {idx.value} whatever event stopped the integration (empty when another one fired)")
                    else:
                        good += 1
                    continue
                if isinstance(par, ast.Call) and call_name(par) in STACKERS and any(a is n or (isinstance(a, ast.BoolOp) and n in a.values) for a in par.args):
                    bad.append(f"`{unparse(par)[:50]}`: the per-event list is stacked into one array - fails when the events reported different numbers of times")
                    continue
                if isinstance(par, ast.Attribute) and par.attr in ("size", "shape"):
                    bad.append(f"`{unparse(par)}`: size of the per-event list, not of an event's reported times")
                    continue
                good += 1
            cons = f"{CEL}.{nm}:event-lists"
            if bad:
                r.violation(cons, "ragged-event-lists:" + ";".join(sorted(set(b[:50] for b in bad))), f"{nm} treats solve_ivp's per-event lists as one array: " + "; ".join(sorted(set(bad))) + " - with two or more events of which one fires the call raises (or restarts from an empty / foreign state) although separate propagate calls over the same span succeed", m.loc())
            else:
                r.ok(cons, f"{good} uses of t_events / y_events, all per event", m.loc())

        r.guard(f"{CEL}.{nm}:event-lists", one)
    if n_uses < 2:
        r.error("event-lists", f"{n_uses} uses of t_events / y_events found in the restart loops (2 confirmed by hand)")


def rule_r5(chk, p, t):
    r = chk.rule(
        "C03.R5",
        "no thrust state survives from one propagation call to the next",
        3,
        "a propagation is a function of the epoch, the state and the events it is given (composability, Kepler "
        "exactness and conservation under TwoBody all presuppose it).  The derivative reads the instance attribute "
        "`finite_thrust`; it is the only state the propagation writes on the dynamics object, so every call must start "
        "by clearing it: Celestial._prepEvents assigns `self.finite_thrust = None` on EVERY path to each of its exits "
        "(before a conditional re-arm), and propagate / propagateBulk call _prepEvents on every path before the "
        "integrator runs.  A reset placed behind an early return leaves a burn of the previous call switched on in a "
        "later call that has no events",
        "the numbers; pickling boundaries of the parallel engine (which hide the carried state between steps)",
    )
    from rsa.cfg import cfg_of

    cel = p.cls("resonaate.dynamics.celestial.Celestial")
    pe = cel.methods.get("_prepEvents")

    def reset():
        cfg = cfg_of(pe)
        resets = [n.id for n in cfg.nodes if n.kind == "stmt" and isinstance(n.ast, ast.Assign) and any(unparse(tg) == "self.finite_thrust" for tg in n.ast.targets) and isinstance(n.ast.value, ast.Constant) and n.ast.value.value is None]
        if not resets:
            r.violation(pe.qualname, "thrust-never-cleared", "_prepEvents never clears self.finite_thrust: a burn armed by an earlier propagation stays on", pe.loc())
            return
        exits = [n for n in cfg.nodes if n.kind == "return"] or [cfg.nodes[cfg.exit.id]]
        bad = [x for x in exits if not cfg.must_pass(x.id, via_nodes=resets)]
        if not any(n.kind == "return" for n in cfg.nodes) and not cfg.must_pass(cfg.exit.id, via_nodes=resets):
            bad = [cfg.nodes[cfg.exit.id]]
        if bad:
            r.violation(
                pe.qualname,
                "thrust-reset-skipped",
                f"_prepEvents can return (line {bad[0].lineno or pe.lineno}) without clearing self.finite_thrust: on that path a thrust armed by the "
                "previous propagation call stays switched on, and the result of this call depends on what the object propagated before",
                pe.loc(bad[0].ast) if bad[0].ast is not None else pe.loc(),
            )
        else:
            r.ok(pe.qualname, f"self.finite_thrust = None on every path to each of the {len(exits)} exit(s)", pe.loc())

    r.guard(pe.qualname, reset)
    for nm in ("propagate", "propagateBulk"):
        m = cel.methods.get(nm)

        def calls(m=m, nm=nm):
            cfg = cfg_of(m)
            preps = [n.id for n in cfg.nodes if n.ast is not None and n.kind in ("stmt", "cond") and any(isinstance(c, ast.Call) and call_name(c) == "_prepEvents" for c in ast.walk(n.ast))]
            solves = [n for n in cfg.nodes if n.ast is not None and n.kind in ("stmt", "cond", "return") and any(isinstance(c, ast.Call) and call_name(c) == "solve_ivp" for c in ast.walk(n.ast))]
            require(solves, f"{nm} does not call solve_ivp", m.node)
            if preps and all(cfg.must_pass(sv.id, via_nodes=preps) for sv in solves):
                r.ok(m.qualname, "_prepEvents precedes the integrator on every path", m.loc())
            else:
                r.violation(m.qualname, "integrate-without-prep", f"{nm} can reach solve_ivp without calling _prepEvents first: the thrust state of an earlier call is not cleared", m.loc(solves[0].ast))

        r.guard(m.qualname, calls)


def rule_r6(chk, p, t):
    r = chk.rule(
        "C03.R6",
        "a segment of the batched propagation that contains no requested time",
        1,
        "solve_ivp(..., t_eval=times) returns `t` and `y` as EMPTY LISTS (not arrays) when no requested time lies in the "
        "integrated span - which is what happens in propagateBulk when an event stops the integration before the next "
        "requested time (two events between two consecutive output times).  The batched call must then behave like the "
        "same propagation in separate calls: the solution's `y` may not be used as an array (`.reshape`, `[..., k]`) "
        "without a conversion (array / asarray / atleast_2d) or a non-emptiness guard, and `solution.t[-1]` may only be "
        "read where a requested time certainly lies in the span - in the branch where no event fired (the integration "
        "reached the last requested time) or under a guard on the number of returned times",
        "the values; scipy's behaviour is taken from its documented source (solve_ivp: `elif ts:` before hstack)",
    )
    from rsa.cfg import cfg_of
    from rsa.util import parents_map

    cel = p.cls(CEL)
    m = cel.methods.get("propagateBulk")

    def one():
        calls = [c for c in walk_no_nested(m.node) if isinstance(c, ast.Call) and call_name(c) == "solve_ivp"]
        require(len(calls) == 1, "propagateBulk does not call solve_ivp once", m.node)
        if not any(k.arg == "t_eval" for k in calls[0].keywords):
            r.ok(m.qualname, "no t_eval: t / y are always arrays", m.loc(calls[0]))
            return
        pm = parents_map(m.node)
        cfg = cfg_of(m)
        teval = unparse(next(k.value for k in calls[0].keywords if k.arg == "t_eval"))
        # names bound to the solution and to its y / t, the count of returned times
        sol = None
        for n in walk_no_nested(m.node):
            if isinstance(n, ast.Assign) and n.value is calls[0] and isinstance(n.targets[0], ast.Name):
                sol = n.targets[0].id
        require(sol is not None, "the solution of solve_ivp is not bound to a name", calls[0])
        raw_y = {f"{sol}.y"}
        counts = set()
        for n in walk_no_nested(m.node):
            if isinstance(n, ast.Assign) and len(n.targets) == 1 and isinstance(n.targets[0], ast.Name):
                if unparse(n.value) == f"{sol}.y":
                    raw_y.add(n.targets[0].id)
                if unparse(n.value) in (f"len({sol}.t)", f"{sol}.t.size", f"len({sol}.y)"):
                    counts.add(n.targets[0].id)
        SAFE = {"array", "asarray", "atleast_2d", "atleast_1d", "asanyarray"}
        bad = []
        n_sites = 0

        def _from_events(name):
            """the name collects what the per-event lists reported: assigned from an expression over t_events, or inside
            a loop over them"""
            for a in walk_no_nested(m.node):
                if isinstance(a, ast.Assign) and any(isinstance(tg, ast.Name) and tg.id == name for tg in a.targets) and "t_events" in unparse(a.value):
                    return True
                if isinstance(a, ast.For) and "t_events" in unparse(a.iter) and any(isinstance(x, ast.Name) and x.id == name and isinstance(x.ctx, ast.Store) for b_ in a.body for x in ast.walk(b_)):
                    return True
            return False

        def guarded(node_ast):
            """dominated by a condition on the number of returned times, or by `no event fired`"""
            # inside the guarded arm of a conditional expression / a short-circuit `and`
            cur = node_ast
            while cur in pm and not isinstance(pm[cur], ast.stmt):
                par = pm[cur]
                if isinstance(par, ast.IfExp) and cur is par.body and any(unparse(par.test) in (f"{k} > 0", f"{k} >= 1", k) for k in counts | {f"len({sol}.t)", f"{sol}.t.size"}):
                    return True
                if isinstance(par, ast.IfExp) and cur is par.orelse and any(unparse(par.test) == f"{k} == 0" for k in counts | {f"len({sol}.t)"}):
                    return True
                if isinstance(par, ast.BoolOp) and isinstance(par.op, ast.And) and cur is not par.values[0] and any(unparse(v) in (f"{k} > 0", f"{k} >= 1") for v in par.values[: par.values.index(cur)] for k in counts | {f"len({sol}.t)"}):
                    return True
                cur = par
            nd = cfg.node_of(node_ast)
            if nd is None:
                return False
            for cid, lab in cfg.control_conditions(nd.id):
                c = cfg.nodes[cid]
                if c.kind != "cond":
                    continue
                txt = unparse(c.ast)
                if any(f"{k} > 0" == txt or f"{k} >= 1" == txt or f"{k}" == txt for k in counts | {f"len({sol}.t)", f"{sol}.t.size"}) and lab is True:
                    return True
                if any(txt == f"{k} == 0" for k in counts | {f"len({sol}.t)"}) and lab is False:
                    return True
                # `len(times) == 0`: no requested time is left at all - not reachable inside the loop, whose condition
                # current_time < times[-1] needs a remaining requested time (the last one is consumed only when the
                # integration reaches it, which ends the loop)
                if lab is True and isinstance(c.ast, ast.Compare) and len(c.ast.ops) == 1 and isinstance(c.ast.ops[0], ast.Eq) and unparse(c.ast.left) == f"len({teval})" and unparse(c.ast.comparators[0]) == "0":
                    return True
                # `if not fired:` / `if fired is None:` - no event reported: the integration ran to the last requested time
                nm_, neg = None, None
                if isinstance(c.ast, ast.Name):
                    nm_, neg = c.ast.id, (lab is False)
                elif isinstance(c.ast, ast.Compare) and len(c.ast.ops) == 1 and isinstance(c.ast.left, ast.Name) and isinstance(c.ast.comparators[0], ast.Constant) and c.ast.comparators[0].value is None:
                    nm_ = c.ast.left.id
                    neg = (isinstance(c.ast.ops[0], ast.IsNot) and lab is False) or (isinstance(c.ast.ops[0], ast.Is) and lab is True)
                if nm_ is not None and neg and _from_events(nm_):
                    return True
            return False

        # a name bound to the raw y stops being raw once it is re-bound to a converted array: uses reached only through
        # such a re-binding are uses of an array
        raw_defs, conv_defs = {}, {}
        for nd in cfg.nodes:
            a = nd.ast
            if nd.kind == "stmt" and isinstance(a, ast.Assign) and len(a.targets) == 1 and isinstance(a.targets[0], ast.Name):
                nm_ = a.targets[0].id
                if unparse(a.value) == f"{sol}.y":
                    raw_defs.setdefault(nm_, []).append(nd.id)
                elif any(isinstance(c_, ast.Call) and call_name(c_) in SAFE for c_ in ast.walk(a.value)) or any(isinstance(c_, ast.Call) and call_name(c_) in ("zeros", "empty", "full", "zeros_like") for c_ in ast.walk(a.value)):
                    conv_defs.setdefault(nm_, []).append(nd.id)

        def still_raw(name_node):
            nm_ = unparse(name_node)
            if nm_ not in raw_defs:
                return True  # `solution.y` itself
            nd = cfg.node_of(name_node)
            if nd is None:
                return True
            if nd.id in conv_defs.get(nm_, []):
                return True  # the argument of the conversion itself (judged at that site)
            return any(nd.id in cfg.reachable(d, blocked_nodes=conv_defs.get(nm_, [])) for d in raw_defs[nm_])

        for n in walk_no_nested(m.node):
            # (a) array use of the raw y
            if isinstance(n, (ast.Name, ast.Attribute)) and isinstance(getattr(n, "ctx", None), ast.Load) and unparse(n) in raw_y and still_raw(n):
                par = pm.get(n)
                if isinstance(par, ast.Attribute) and par.value is n and par.attr in ("reshape", "copy", "T", "shape", "ravel", "flatten"):
                    n_sites += 1
                    if not guarded(n):
                        bad.append(f"`{unparse(par)}` at line {n.lineno}: `{sol}.y` is an empty list when the segment contains no requested time")
                elif isinstance(par, ast.Subscript) and par.value is n and isinstance(par.slice, ast.Tuple):
                    n_sites += 1
                    if not guarded(n):
                        bad.append(f"`{unparse(par)}` at line {n.lineno}: array indexing of `{sol}.y`, an empty list when the segment contains no requested time")
                elif isinstance(par, ast.Call) and call_name(par) in SAFE:
                    n_sites += 1
            # (b) last returned time
            if isinstance(n, ast.Subscript) and unparse(n.value) == f"{sol}.t" and isinstance(n.ctx, ast.Load):
                n_sites += 1
                if not guarded(n):
                    bad.append(f"`{unparse(n)}` at line {n.lineno}: `{sol}.t` is empty when an event stops the integration before the next requested time")
        if bad:
            r.violation(
                m.qualname,
                "empty-segment:" + ";".join(sorted(set(b.split(" at line")[0] for b in bad))),
                "propagateBulk fails when two events fall between two consecutive requested times (the second segment returns no requested time), where the same propagation in separate calls succeeds: " + "; ".join(bad),
                m.loc(),
            )
        else:
            require(n_sites >= 1, "no use of the solution's t / y found", m.node)
            r.ok(m.qualname, f"{n_sites} uses of the solution's t / y are list-safe or guarded", m.loc())

    r.guard(m.qualname, one)


def rule_r7(chk, p, t):
    from rsa.inplace import InPlace, aliases_of, view_root, _MUT_METHODS

    r = chk.rule(
        "C03.R7",
        "the columns of a batch are integrated independently",
        6,
        "propagating K states at once gives what K separate calls give only if nothing that is computed once per "
        "derivative evaluation (rotation matrix, third-body and Sun positions, the solver's state vector itself and its "
        "per-column views, attributes of the dynamics object) is changed while the columns are processed: inside the "
        "column loop of every Celestial._differentialEquation no such value is the target of an in-place operation "
        "(`x -= y`, `x[i] = v`, a mutating method, `out=`), directly or through a resolved callee that modifies the "
        "corresponding parameter in place (parameter-mutation summaries of rsa/inplace.py, aliases and views followed, "
        "depth 3); the only array written in the loop is the derivative being returned.  A copy (`array(x)`, `x.copy()`, "
        "any arithmetic) hands the callee its own object",
        "equality of batched and separate propagation within tolerance (integrator step control is per batch)",
    )
    cel = p.cls(CEL)
    impls = [m for m in p.overriders(cel, "_differentialEquation") if m.cls is not cel]
    if len(impls) < 2:
        r.error(CEL, f"only {len(impls)} derivative implementations found (2 confirmed by hand)")
    ip = InPlace(p, t)
    for m in impls:

        def one(m=m):
            body = m.node.body
            loops = [(i, n) for i, n in enumerate(body) if isinstance(n, ast.For) and isinstance(n.iter, ast.Call) and call_name(n.iter) == "range"]
            require(len(loops) == 1, f"expected one top-level column loop, found {len(loops)}", m.node)
            idx, loop = loops[0]
            rets = [n for n in walk_no_nested(m.node) if isinstance(n, ast.Return) and n.value is not None]
            out_names = {view_root(rt.value) for rt in rets}
            shared = set(m.params) - {"self"}
            for st in body[:idx]:
                for n in ast.walk(st):
                    if isinstance(n, ast.Name) and isinstance(n.ctx, ast.Store):
                        shared.add(n.id)
            al = aliases_of(m.node, shared)
            # elements of a shared container bound by a loop / comprehension inside the column loop
            for n in ast.walk(loop):
                if isinstance(n, (ast.comprehension, ast.For)) and n is not loop:
                    it = n.iter
                    if isinstance(it, ast.Call) and isinstance(it.func, ast.Attribute) and it.func.attr in ("items", "values", "keys"):
                        it = it.func.value
                    root = view_root(it)
                    if root is not None and (al.get(root) in shared or root == "self"):
                        for el in ast.walk(n.target):
                            if isinstance(el, ast.Name):
                                al[el.id] = al.get(root, root)

            def shared_root(e):
                if e is None:
                    return None
                if isinstance(e, ast.Attribute) and isinstance(e.value, ast.Name) and e.value.id == "self":
                    return unparse(e)
                root = view_root(e)
                if root is None:
                    return None
                if root == "self":
                    return unparse(e)
                a = al.get(root)
                return a if a in shared else None

            n_calls = 0
            for n in ast.walk(loop):
                if isinstance(n, (ast.FunctionDef, ast.Lambda)):
                    continue
                where = m.loc(n) if hasattr(n, "lineno") else m.loc()
                if isinstance(n, ast.AugAssign):
                    root = shared_root(n.target)
                    if root is not None and root not in out_names:
                        r.violation(f"{m.qualname}:{unparse(n.target)[:30]}", f"batch-carried:{m.cls.name}:{root}", f"`{unparse(n)[:70]}` inside the column loop changes `{root}` in place: it is computed once per evaluation (or is the solver's own state), so column jj sees what columns 0..jj-1 left behind - a batch no longer equals separate calls", where)
                elif isinstance(n, ast.Assign):
                    for tg in n.targets:
                        if isinstance(tg, ast.Subscript):
                            root = shared_root(tg)
                            if root is not None and root not in out_names:
                                r.violation(f"{m.qualname}:{unparse(tg)[:30]}", f"batch-carried:{m.cls.name}:{root}", f"`{unparse(tg)[:50]} = ...` inside the column loop writes into `{root}`, which every column reads", where)
                elif isinstance(n, ast.Call):
                    if isinstance(n.func, ast.Attribute) and n.func.attr in _MUT_METHODS:
                        root = shared_root(n.func.value)
                        if root is not None and root not in out_names:
                            r.violation(f"{m.qualname}:{unparse(n)[:30]}", f"batch-carried:{m.cls.name}:{root}", f"`{unparse(n)[:60]}` inside the column loop modifies `{root}`, which every column reads", where)
                    for k in n.keywords:
                        if k.arg == "out":
                            root = shared_root(k.value)
                            if root is not None and root not in out_names:
                                r.violation(f"{m.qualname}:{unparse(n)[:30]}", f"batch-carried:{m.cls.name}:{root}", f"`{unparse(n)[:60]}` writes its result into `{root}`, which every column reads", where)
                    for callee, binding in ip.bound_callees(n, m):
                        mp = ip.mutated_params(callee)
                        n_calls += 1
                        bad = []
                        for par, (what, _) in mp.items():
                            root = shared_root(binding.get(par))
                            if root is not None:
                                bad.append((par, what, root))
                        cons = f"{m.qualname}:{callee.name}({', '.join(unparse(a)[:18] for a in n.args)[:50]})"
                        if bad:
                            par, what, root = bad[0]
                            r.violation(cons, f"batch-carried:{m.cls.name}:{callee.name}:{par}", f"`{unparse(binding[par])[:40]}` (a reference to `{root}`, computed once for all columns) is handed to {callee.name} as `{par}`, and {callee.name} modifies that parameter in place: {what}. Column jj of a batch sees the value left behind by columns 0..jj-1, so propagating several states at once no longer gives what separate calls give", where)
                        else:
                            r.ok(cons, f"{callee.name} modifies {sorted(mp) if mp else 'none'} of its parameters in place; no shared value is bound to one", where)
            if n_calls == 0 and m.cls.name != "TwoBody":
                r.error(m.qualname, "no resolved call inside the column loop")
            r.ok(f"{m.qualname}:loop", f"no in-place operation on {len(shared)} per-evaluation values inside the column loop (output: {sorted(x for x in out_names if x)})", m.loc(loop))

        r.guard(m.qualname, one)


def run(chk, p, t):
    chk.explanation = (
        "Static decision of a deliberately narrow set of structural necessary conditions of C03: (R1) the strided "
        "(6, K) batch layout is used consistently by both derivative implementations and by the restart loop, so a "
        "batched propagation integrates each column by the same equations as a separate call; (R2) the perturbed "
        "derivative depends on time only through the absolute epoch init_julian_date + t/86400; (R3) the two-body "
        "acceleration and the f/g closed form with its consistency guard. NOT decided: split/restart equality within "
        "tolerance, Kepler exactness, energy / momentum conservation (integrator numerics)."
    )
    chk.assumptions += ["numpy ravel / reshape are row-major: element (i, k) of a (6, K) array is at index i K + k"]
    for fn in (rule_r1, rule_r2, rule_r3, rule_r4, rule_r5, rule_r6, rule_r7):
        rid = "C03.R" + fn.__name__[-1]
        if not chk.wants(rid):
            continue
        try:
            fn(chk, p, t)
        except (Undecided, AnchorError) as e:
            rr = chk.rule(rid + ".x", fn.__name__, 0, "-")
            (rr.undecided if isinstance(e, Undecided) else rr.error)(fn.__name__, str(e))


# ---------------------------------------------------------------------------------- restart loop of Celestial.propagate
def propagate_loop_facts(prop):
    """Symbolic reading of `Celestial.propagate`: prologue, the single restart loop, epilogue.  Returns a dict of facts
    (expressions as text after abstraction of the solve_ivp call to `SOL`) and two complaint lists, `layout` (C03) and
    `restart` (C15); raises Undecided when the function is not `prologue; while T < F: straight-line body; return`."""
    from rsa.loopsum import abstract_call, block_env
    from rsa.terms import NotEvaluable

    body = [b for b in prop.node.body if not (isinstance(b, ast.Expr) and isinstance(b.value, ast.Constant))]
    loops = [i for i, b in enumerate(body) if isinstance(b, ast.While)]
    if len(loops) != 1:
        raise Undecided("propagate: exactly one top-level restart loop expected", prop.node)
    wi = loops[0]
    W = body[wi]
    try:
        pro = block_env(body[:wi])
        loop = block_env(W.body)
    except NotEvaluable as e:
        raise Undecided(f"propagate: {e}", prop.node)
    tst = W.test
    if not (isinstance(tst, ast.Compare) and len(tst.ops) == 1 and isinstance(tst.ops[0], ast.Lt) and isinstance(tst.left, ast.Name) and isinstance(tst.comparators[0], ast.Name)):
        raise Undecided(f"propagate: loop condition `{unparse(tst)}` is not `time < final_time`", W)
    T, F = tst.left.id, tst.comparators[0].id
    p_t0, p_tf, p_x = prop.params[1], prop.params[2], prop.params[3]
    layout, restart = [], []

    def entry(name):
        return unparse(pro[name]) if name in pro else name

    if entry(T) != p_t0 or entry(F) != p_tf:
        restart.append(f"the loop runs while `{entry(T)} < {entry(F)}`, not from the requested initial to the requested final time")
    calls = {}
    abstracted = {}
    for k, v in loop.items():
        a, found = abstract_call(v, "solve_ivp", "SOL")
        abstracted[k] = a
        for c in found:
            calls[unparse(c)] = c
    if len(calls) != 1:
        raise Undecided(f"propagate: {len(calls)} distinct solve_ivp calls in the loop body (one expected)", W)
    sol = next(iter(calls.values()))
    kws = {k.arg: k.value for k in sol.keywords}
    if len(sol.args) < 3:
        raise Undecided("propagate: solve_ivp(fun, t_span, y0, ...) expected positionally", sol)
    if "self._differentialEquation" not in unparse(sol.args[0]):
        layout.append(f"right-hand side `{unparse(sol.args[0])[:60]}`")
    if unparse(sol.args[1]) != f"({T}, {F})":
        restart.append(f"t_span={unparse(sol.args[1])}")
    y0 = sol.args[2]
    X = None
    if isinstance(y0, ast.Call) and isinstance(y0.func, ast.Attribute) and y0.func.attr in ("ravel", "flatten") and isinstance(y0.func.value, ast.Name):
        X = y0.func.value.id  # (the order argument is judged by the caller)
    else:
        layout.append(f"initial state passed as `{unparse(y0)[:60]}`")
    ev = kws.get("events")
    EV = unparse(ev) if ev is not None else None
    if EV is None or "_prepEvents(" not in entry(EV):
        restart.append(f"events={EV}: not the list prepared by _prepEvents")
    # loop-carried time
    inc = None
    tnew = abstracted.get(T)
    if tnew is None:
        restart.append("the loop does not advance its time")
    else:
        ok_t = isinstance(tnew, ast.BinOp) and isinstance(tnew.op, ast.Add) and unparse(tnew.left) == "SOL.t[-1]"
        if ok_t:
            inc = tnew.right
        else:
            restart.append(f"restart time `{unparse(tnew)[:70]}` is not the time the solver stopped at plus an increment")
    facts = dict(T=T, F=F, X=X, EV=EV, increment=inc, loop=W, solve=sol)
    if X is not None:
        xnew = abstracted.get(X)
        xe = pro.get(X)
        shape_names = [k for k, v in pro.items() if isinstance(v, ast.Attribute) and v.attr == "shape" and xe is not None and unparse(v.value) == unparse(xe)] + [k for k, v in pro.items() if isinstance(v, ast.Attribute) and v.attr == "shape" and xe is None and unparse(v.value) == X]
        SHAPE = shape_names[0] if shape_names else None
        facts["SHAPE"] = SHAPE
        if SHAPE is None:
            layout.append("saved shape")
        # 1-D promotion of the state parameter before the shape is saved
        promo = xe is not None and isinstance(xe, ast.IfExp) and unparse(xe.test) == f"len({p_x}.shape) == 1" and unparse(xe.body) == f"{p_x}[:, None]" and unparse(xe.orelse) == p_x
        if not promo:
            layout.append("1-D input is not promoted to (6, 1) before the shape is saved")
        if xnew is None:
            layout.append("restart state `None` (expected the solver's last column reshaped to the saved shape)")
            restart.append("the loop does not carry the state from one round to the next")
        else:
            ap = xnew
            ok_ap = isinstance(ap, ast.Call) and call_name(ap) == "_applyEvents"
            if ok_ap:
                aargs = {0: None, 1: None, 2: None}
                for i, a in enumerate(ap.args):
                    aargs[i] = a
                for kname, idx in (("t_events", 0), ("events", 1), ("current_state", 2)):
                    for kk in ap.keywords:
                        if kk.arg == kname:
                            aargs[idx] = kk.value
                if not (aargs[0] is not None and unparse(aargs[0]) == "SOL.t_events" and aargs[1] is not None and unparse(aargs[1]) == EV):
                    restart.append("_applyEvents arguments")
                st = aargs[2]
                want_st = f"SOL.y[:, -1].reshape({SHAPE})"
                got_st = unparse(st).replace("[::, -1]", "[:, -1]") if st is not None else None
                if got_st != want_st:
                    layout.append(f"restart state `{got_st}` (expected the solver's last column reshaped to the saved shape)")
                    restart.append(f"restart state `{got_st}`")
            else:
                restart.append(f"the state carried to the next round is `{unparse(xnew)[:70]}`, not _applyEvents(...) of the solver's last column")
        # epilogue: flatten for a single state, saved shape otherwise
        rets = []
        for st in body[wi + 1 :]:
            if isinstance(st, ast.Return) and st.value is not None:
                if isinstance(st.value, ast.IfExp):
                    rets.append((unparse(st.value.test), unparse(st.value.body)))
                    rets.append((f"not ({unparse(st.value.test)})", unparse(st.value.orelse)))
                else:
                    rets.append((None, unparse(st.value)))
            elif isinstance(st, ast.If) and len(st.body) == 1 and isinstance(st.body[0], ast.Return):
                rets.append((unparse(st.test), unparse(st.body[0].value)))
                if st.orelse and len(st.orelse) == 1 and isinstance(st.orelse[0], ast.Return):
                    rets.append((f"not ({unparse(st.test)})", unparse(st.orelse[0].value)))
        flat = [v for c, v in rets if c == f"{SHAPE}[1] == 1"]
        other = [v for c, v in rets if c != f"{SHAPE}[1] == 1"]
        if not (flat and flat[0] in (f"{X}.flatten()", f"{X}.ravel()") and other and other[0] == f"{X}.reshape({SHAPE})"):
            layout.append(f"return `{rets}`")
    return facts, layout, restart
