"""Shared rule: factories of stateful objects hand out an object created by that very call (rsa/fresh.py)."""

from __future__ import annotations

import ast

from rsa.fresh import Fresh
from rsa.model import unparse, walk_no_nested


def rule_factories_fresh(chk, p, t, rid, title, why, factories, consequence):
    """factories: qualified names of module-level factory functions"""
    r = chk.rule(
        rid,
        title,
        len(factories),
        why + "  Each listed factory returns, on every path, an object created by that call (freshness provenance, "
        "rsa/fresh.py: a constructor / fromConfig result, never a value read from a module-level or class-level "
        "container, never a memoised callee); `None` and the caller's own argument are accepted",
        "what the object computes",
    )
    fr = Fresh(p)
    for q in factories:
        try:
            fi = p.func(q)
        except Exception:
            r.error(q, "factory not found (vanished anchor)")
            continue

        def one(fi=fi):
            dec = fr._decorated_cache(fi)
            if dec:
                r.violation(fi.qualname, "shared-object", f"{fi.name} is memoised by @{dec}: equal arguments get the object of the first call - {consequence}", fi.loc())
                return
            rets = [n for n in walk_no_nested(fi.node) if isinstance(n, ast.Return) and n.value is not None]
            if not rets:
                r.error(fi.qualname, "factory returns nothing")
                return
            for rt in rets:
                v, why_, node = fr.classify(fi, rt.value)
                if v == "shared":
                    r.violation(fi.qualname, "shared-object", f"`return {unparse(rt.value)[:60]}`: {why_} - {consequence}", fi.loc(rt))
                    return
                if v == "unknown":
                    r.undecided(fi.qualname, f"`return {unparse(rt.value)[:60]}`: cannot show the object is created by this call ({why_})", fi.loc(rt))
                    return
            r.ok(fi.qualname, f"{len(rets)} return(s): created by the call", fi.loc())

        r.guard(fi.qualname, one)
