"""Shared rules on state that persists between calls (rsa/memo.py): used by several properties.

memo_rule     - analysis (A): no function of the given modules hands back a stored result for another argument.
coherence_rule- analysis (B): lazily cached properties a rule relies on are reset by every writer of what they cache.
"""

from __future__ import annotations

import ast

from rsa import memo
from rsa.model import ClassInfo, FunctionInfo, ModuleInfo


def _selftest():
    """The detector must fire on the embedded positive example on every run (the rule's expected count is zero)."""
    tree = ast.parse(memo.SELFTEST_SRC)
    mod = ModuleInfo(name="rsa_selftest", path="<selftest>", relpath="<selftest>", source=memo.SELFTEST_SRC, tree=tree, is_package=False)
    cnode = tree.body[0]
    ci = ClassInfo(qualname="rsa_selftest.K", name="K", node=cnode, module=mod)
    fnode = [n for n in cnode.body if isinstance(n, ast.FunctionDef)][0]
    fi = FunctionInfo(qualname="rsa_selftest.K.build", name="build", node=fnode, module=mod, cls=ci, kind="classmethod")

    class P:  # minimal project facade: nothing resolves
        classes = {}

        def resolve_dotted(self, m, d):
            return d

    ms = memo.param_memos(P(), fi)
    if len(ms) != 1:
        return False
    vs = memo.judge_memo(P(), fi, ms[0])
    return any(k == "violation" and "projection of `when`" in msg for k, msg in vs)


def memo_rule(chk, p, t, rid, modules, floor, what):
    r = chk.rule(
        rid,
        "no result is reused for another argument (memo soundness)",
        floor,
        f"every function of {what} that keeps a parameter-dependent value in a location that outlives the call (class "
        "attribute, module global, attribute of self) hands the stored value back only on paths that pin each such "
        "parameter by an equality / identity test of the parameter itself (or a keyed lookup whose key is injective in it); "
        "a hit test through a projection (.seconds, .date(), int(), //, isclose ...) or none at all is a violation. "
        "lru_cache-decorated functions are keyed by all their arguments and pass",
        "hash / equality semantics of the argument types",
    )
    if not _selftest():
        r.error("selftest", "the embedded positive example (single-entry memo hit through `.seconds`) is no longer detected")
        return
    r.ok("selftest", "embedded positive example detected")
    n_fn = 0
    for fi in p.all_functions(include_nested=False):
        if not fi.module.name.startswith(tuple(modules)):
            continue
        n_fn += 1

        def one(fi=fi):
            decos = {ast.unparse(d).split("(")[0].split(".")[-1] for d in fi.node.decorator_list}
            if decos & {"lru_cache", "cache"}:
                r.ok(fi.qualname, "functools cache keyed by all arguments", fi.loc())
                return
            ms = memo.param_memos(p, fi)
            if not ms:
                r.trivial(fi.qualname, "keeps no parameter-dependent value between calls")
                return
            for m in ms:
                for kind, msg in memo.judge_memo(p, fi, m):
                    cons = f"{fi.qualname}:{m.loc[1]}"
                    if kind == "violation":
                        r.violation(cons, f"memo:{m.loc[1]}:{msg[:60]}", msg, fi.loc(m.write))
                    elif kind == "undecided":
                        r.undecided(cons, msg, fi.loc(m.write))
                    else:
                        r.ok(cons, msg, fi.loc(m.write))

        r.guard(fi.qualname, one)
    if n_fn < floor:
        r.error("functions", f"only {n_fn} functions found in {what} ({floor} confirmed by hand)")


def coherence_rule(chk, p, t, rid, targets, what):
    """targets: list of (class qualified name, property name)."""
    r = chk.rule(
        rid,
        "cached derived values are reset by every writer of what they cache",
        len(targets),
        f"for {what}: when the property is a lazy cache (`if self.F is None: self.F = E; return self.F`) every method of the "
        "class hierarchy that assigns a self-field E reads (followed through properties) also resets self.F, directly or "
        "through a setter / method it calls; a property that computes its value on every read passes trivially",
        "order of a write and a read inside one method",
    )
    for cq, pn in targets:
        ci = p.cls(cq)
        m = p.lookup_method(ci, pn)
        cons = f"{ci.name}.{pn}"
        if m is None:
            r.error(cons, "vanished anchor")
            continue

        def one(ci=ci, m=m, cons=cons):
            if memo.lazy_cache(m) is None:
                r.ok(cons, "computed on every read (not cached)", m.loc())
                return
            res = memo.cache_coherence(p, ci, m)
            bad = [(c, msg) for k, c, msg in res if k == "violation"]
            if bad:
                for c, msg in bad:
                    r.violation(cons + ":" + c, f"stale-cache:{c}", msg, m.loc())
            else:
                r.ok(cons, f"lazy cache, reset by all {len(res)} writers of its inputs", m.loc())

        r.guard(cons, one)
