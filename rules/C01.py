"""C01 - every scheduled event takes effect exactly once, at its configured time.

Decides structural clauses only (see DESIGN.md section 4, C01): window tiling provenance,
half-open predicate, effective addressing, exhaustiveness, delivery/retention convention
agreement, handler-effect liveness, payload slot agreement.  Which step a boundary event lands
in (binary rounding of three Julian dates) is NOT decided.
"""

from __future__ import annotations

import ast
import copy

from rsa import orderings as O
from rsa.cfg import cfg_of
from rsa.effects import EffectAnalysis
from rsa.model import AnchorError, Undecided, call_name, dotted_name, norm_stmt, unparse, walk_no_nested
from rsa.terms import canon, inline_properties, single_defs
from rsa.util import find_calls, get_arg, parents_map, require, top_level_stmt

EVENT_FUNCS = ("getRelevantEvents", "handleRelevantEvents")
PURE_QUERY_BUILDERS = {
    "filter", "filter_by", "join", "outerjoin", "order_by", "group_by", "with_session", "limit",
    "offset", "distinct", "options", "having", "where", "select_from", "with_entities",
}


# ====================================================================== R1
class StepSym:
    """Symbolic form of expressions of ``Scenario.stepForward`` over the pre-tick clock time."""

    def __init__(self, p, t, step, pre_time, post_time, cjd_pre):
        self.p, self.t, self.step = p, t, step
        self.pre_time, self.post_time, self.cjd_pre = pre_time, post_time, cjd_pre
        self.pm = parents_map(step.node)
        tics = find_calls(step.node, "ticToc")
        require(len(tics) == 1, f"expected exactly one ticToc() call in stepForward, found {len(tics)}", step.node)
        self.tic_call = tics[0]
        self.tic_stmt = top_level_stmt(step.node, self.tic_call, self.pm)
        require(
            self.tic_stmt is not None and isinstance(self.tic_stmt, ast.Expr) and self.tic_stmt.value is self.tic_call,
            "ticToc() is not an unconditional top-level statement of stepForward",
            self.tic_call,
        )
        self.tic_idx = step.node.body.index(self.tic_stmt)
        self.defs = single_defs(step.node)
        self.clock_cls = p.cls("ScenarioClock")

    def phase_of(self, node):
        top = top_level_stmt(self.step.node, node, self.pm)
        require(top is not None, "node not inside stepForward body", node)
        i = self.step.node.body.index(top)
        require(i != self.tic_idx, "expression evaluated inside the ticToc statement", node)
        return "pre" if i < self.tic_idx else "post"

    def def_stmt_of(self, name):
        for n in walk_no_nested(self.step.node):
            if isinstance(n, ast.Assign) and len(n.targets) == 1 and isinstance(n.targets[0], ast.Name) and n.targets[0].id == name:
                return n
            if isinstance(n, ast.NamedExpr) and isinstance(n.target, ast.Name) and n.target.id == name:
                return n
        return None

    def sym(self, expr, phase, depth=8):
        me = self
        require(depth > 0, "local inlining too deep", expr)

        class Loc(ast.NodeTransformer):
            def visit_Name(self, node):
                if isinstance(node.ctx, ast.Load) and node.id in me.defs:
                    st = me.def_stmt_of(node.id)
                    if st is not None:
                        return me.sym(me.defs[node.id], me.phase_of(st), depth - 1)
                return node

            def visit_Lambda(self, node):
                return node

        e = Loc().visit(copy.deepcopy(expr))
        e = inline_properties(e, self.step, self.t, depth=5)
        time_expr = self.pre_time if phase == "pre" else self.post_time

        class Clk(ast.NodeTransformer):
            def visit_Attribute(self, node):
                if isinstance(node.ctx, ast.Load):
                    if node.attr == "time":
                        bt = me.t.expr_type(node.value, me.step)
                        if bt is not None and bt.cls is me.clock_cls:
                            return copy.deepcopy(time_expr)
                    if node.attr == "current_julian_date" and isinstance(node.value, ast.Name) and node.value.id == "self":
                        if phase == "pre":
                            return copy.deepcopy(me.cjd_pre)
                        return copy.deepcopy(me.cjd_post())
                return self.generic_visit(node)

        return Clk().visit(e)

    def cjd_assign(self):
        outs = []
        for n in walk_no_nested(self.step.node):
            if isinstance(n, ast.Assign):
                for tg in n.targets:
                    if isinstance(tg, ast.Attribute) and tg.attr == "current_julian_date" and isinstance(tg.value, ast.Name) and tg.value.id == "self":
                        outs.append(n)
        return outs

    def cjd_post(self):
        asg = self.cjd_assign()
        require(len(asg) == 1, f"expected one assignment to self.current_julian_date in stepForward, found {len(asg)}", self.step.node)
        st = asg[0]
        top = top_level_stmt(self.step.node, st, self.pm)
        require(top is st, "self.current_julian_date is assigned conditionally", st)
        return self.sym(st.value, self.phase_of(st))


def _tick_increment(p, tic_call):
    """AST of the clock-time increment applied by ``ticToc`` as called (clock-relative, ``self`` =
    the clock)."""
    tic = p.func("ScenarioClock.ticToc")
    if tic_call.args or tic_call.keywords:
        raise Undecided("ticToc() is called with an explicit dt in stepForward", tic_call)
    prm = tic.params[1] if len(tic.params) > 1 else None
    # path-wise: the value of self.time at exit on the paths taken when dt is omitted, however the branch is written
    from rsa.terms import NotEvaluable, expand_poly, falsy_param_states, path_states

    try:
        states = falsy_param_states(path_states(tic), prm) if prm else path_states(tic)
    except NotEvaluable as ex:
        raise Undecided(f"cannot read the default time increment of ScenarioClock.ticToc ({ex})", tic.node) from None
    incs = []
    for s in states:
        v = s["env"].get("self.time")
        if isinstance(v, ast.BinOp) and isinstance(v.op, ast.Add) and unparse(v.left) == "self.time":
            incs.append(v.right)
        else:
            raise Undecided("ScenarioClock.ticToc does not advance self.time by an increment on the default path", tic.node)
    if incs and all(unparse(x) == unparse(incs[0]) for x in incs):
        return incs[0]
    raise Undecided("cannot read the default time increment of ScenarioClock.ticToc", tic.node)


def rule_r1(chk, p, t):
    r = chk.rule(
        "C01.R1",
        "window-tiling provenance",
        4,
        "upper bound of step k and lower bound of step k+1 of every per-step event query are the same stored value "
        "or the same expression over the clock state (sufficient for bitwise tiling; with two different float "
        "expressions tiling cannot hold for all (start, step, k))",
        "which step a boundary event lands in",
    )
    step = p.func("Scenario.stepForward")
    T = ast.Name("T", ast.Load())
    probe = StepSym(p, t, step, T, T, ast.Name("CJD0", ast.Load()))
    inc = _tick_increment(p, probe.tic_call)
    # increment is written relative to the clock's ``self``: rebase on the scenario's clock expression
    clock_expr = probe.tic_call.func.value

    class Rebase(ast.NodeTransformer):
        def visit_Name(self, node):
            if node.id == "self":
                return copy.deepcopy(clock_expr)
            return node

    DT = Rebase().visit(copy.deepcopy(inc))
    T1 = ast.BinOp(T, ast.Add(), DT)
    T2 = ast.BinOp(T1, ast.Add(), copy.deepcopy(DT))
    sk = StepSym(p, t, step, T, T1, ast.Name("CJD0", ast.Load()))
    if not sk.cjd_assign():
        # the carried lower bound is read by stepForward but advanced elsewhere (or nowhere)
        writers = []
        for fi in p.all_functions(include_nested=True):
            for n in walk_no_nested(fi.node):
                if isinstance(n, (ast.Assign, ast.AugAssign, ast.AnnAssign)):
                    for tg in n.targets if isinstance(n, ast.Assign) else [n.target]:
                        if isinstance(tg, ast.Attribute) and tg.attr == "current_julian_date" and fi.name != "__init__":
                            writers.append(fi.qualname)
        reads = [n for n in walk_no_nested(step.node) if isinstance(n, ast.Attribute) and n.attr == "current_julian_date" and isinstance(n.ctx, ast.Load)]
        if reads:
            r.violation(
                step.qualname + ":lower-bound",
                "lower-bound-not-advanced-per-step",
                f"stepForward takes the lower bound of its event windows from `self.current_julian_date` but does not advance it itself (writers: {sorted(set(writers)) or 'none'}): whenever those are not run once per physics step - e.g. with an output step larger than the physics step - the windows of consecutive steps overlap and an event is delivered, and can fire, in several steps; the truth then depends on the output cadence",
                step.loc(reads[0]),
            )
            return
    cjd_next = sk.cjd_post()
    sk1 = StepSym(p, t, step, T1, T2, cjd_next)

    # other writers of clock time / current_julian_date would break the induction
    for fi in p.all_functions(include_nested=True):
        for n in walk_no_nested(fi.node):
            tgt = None
            if isinstance(n, (ast.Assign, ast.AugAssign, ast.AnnAssign)):
                tgts = n.targets if isinstance(n, ast.Assign) else [n.target]
                for tg in tgts:
                    if isinstance(tg, ast.Attribute) and tg.attr == "current_julian_date":
                        tgt = tg
            if tgt is not None and fi.qualname not in (step.qualname, p.func("Scenario.__init__").qualname):
                r.undecided(fi.qualname, "another writer of current_julian_date exists; tiling induction not established", fi.loc(n))

    sites = []
    for name in EVENT_FUNCS:
        for c in find_calls(step.node, name):
            sites.append((step, c, None))
    # sites reached through callees of stepForward that receive the bounds as parameters
    engine_base = p.cls("TaskingEngine")
    for c in find_calls(step.node, "assess"):
        for impl in p.overriders(engine_base, "assess"):
            for name in EVENT_FUNCS:
                for c2 in find_calls(impl.node, name):
                    sites.append((impl, c2, c))
    for fi, call, via in sites:
        callee = p.func(f"resonaate.data.events.{call_name(call)}")
        lb = get_arg(call, callee.params, "julian_date_lb")
        ub = get_arg(call, callee.params, "julian_date_ub")
        scope = get_arg(call, callee.params, "event_scope")
        cons = f"{fi.qualname}:{unparse(scope) if scope is not None else '?'}"
        if lb is None or ub is None:
            r.undecided(cons, "cannot bind julian_date_lb / julian_date_ub at the call", fi.loc(call))
            continue

        def ev(expr, sy, fi=fi, via=via):
            if via is None:
                return sy.sym(expr, sy.phase_of(expr))
            # substitute the callee's parameters by the caller's symbolic arguments
            binding = {}
            params = fi.params[1:] if fi.cls is not None else fi.params
            for i, a in enumerate(via.args):
                if i < len(params):
                    binding[params[i]] = sy.sym(a, sy.phase_of(a))
            for k in via.keywords:
                if k.arg:
                    binding[k.arg] = sy.sym(k.value, sy.phase_of(k.value))
            defs = single_defs(fi.node)

            class Sub(ast.NodeTransformer):
                def visit_Name(self, node):
                    if node.id in binding:
                        return copy.deepcopy(binding[node.id])
                    if node.id in defs and isinstance(node.ctx, ast.Load):
                        return self.visit(copy.deepcopy(defs[node.id]))
                    return node

            return Sub().visit(copy.deepcopy(expr))

        def one(cons=cons, lb=lb, ub=ub, ev=ev, fi=fi, call=call):
            ub_k = canon(ev(ub, sk))
            lb_k1 = canon(ev(lb, sk1))
            if ub_k == lb_k1:
                r.ok(cons, f"ub_k == lb_(k+1) == {unparse(ev(ub, sk))}", fi.loc(call))
            else:
                r.violation(
                    cons,
                    "ub_k != lb_k+1",
                    "the upper bound of this step's event window and the lower bound of the next step's window are "
                    f"produced by different expressions: ub_k = {unparse(ev(ub, sk))}; lb_(k+1) = {unparse(ev(lb, sk1))} "
                    "(T = clock time before the tick). Events whose time falls between the two roundings are never "
                    "delivered or delivered twice.",
                    fi.loc(call),
                    dict(ub_k=unparse(ev(ub, sk)), lb_k1=unparse(ev(lb, sk1))),
                )

        r.guard(cons, one)


# ====================================================================== R2
def _filter_predicates(fn):
    """Comparison args of every ``.filter(...)`` applied on the query chain returned by the function."""
    comps = []
    for n in walk_no_nested(fn.node):
        if isinstance(n, ast.Call) and isinstance(n.func, ast.Attribute) and n.func.attr in ("filter", "where"):
            comps.extend(n.args)
    return comps


def query_criteria(fn):
    """Abstract interpretation of a query-building function: for every path to its return, the filter criteria of the
    query that is handed to the database, with the branch conditions of the path.  Understands `Query(X)`,
    `.filter(a, b)` / `.where(...)` chains (sqlalchemy builders are pure: only an assigned or chained result counts),
    `.join(...)` (no criteria), lists of criteria with `.append` / `.extend` / `+=`, and `filter(*criteria)`.
    Returns [(criteria exprs, [(test, polarity)])]; raises Undecided for anything else that touches the query."""
    cfg = cfg_of(fn)
    rets = [n for n in cfg.nodes if n.kind == "return"]
    require(rets, "no return", fn.node)
    if any(n.kind == "loop" or n.label == "while-head" for n in cfg.nodes):
        raise Undecided("query builder contains a loop", fn.node)
    out = []

    def ev(e, env):
        """('query', [criteria]) | ('list', [exprs]) | None"""
        if isinstance(e, ast.Name) and e.id in env:
            return env[e.id]
        if isinstance(e, (ast.List, ast.Tuple)):
            return ("list", list(e.elts))
        if isinstance(e, ast.Call):
            f = e.func
            if isinstance(f, ast.Name) and f.id == "Query":
                return ("query", [])
            if isinstance(f, ast.Attribute):
                base = ev(f.value, env)
                if base is not None and base[0] == "query":
                    if f.attr in ("filter", "where"):
                        crit = list(base[1])
                        for a in e.args:
                            if isinstance(a, ast.Starred):
                                lv = ev(a.value, env)
                                if lv is None or lv[0] != "list":
                                    raise Undecided(f"criteria `{unparse(a)}` cannot be enumerated", a)
                                crit += lv[1]
                            else:
                                crit.append(a)
                        return ("query", crit)
                    if f.attr in ("join", "order_by", "options", "distinct", "outerjoin", "select_from"):
                        return ("query", list(base[1]))
                    raise Undecided(f"query method `{f.attr}` not modelled", e)
                if f.attr == "getData" and e.args:
                    return ev(e.args[0], env)
        return None

    for path in cfg.paths(targets=[n.id for n in rets], max_visits=1, limit=200):
        env = {}
        conds = []
        res = None
        for nid, lab in path:
            node = cfg.nodes[nid]
            st = node.ast
            if node.kind == "cond" and st is not None:
                conds.append((st, lab))
            elif node.kind == "stmt" and isinstance(st, ast.Assign) and len(st.targets) == 1 and isinstance(st.targets[0], ast.Name):
                v = ev(st.value, env)
                if v is not None:
                    env[st.targets[0].id] = v
                else:
                    env.pop(st.targets[0].id, None)
            elif node.kind == "stmt" and isinstance(st, ast.AugAssign) and isinstance(st.target, ast.Name) and st.target.id in env and env[st.target.id][0] == "list":
                v = ev(st.value, env)
                if v is None or v[0] != "list":
                    raise Undecided(f"`{unparse(st)}` extends a criteria list with something that cannot be enumerated", st)
                env[st.target.id] = ("list", env[st.target.id][1] + v[1])
            elif node.kind == "stmt" and isinstance(st, ast.Expr) and isinstance(st.value, ast.Call) and isinstance(st.value.func, ast.Attribute) and isinstance(st.value.func.value, ast.Name) and st.value.func.value.id in env:
                nm = st.value.func.value.id
                kind, items = env[nm]
                if kind == "list" and st.value.func.attr == "append" and st.value.args:
                    env[nm] = ("list", items + [st.value.args[0]])
                elif kind == "list" and st.value.func.attr == "extend" and st.value.args:
                    v = ev(st.value.args[0], env)
                    if v is None or v[0] != "list":
                        raise Undecided(f"`{unparse(st)}` cannot be enumerated", st)
                    env[nm] = ("list", items + v[1])
                # a discarded builder call on a query has no effect (pure) - nothing to record
            elif node.kind == "return" and st is not None and st.value is not None:
                res = ev(st.value, env)
        if res is None or res[0] != "query":
            raise Undecided("the returned value is not a recognisable query result", fn.node)
        out.append((res[1], conds))
    return out


def rule_r2(chk, p, t):
    r = chk.rule(
        "C01.R2",
        "half-open window predicate",
        2,
        "the SQL window predicate equals 'closed [start,end] meets (lb, ub]' on every weak ordering, and an "
        "instantaneous event satisfies exactly one of two adjacent windows",
    )
    fn = p.func("resonaate.data.events.getRelevantEvents")
    params = fn.params

    def symf(e):
        if isinstance(e, ast.Attribute) and e.attr == "start_time_jd":
            return "start"
        if isinstance(e, ast.Attribute) and e.attr == "end_time_jd":
            return "end"
        if isinstance(e, ast.Name) and e.id == "julian_date_lb":
            return "lb"
        if isinstance(e, ast.Name) and e.id == "julian_date_ub":
            return "ub"
        raise Undecided(f"unknown operand in the time window filter: {unparse(e)}", e)

    def time_related(c):
        names = {n.attr for n in ast.walk(c) if isinstance(n, ast.Attribute)} | {n.id for n in ast.walk(c) if isinstance(n, ast.Name)}
        return bool(names & {"start_time_jd", "end_time_jd", "julian_date_lb", "julian_date_ub"})

    def one():
        require("julian_date_lb" in params and "julian_date_ub" in params, "getRelevantEvents lost its lb/ub parameters", fn.node)
        # the time filter of the query that reaches the database, on every path
        per_path = []
        for crit, _conds in query_criteria(fn):
            per_path.append(sorted(unparse(a) for a in crit if time_related(a)))
        require(per_path and all(x for x in per_path), "no time-window comparison reaches the query on some path of getRelevantEvents", fn.node)
        if any(x != per_path[0] for x in per_path):
            raise Undecided("the time-window filter differs between paths", fn.node)
        parts = [O.from_ast(ast.parse(txt, mode="eval").body, symf) for txt in per_path[0]]
        W = O.And(*parts)
        spec = O.And(O.Cmp("<=", "start", "ub"), O.Cmp(">", "end", "lb"))
        assume = O.And(O.Cmp("<", "lb", "ub"), O.Cmp("<=", "start", "end"))
        dis, n = O.disagreements(W, spec, ["start", "end", "lb", "ub"], assume)
        r.paths_enumerated += n
        if dis:
            r.violation(
                fn.qualname,
                "window-predicate!=spec",
                f"the event window filter {W!r} differs from the half-open specification start<=ub and end>lb on "
                f"{len(dis)} of {n} orderings, e.g. {dis[0][0]} (code={dis[0][1]}, spec={dis[0][2]})",
                fn.loc(),
                dict(disagreements=dis[:10]),
            )
        else:
            r.ok(fn.qualname, f"{W!r} == spec on {n} orderings", fn.loc())
        # adjacent windows (a,b] and (b,c]: instantaneous event e delivered exactly once
        bad = []
        cnt = 0
        for env in O.all_orderings(["e", "a", "b", "c"], O.And(O.Cmp("<", "a", "b"), O.Cmp("<", "b", "c"), O.Cmp("<", "a", "e"), O.Cmp("<=", "e", "c"))):
            cnt += 1
            w1 = W.ev(dict(start=env["e"], end=env["e"], lb=env["a"], ub=env["b"]))
            w2 = W.ev(dict(start=env["e"], end=env["e"], lb=env["b"], ub=env["c"]))
            if int(w1) + int(w2) != 1:
                bad.append((O.describe(env), w1, w2))
        r.paths_enumerated += cnt
        if bad:
            r.violation(
                fn.qualname,
                "adjacent-windows-not-exactly-once",
                f"an instantaneous event is delivered {'twice' if bad[0][1] and bad[0][2] else 'never'} for the ordering {bad[0][0]} of (event, a, b, c) with adjacent windows (a,b], (b,c]",
                fn.loc(),
                dict(cases=bad),
            )
        else:
            r.ok(fn.qualname + ":adjacent", f"exactly one of two adjacent windows on {cnt} orderings", fn.loc())

    r.guard(fn.qualname, one)


# ====================================================================== R3
def _is_query_rooted(expr, fi, seen=None):
    """Is the receiver expression a sqlalchemy Query: rooted at ``Query(...)`` directly, or a local
    all of whose definitions are rooted at one?"""
    seen = seen or set()
    cur = expr
    while True:
        if isinstance(cur, ast.Call):
            f = cur.func
            if isinstance(f, ast.Name) and f.id == "Query":
                return True
            if isinstance(f, ast.Attribute):
                if f.attr == "Query":
                    return True
                cur = f.value
                continue
            return False
        if isinstance(cur, ast.Attribute):
            cur = cur.value
            continue
        if isinstance(cur, ast.Name):
            if cur.id in seen:
                return False
            seen.add(cur.id)
            defs = []
            for n in walk_no_nested(fi.node):
                if isinstance(n, ast.Assign) and any(isinstance(tg, ast.Name) and tg.id == cur.id for tg in n.targets):
                    defs.append(n.value)
                elif isinstance(n, ast.AnnAssign) and isinstance(n.target, ast.Name) and n.target.id == cur.id and n.value is not None:
                    defs.append(n.value)
            # parameter annotated as Query
            ann = fi.param_annotation(cur.id)
            if ann is not None and "Query" in unparse(ann):
                return True
            return bool(defs) and any(_is_query_rooted(d, fi, seen) for d in defs)
        return False


def rule_r3(chk, p, t, rid="C01.R3"):
    r = chk.rule(
        rid,
        "effective addressing",
        8,
        "no pure query-builder result is discarded; every handler is selected by the event's scope_instance_id "
        "(indexing, an effective scope-instance filter, or the single-instance SCENARIO_STEP convention); the "
        "estimate copy of a maneuver is delivered only when planned",
    )
    # (i) discarded pure results, whole package
    n_builder = 0
    for fi in p.all_functions(include_nested=True):
        for n in walk_no_nested(fi.node):
            if isinstance(n, ast.Call) and isinstance(n.func, ast.Attribute) and n.func.attr in PURE_QUERY_BUILDERS:
                if not _is_query_rooted(n.func.value, fi):
                    continue
                n_builder += 1
        for st in walk_no_nested(fi.node):
            if isinstance(st, ast.Expr) and isinstance(st.value, ast.Call) and isinstance(st.value.func, ast.Attribute):
                c = st.value
                if c.func.attr in PURE_QUERY_BUILDERS and _is_query_rooted(c.func.value, fi):
                    r.violation(
                        fi.qualname,
                        f"discarded:{c.func.attr}:{norm_stmt(c.args[0]) if c.args else ''}",
                        f"result of Query.{c.func.attr}() is discarded (sqlalchemy query builders are pure and return a new query): `{norm_stmt(st)}` has no effect",
                        fi.loc(st),
                    )
    if n_builder >= 20:
        r.ok("package:query-builder-calls", f"{n_builder} Query builder calls, none discarded", "")
    else:
        r.error("package:query-builder-calls", f"only {n_builder} Query-rooted builder calls recognised (>= 20 confirmed by hand)")

    # (i') the scope-instance filter inside getRelevantEvents is effective
    gre = p.func("resonaate.data.events.getRelevantEvents")

    def scope_filter():
        paths = query_criteria(gre)

        def is_id_eq(a):
            if not (isinstance(a, ast.Compare) and len(a.ops) == 1 and isinstance(a.ops[0], ast.Eq)):
                return False
            sides = [a.left, a.comparators[0]]
            return any(isinstance(s_, ast.Attribute) and s_.attr == "scope_instance_id" for s_ in sides) and any(isinstance(s_, ast.Name) and s_.id == "scope_instance_id" for s_ in sides)

        def is_scope_eq(a):
            txt = unparse(a)
            return isinstance(a, ast.Compare) and len(a.ops) == 1 and isinstance(a.ops[0], ast.Eq) and ".scope " in txt + " " and "event_scope" in txt and "scope_instance" not in txt

        def id_given(conds):
            """None: the path is taken only when no id was given; True: only when one was given (`is not None`);
            'truthy': taken when the id is truthy (0 is excluded); 'any': unconditional."""
            state = "any"
            for tst, pol in conds:
                if isinstance(tst, ast.Compare) and isinstance(tst.left, ast.Name) and tst.left.id == "scope_instance_id" and len(tst.ops) == 1 and isinstance(tst.comparators[0], ast.Constant) and tst.comparators[0].value is None:
                    given = (isinstance(tst.ops[0], ast.IsNot) and pol is True) or (isinstance(tst.ops[0], ast.Is) and pol is False)
                    state = True if given else None
                elif isinstance(tst, ast.Name) and tst.id == "scope_instance_id":
                    state = "truthy" if pol else "falsy"
            return state

        found = True
        for crit, conds in paths:
            st = id_given(conds)
            has = any(is_id_eq(a) for a in crit)
            if st in (True, "any") and not has:
                found = False
            if st == "falsy" and not has:
                # the id filter is skipped for every falsy id, 0 included
                found = False
        scope_ok = all(any(is_scope_eq(a) for a in crit) for crit, _c in paths)
        if not found:
            r.violation(
                gre.qualname,
                "scope-instance-filter-ineffective",
                "no effective `query = query.filter(<event>.scope_instance_id == scope_instance_id)` reaches the returned query when scope_instance_id is given: events addressed to one engine/agent reach every instance of the scope",
                gre.loc(),
            )
        else:
            r.ok(gre.qualname + ":scope_instance_id", "scope-instance filter assigned into the returned query under `is not None`", gre.loc())
        if not scope_ok:
            r.violation(gre.qualname, "scope-filter-missing", "the query no longer filters on the event scope", gre.loc())
        else:
            r.ok(gre.qualname + ":scope", "scope equality filter present", gre.loc())

    r.guard(gre.qualname, scope_filter)

    # handleRelevantEvents forwards the id
    hre = p.func("resonaate.data.events.handleRelevantEvents")

    def forward():
        calls = find_calls(hre.node, "getRelevantEvents")
        require(len(calls) == 1, "handleRelevantEvents does not call getRelevantEvents exactly once", hre.node)
        a = get_arg(calls[0], gre.params, "scope_instance_id")
        if isinstance(a, ast.Name) and a.id == "scope_instance_id":
            r.ok(hre.qualname, "scope_instance_id forwarded", hre.loc(calls[0]))
        else:
            r.violation(hre.qualname, "scope-instance-id-not-forwarded", "handleRelevantEvents does not forward scope_instance_id to getRelevantEvents", hre.loc(calls[0]))
        # and delivers to the scope instance it was given
        hs = find_calls(hre.node, "handleEvent")
        require(len(hs) == 1, "handleRelevantEvents does not call handleEvent exactly once", hre.node)
        if hs[0].args and isinstance(hs[0].args[0], ast.Name) and hs[0].args[0].id == "scope_instance":
            r.ok(hre.qualname + ":deliver", "delivered to scope_instance", hre.loc(hs[0]))
        else:
            r.violation(hre.qualname, "delivers-to-other-instance", "handleRelevantEvents delivers events to something other than its scope_instance", hre.loc(hs[0]))

    r.guard(hre.qualname, forward)

    # (ii) dispatch by address at every delivery site
    step = p.func("Scenario.stepForward")
    assess_impls = p.overriders(p.cls("TaskingEngine"), "assess")
    for fi in [step] + assess_impls:
        pm = parents_map(fi.node)
        for c in find_calls(fi.node, "handleEvent"):
            cons = f"{fi.qualname}:handleEvent({unparse(c.args[0]) if c.args else ''})"

            def one(fi=fi, c=c, cons=cons, pm=pm):
                recv = c.func.value
                require(isinstance(recv, ast.Name), "handleEvent receiver is not a loop variable", c)
                # find the loop binding the receiver
                loop = None
                cur = c
                while cur in pm:
                    cur = pm[cur]
                    if isinstance(cur, ast.For) and isinstance(cur.target, ast.Name) and cur.target.id == recv.id:
                        loop = cur
                        break
                require(loop is not None, "handleEvent is not inside a loop over the queried events", c)
                arg = c.args[0] if c.args else None
                require(arg is not None, "handleEvent called without a scope instance", c)
                ok = (
                    isinstance(arg, ast.Subscript)
                    and isinstance(arg.slice, ast.Attribute)
                    and arg.slice.attr == "scope_instance_id"
                    and isinstance(arg.slice.value, ast.Name)
                    and arg.slice.value.id == recv.id
                )
                if not ok:
                    # is the iterated query filtered by an id?
                    it = loop.iter
                    defs = single_defs(fi.node)
                    if isinstance(it, ast.Name) and it.id in defs:
                        it = defs[it.id]
                    filt = isinstance(it, ast.Call) and call_name(it) == "getRelevantEvents" and get_arg(it, gre.params, "scope_instance_id") is not None
                    if not filt:
                        r.violation(
                            cons,
                            "not-dispatched-by-address",
                            f"events of the query are delivered to `{unparse(arg)}`, which is not selected by the event's scope_instance_id",
                            fi.loc(c),
                        )
                        return
                r.ok(cons, "handler selected by event.scope_instance_id", fi.loc(c))
                # (ii') every event the window query returned is delivered: no condition inside the loop decides whether
                # the truth agent gets it (the estimate copy: `planned` only, checked below)
                coll = unparse(arg.value) if isinstance(arg, ast.Subscript) else ""
                cfg_ = cfg_of(fi)
                nd_ = cfg_.node_of(c)
                if nd_ is not None:
                    inner = [(cfg_.nodes[cid], lab) for cid, lab in cfg_.control_conditions(nd_.id)]
                    inner = [(x, lab) for x, lab in inner if x.kind == "cond" and any(y is x.ast for y in ast.walk(loop))]
                    extra = [(x, lab) for x, lab in inner if not (isinstance(x.ast, ast.Attribute) and x.ast.attr == "planned" and "estimate" in coll)]
                    if extra:
                        r.violation(
                            cons,
                            f"conditional-delivery:{unparse(extra[0][0].ast)[:50]}",
                            f"an event returned by the step's window query is delivered only when `{unparse(extra[0][0].ast)}` is {extra[0][1]}: the query already selected "
                            "the events that are due in this step, and an event skipped here is not delivered by any other step (the windows tile the time line), so it never takes effect",
                            fi.loc(extra[0][0].ast),
                        )
                    else:
                        r.ok(cons + ":unconditional", "delivered for every event of the query", fi.loc(c))
                # (iii) estimate copy only when planned
                if "estimate" in coll:
                    cfg = cfg_of(fi)
                    node = cfg.node_of(c)
                    conds = cfg.control_conditions(node.id)
                    good = any(
                        lab is True and isinstance(cfg.nodes[cid].ast, ast.Attribute) and cfg.nodes[cid].ast.attr == "planned"
                        for cid, lab in conds
                    )
                    if good:
                        r.ok(cons + ":planned", "estimate delivery guarded by event.planned", fi.loc(c))
                    else:
                        r.violation(cons, "estimate-delivery-not-guarded-by-planned", "the maneuver is delivered to the estimate without the positive `event.planned` guard", fi.loc(c))

            r.guard(cons, one)
        for c in find_calls(fi.node, "handleRelevantEvents"):
            scope = get_arg(c, hre.params, "event_scope")
            cons = f"{fi.qualname}:handleRelevantEvents({unparse(scope) if scope is not None else '?'})"

            def one2(fi=fi, c=c, cons=cons, scope=scope):
                sid = get_arg(c, hre.params, "scope_instance_id")
                inst = get_arg(c, hre.params, "scope_instance")
                sname = scope.attr if isinstance(scope, ast.Attribute) else None
                if sname == "SCENARIO_STEP":
                    r.ok(cons, "single-instance scope by the documented convention", fi.loc(c))
                    return
                if sid is None or (isinstance(sid, ast.Constant) and sid.value is None):
                    r.violation(cons, "no-scope-instance-id", "events of a multi-instance scope are handled without a scope_instance_id: every instance receives every instance's events", fi.loc(c))
                    return
                # the id must be the id of the instance that handles
                ok = isinstance(sid, ast.Attribute) and unparse(sid.value) == unparse(inst)
                if ok:
                    r.ok(cons, f"scope_instance_id={unparse(sid)} of the handling instance", fi.loc(c))
                else:
                    r.violation(cons, "id-of-other-instance", f"scope_instance_id `{unparse(sid)}` is not an attribute of the handling instance `{unparse(inst)}`", fi.loc(c))

            r.guard(cons, one2)


# ====================================================================== R4
def rule_r4(chk, p, t):
    r = chk.rule(
        "C01.R4",
        "scope / handler / registry exhaustiveness",
        24,
        "every EventScope is queried exactly once per step; every Event subclass defines a unique EVENT_TYPE, "
        "INTENDED_SCOPE, handleEvent, fromConfig; config union <-> event classes is a bijection; fromConfig fills "
        "start/end/scope/scope_instance_id from the config through the same conversion",
    )
    scope_cls = p.cls("resonaate.data.events.base.EventScope")
    members = [m for m in p.enum_members(scope_cls)]
    step = p.func("Scenario.stepForward")
    assess_impls = p.overriders(p.cls("TaskingEngine"), "assess")
    queried = {}
    for fi in [step] + assess_impls:
        for name in EVENT_FUNCS:
            callee = p.func(f"resonaate.data.events.{name}")
            for c in find_calls(fi.node, name):
                s = get_arg(c, callee.params, "event_scope")
                if isinstance(s, ast.Attribute):
                    queried.setdefault(s.attr, []).append((fi, c))
    for m in members:
        sites = queried.get(m, [])
        # one site per implementing function (engine subclasses each have their own assess)
        per_fn = {}
        for fi, c in sites:
            per_fn.setdefault(fi.qualname, []).append(c)
        if not sites:
            r.violation(f"EventScope.{m}", "scope-never-queried", f"no per-step query site for EventScope.{m}: events of this scope are never delivered", scope_cls.loc())
        elif any(len(v) > 1 for v in per_fn.values()):
            r.violation(f"EventScope.{m}", "scope-queried-twice", f"EventScope.{m} is queried more than once per step: double delivery", scope_cls.loc())
        else:
            r.ok(f"EventScope.{m}", f"queried once in {sorted(per_fn)}", sites[0][0].loc(sites[0][1]))
    for s in queried:
        if s not in members:
            r.error(f"EventScope.{s}", "query site names a scope that is not an EventScope member")

    event = p.cls("resonaate.data.events.base.Event")
    subs = p.subclasses(event)
    types = {}
    for sc in subs:
        cons = sc.qualname

        def one(sc=sc, cons=cons):
            et = sc.class_attrs.get("EVENT_TYPE")
            if not (isinstance(et, ast.Constant) and isinstance(et.value, str)) or et.value == "event":
                r.violation(cons, "no-event-type", "Event subclass without its own EVENT_TYPE", sc.loc())
                return
            if et.value in types:
                r.violation(cons, "duplicate-event-type", f"EVENT_TYPE {et.value!r} also used by {types[et.value]}", sc.loc())
                return
            types[et.value] = sc.qualname
            sc_scope = sc.class_attrs.get("INTENDED_SCOPE")
            if not (isinstance(sc_scope, ast.Attribute) and sc_scope.attr in members):
                r.violation(cons, "no-intended-scope", "Event subclass without an INTENDED_SCOPE that is an EventScope member", sc.loc())
                return
            for meth in ("handleEvent", "fromConfig"):
                if meth not in sc.methods:
                    r.violation(cons, f"no-{meth}", f"Event subclass does not define {meth}", sc.loc())
                    return
            pid = sc.class_attrs.get("__mapper_args__")
            r.ok(cons, f"EVENT_TYPE={et.value!r} scope={sc_scope.attr}", sc.loc())
            # fromConfig time/address slots
            fc = sc.methods["fromConfig"]
            cfgname = fc.params[1] if len(fc.params) > 1 else "config"
            ctor = [c for c in walk_no_nested(fc.node) if isinstance(c, ast.Call) and isinstance(c.func, ast.Name) and c.func.id == fc.params[0]]
            require(len(ctor) == 1, "fromConfig does not construct cls(...) exactly once", fc.node)
            kws = {k.arg: k.value for k in ctor[0].keywords if k.arg}
            exp = {
                "start_time_jd": ("datetimeToJulianDate", "start_time"),
                "end_time_jd": ("datetimeToJulianDate", "end_time"),
            }
            for col, (conv, fld) in exp.items():
                v = kws.get(col)
                good = (
                    isinstance(v, ast.Call)
                    and call_name(v) == conv
                    and len(v.args) == 1
                    and isinstance(v.args[0], ast.Attribute)
                    and v.args[0].attr == fld
                    and isinstance(v.args[0].value, ast.Name)
                    and v.args[0].value.id == cfgname
                )
                if good:
                    r.ok(f"{cons}.fromConfig:{col}", f"{col}={unparse(v)}", fc.loc(ctor[0]))
                elif v is None:
                    r.violation(f"{cons}.fromConfig", f"{col}-missing", f"{col} is not set by fromConfig", fc.loc(ctor[0]))
                else:
                    r.violation(f"{cons}.fromConfig", f"{col}-provenance", f"{col} is `{unparse(v)}`, expected {conv}({cfgname}.{fld}): the event would be scheduled at another time than configured", fc.loc(ctor[0]))
            for col in ("scope", "scope_instance_id", "event_type"):
                v = kws.get(col)
                good = isinstance(v, ast.Attribute) and v.attr == col and isinstance(v.value, ast.Name) and v.value.id == cfgname
                if good:
                    r.ok(f"{cons}.fromConfig:{col}", f"{col}={unparse(v)}", fc.loc(ctor[0]))
                else:
                    r.violation(f"{cons}.fromConfig", f"{col}-provenance", f"{col} is `{unparse(v) if v is not None else None}`, expected {cfgname}.{col}", fc.loc(ctor[0]))
            _ = pid

        r.guard(cons, one)

    # config union <-> classes
    ecm = p.module("resonaate.scenario.config.event_configs")
    base = p.cls("resonaate.scenario.config.event_configs.EventConfigBase")
    cfg_subs = p.subclasses(base)
    union = ecm.assigns.get("EventConfig")

    def union_check():
        require(union is not None, "EventConfig union not found", ecm.tree)
        names = {n.id for n in ast.walk(union) if isinstance(n, ast.Name)}
        mapped = {}
        for cs in cfg_subs:
            gec = cs.methods.get("getEventClass")
            if gec is None:
                r.violation(cs.qualname, "no-getEventClass", "event config class without getEventClass", cs.loc())
                continue
            rets = [n for n in walk_no_nested(gec.node) if isinstance(n, ast.Return) and n.value is not None]
            require(len(rets) == 1 and isinstance(rets[0].value, ast.Name), "getEventClass is not `return <Class>`", gec.node)
            target = p.resolve_dotted(cs.module, rets[0].value.id)
            lit = cs.class_annots.get("event_type")
            litval = None
            if lit is not None:
                for n in ast.walk(lit):
                    if isinstance(n, ast.Constant) and isinstance(n.value, str):
                        litval = n.value
            tcls = p.classes.get(target)
            if tcls is None or tcls not in subs:
                r.violation(cs.qualname, "maps-to-non-event", f"getEventClass returns {target}, not an Event subclass", cs.loc())
                continue
            et = tcls.class_attrs.get("EVENT_TYPE")
            if cs.name not in names:
                r.violation(cs.qualname, "not-in-union", "event config class is not a member of the EventConfig union: it can never be parsed", cs.loc())
            elif litval != getattr(et, "value", None):
                r.violation(cs.qualname, "event-type-literal-mismatch", f"config literal {litval!r} != {tcls.name}.EVENT_TYPE {getattr(et, 'value', None)!r}", cs.loc())
            elif target in mapped:
                r.violation(cs.qualname, "two-configs-one-event", f"{target} is also mapped by {mapped[target]}", cs.loc())
            else:
                mapped[target] = cs.qualname
                r.ok(cs.qualname, f"-> {tcls.name} ({litval})", cs.loc())
        for sc in subs:
            if sc.qualname not in mapped:
                r.violation(sc.qualname, "event-without-config", "Event subclass has no configuration class mapping to it", sc.loc())

    r.guard("EventConfig", union_check)


# ====================================================================== R5
def _reach_pred(cfg, start, start_label, target, symf, atom_hook):
    """DNF predicate under which ``target`` is reached from ``start`` (taking ``start_label``)."""
    disj = []
    for conj in cfg.path_conditions(target, start=start, start_label=start_label):
        parts = []
        dead = False
        for node, lab in conj:
            if node.kind == "loop":
                continue
            a = atom_hook(node.ast)
            if a is None:
                a = O.from_ast(node.ast, symf)
            if isinstance(a, O.Const):
                if a.v != lab:
                    dead = True
                    break
                continue
            parts.append(a if lab else O.Not(a))
        if not dead:
            disj.append(O.And(*parts))
    return O.Or(*disj)


def rule_r5(chk, p, t):
    r = chk.rule(
        "C01.R5",
        "delivery / retention convention agreement",
        4,
        "for both event queues between delivery and effect: (i) an event the window predicate delivers in step k "
        "survives the retention predicate of step k; (ii) an instantaneous event fired in step k is not retained in "
        "step k+1 - evaluated on every weak ordering of (start, end, lb, ub)",
        "rounding of the three differently computed dates",
    )
    W = O.And(O.Cmp("<=", "start", "ub"), O.Cmp(">", "end", "lb"))  # established by R2
    assume = O.And(O.Cmp("<", "lb", "ub"), O.Cmp("<=", "start", "end"))

    # ---- propagation queue
    prune = p.func("Agent.prunePropagateEvents")

    def prop_queue():
        cfg = cfg_of(prune)
        loops = [n for n in cfg.nodes if n.kind == "loop"]
        require(len(loops) == 1, "prunePropagateEvents: expected one loop over the queue", prune.node)
        loop = loops[0]
        var = loop.ast.target.id
        appends = [
            n
            for n in cfg.nodes
            if n.kind == "stmt" and n.ast is not None and isinstance(n.ast, ast.Expr) and isinstance(n.ast.value, ast.Call) and call_name(n.ast.value) == "append"
        ]
        require(appends, "prunePropagateEvents: no append of retained events", prune.node)

        def symf(e):
            if isinstance(e, ast.Attribute) and isinstance(e.value, ast.Name) and e.value.id == "self" and e.attr in ("_time", "time"):
                return "now"
            if isinstance(e, ast.Attribute) and isinstance(e.value, ast.Name) and e.value.id == var and e.attr == "time":
                return "time"
            if isinstance(e, ast.Attribute) and isinstance(e.value, ast.Name) and e.value.id == var and e.attr == "end_time":
                return "end"
            if isinstance(e, ast.Attribute) and isinstance(e.value, ast.Name) and e.value.id == var and e.attr == "start_time":
                return "start"
            raise Undecided(f"unknown operand in prunePropagateEvents: {unparse(e)}", e)

        def hook(finite):
            def h(a):
                if isinstance(a, ast.Call) and call_name(a) == "isinstance":
                    return O.Const(finite)
                if isinstance(a, ast.Compare) and isinstance(a.ops[0], (ast.In, ast.NotIn)):
                    return O.Const(isinstance(a.ops[0], ast.NotIn))  # not a duplicate
                return None

            return h

        def keep(finite):
            parts = []
            for ap in appends:
                parts.append(_reach_pred(cfg, loop.id, True, ap.id, symf, hook(finite)))
            return O.Or(*parts)

        keep_imp = keep(False)
        keep_fin = keep(True)
        r.paths_enumerated += len(cfg.path_conditions(appends[0].id, start=loop.id, start_label=True))
        # impulses: start == end == time; prune runs with now = lb (agent time before propagation)
        syms = ["e", "lb", "ub"]
        bad_i, bad_ii = [], []
        n = 0
        for env in O.all_orderings(syms, O.And(O.Cmp("<", "lb", "ub"))):
            n += 1
            delivered = W.ev(dict(start=env["e"], end=env["e"], lb=env["lb"], ub=env["ub"]))
            if not delivered:
                continue
            if not keep_imp.ev(dict(now=env["lb"], time=env["e"])):
                bad_i.append(O.describe(env))
            # fires in step k (time in (lb, ub]); must be gone at step k+1 where now = ub
            if keep_imp.ev(dict(now=env["ub"], time=env["e"])):
                bad_ii.append(O.describe(env))
        r.paths_enumerated += n
        cons = prune.qualname + ":impulse"
        if bad_i:
            r.violation(cons, "delivered-not-retained:" + ";".join(bad_i), f"an impulse delivered on time is pruned before it can fire on orderings {bad_i}", prune.loc())
        else:
            r.ok(cons + ":delivered=>retained", f"keep = {keep_imp!r}", prune.loc())
        if bad_ii:
            r.violation(
                cons,
                "fired-still-retained:" + ";".join(bad_ii),
                f"an impulse that fires in step k is still in the queue in step k+1 on orderings {bad_ii} of (event time e, lb, ub): "
                "retention keeps `time == now`, so an impulse exactly on a step boundary fires at the end of step k and again at the start of step k+1",
                prune.loc(),
                dict(keep=repr(keep_imp), orderings=bad_ii),
            )
        else:
            r.ok(cons + ":one-shot", "a fired impulse is never retained", prune.loc())
        # finite burns: retained while now < end (strict), re-armed by _prepEvents (C15)
        bad_f = []
        for env in O.all_orderings(["start", "end", "lb", "ub"], assume):
            if not W.ev(env):
                continue
            kept = keep_fin.ev(dict(now=env["lb"], end=env["end"], start=env["start"]))
            if not kept:
                bad_f.append(O.describe(env))
        cons = prune.qualname + ":finite"
        if bad_f:
            r.violation(cons, "delivered-not-retained:" + ";".join(bad_f), f"a finite burn delivered for a step it overlaps is pruned before that step on orderings {bad_f}", prune.loc())
        else:
            r.ok(cons + ":delivered=>retained", f"keep = {keep_fin!r}", prune.loc())

    r.guard(prune.qualname, prop_queue)

    # ---- time-bias queue
    pb = p.func("SensingAgent.pruneTimeBiasEvents")

    def bias_queue():
        comps = [n for n in walk_no_nested(pb.node) if isinstance(n, ast.ListComp)]
        require(len(comps) == 1 and len(comps[0].generators) == 1, "pruneTimeBiasEvents is not a single list comprehension", pb.node)
        gen = comps[0].generators[0]
        var = gen.target.id
        require(len(gen.ifs) >= 1, "pruneTimeBiasEvents keeps everything", pb.node)

        def symf(e):
            if isinstance(e, ast.Attribute) and isinstance(e.value, ast.Name) and e.value.id == "self" and e.attr in ("julian_date_epoch",):
                return "now"
            if isinstance(e, ast.Attribute) and isinstance(e.value, ast.Name) and e.value.id == var and e.attr == "end_time_jd":
                return "end"
            if isinstance(e, ast.Attribute) and isinstance(e.value, ast.Name) and e.value.id == var and e.attr == "start_time_jd":
                return "start"
            raise Undecided(f"unknown operand in pruneTimeBiasEvents: {unparse(e)}", e)

        keepb = O.And(*[O.from_ast(i, symf) for i in gen.ifs])
        # the prune runs after propagation in the step: now = ub
        step = p.func("Scenario.stepForward")
        sy = StepSym(p, t, step, ast.Name("T", ast.Load()), ast.Name("T1", ast.Load()), ast.Name("C", ast.Load()))
        pcalls = find_calls(step.node, "pruneTimeBiasEvents")
        require(len(pcalls) == 1, "pruneTimeBiasEvents is not called exactly once in stepForward", step.node)
        require(sy.phase_of(pcalls[0]) == "post", "pruneTimeBiasEvents is called before the clock tick", pcalls[0])
        bad = []
        n = 0
        for env in O.all_orderings(["start", "end", "lb", "ub"], assume):
            n += 1
            if W.ev(env) and not keepb.ev(dict(now=env["ub"], start=env["start"], end=env["end"])):
                bad.append(O.describe(env))
        r.paths_enumerated += n
        cons = pb.qualname
        if bad:
            r.violation(
                cons,
                "delivered-not-retained:" + ";".join(bad),
                f"a time-bias event delivered for a step its interval overlaps is pruned before it is used on orderings {bad} of (start, end, lb, ub): "
                "an interval that overlaps (lb, ub] but ends before the closing epoch ub is never active",
                pb.loc(),
                dict(keep=repr(keepb), orderings=bad),
            )
        else:
            r.ok(cons + ":delivered=>retained", f"keep = {keepb!r}", pb.loc())
        # retained implies still overlapping (no stale bias): keep(now) => start <= now <= end
        stale = []
        for env in O.all_orderings(["start", "end", "now"], O.Cmp("<=", "start", "end")):
            if keepb.ev(env) and not (env["start"] <= env["now"] <= env["end"]):
                stale.append(O.describe(env))
        if stale:
            r.violation(cons, "stale-retained:" + ";".join(stale), f"a time-bias event is kept outside its interval on orderings {stale}", pb.loc())
        else:
            r.ok(cons + ":no-stale", "retained only while start <= now <= end", pb.loc())

    r.guard(pb.qualname, bias_queue)


# ====================================================================== R6
def _first_touch(p, t, ea, fi, stmt, field, recv_path="self", depth=3):
    """How the statement first touches ``self.<field>``: 'read', 'kill' (unconditional rebind
    without reading), or None."""
    # direct reads / writes in the statement
    reads = []
    writes = []
    for n in ast.walk(stmt):
        if isinstance(n, ast.Attribute) and n.attr == field and isinstance(n.value, ast.Name) and n.value.id == "self":
            (writes if isinstance(n.ctx, ast.Store) else reads).append(n)
    if isinstance(stmt, ast.Assign) and writes and not reads:
        if any(isinstance(tg, ast.Attribute) and tg.attr == field for tg in stmt.targets):
            return "kill"
    if reads or writes:
        return "read"
    # calls on self
    for c in [n for n in ast.walk(stmt) if isinstance(n, ast.Call)]:
        if isinstance(c.func, ast.Attribute) and isinstance(c.func.value, ast.Name) and c.func.value.id == "self" and fi.cls is not None:
            m = p.lookup_method(fi.cls, c.func.attr)
            if m is None or depth <= 0:
                continue
            body = [s for s in m.node.body if not (isinstance(s, ast.Expr) and isinstance(s.value, ast.Constant))]
            for s in body:
                tt = _first_touch(p, t, ea, m, s, field, depth=depth - 1)
                if tt == "kill":
                    # only an unconditional top-level rebind kills
                    return "kill"
                if tt == "read":
                    return "read"
    return None


def rule_r6(chk, p, t):
    r = chk.rule(
        "C01.R6",
        "handler-effect liveness",
        4,
        "every field a delivered event's handler writes on its scope instance reaches a use before an "
        "unconditional rebind (a delivery whose effect is overwritten before it is read takes no effect)",
    )
    ea = EffectAnalysis(p, t)
    event = p.cls("resonaate.data.events.base.Event")
    handlers = {}
    for sc in p.subclasses(event):
        h = sc.methods.get("handleEvent")
        scope = sc.class_attrs.get("INTENDED_SCOPE")
        if h is not None and isinstance(scope, ast.Attribute):
            handlers.setdefault(scope.attr, []).append(h)
    hre = p.func("resonaate.data.events.handleRelevantEvents")
    step = p.func("Scenario.stepForward")
    fns = [step] + p.overriders(p.cls("TaskingEngine"), "assess")
    for fi in fns:
        pm = parents_map(fi.node)
        for c in find_calls(fi.node, "handleRelevantEvents"):
            scope = get_arg(c, hre.params, "event_scope")
            inst = get_arg(c, hre.params, "scope_instance")
            sname = scope.attr if isinstance(scope, ast.Attribute) else "?"
            cons = f"{fi.qualname}:{sname}"

            def one(fi=fi, c=c, sname=sname, inst=inst, cons=cons, pm=pm):
                require(isinstance(inst, ast.Name) and inst.id == "self", "scope instance is not `self`", c)
                fields = set()
                for h in handlers.get(sname, []):
                    prm = h.params[1] if len(h.params) > 1 else None
                    for e in ea.effects(h):
                        if e.root == prm and e.first_field:
                            fields.add((e.first_field, h.cls.name))
                if not fields:
                    r.trivial(cons, "handlers of this scope write no field of the scope instance directly", fi.loc(c))
                    return
                stmt = c
                while pm.get(stmt) is not None and not isinstance(stmt, ast.stmt):
                    stmt = pm[stmt]
                parent = pm[stmt]
                block = None
                for fld in ("body", "orelse", "finalbody"):
                    b = getattr(parent, fld, None)
                    if isinstance(b, list) and stmt in b:
                        block = b
                require(block is not None, "cannot locate the block of the delivery statement", c)
                following = block[block.index(stmt) + 1 :]
                for field, hname in sorted(fields):
                    verdict = None
                    for s in following:
                        tt = _first_touch(p, t, ea, fi, s, field)
                        if tt is not None:
                            verdict = (tt, s)
                            break
                    if verdict and verdict[0] == "kill":
                        r.violation(
                            cons,
                            f"effect-killed:{field}",
                            f"{hname}.handleEvent writes `{field}` of the engine, but the next statement touching it, `{norm_stmt(verdict[1])}`, rebinds it without reading it: the event takes no effect",
                            fi.loc(c),
                        )
                    else:
                        r.ok(f"{cons}:{field}", f"written by {hname}.handleEvent, next touch: {'read in `' + norm_stmt(verdict[1])[:60] + '`' if verdict else 'none in this block (stays live)'}", fi.loc(c))

            r.guard(cons, one)
    # queue-writing handlers: the queue must be consumed by the submission and only pruned by a self-reading prune
    gen = p.func("PropagateRegistration.generateSubmission")

    def queue_live():
        kws = None
        for c in calls_of(gen.node):
            if call_name(c) == "PropagateSubmission":
                kws = {k.arg: k.value for k in c.keywords}
        require(kws is not None, "generateSubmission does not build a PropagateSubmission", gen.node)
        v = kws.get("scheduled_events")
        if isinstance(v, ast.Attribute) and v.attr == "propagate_event_queue":
            r.ok(gen.qualname + ":scheduled_events", "the queued events are submitted", gen.loc())
        else:
            r.violation(gen.qualname, "queue-not-submitted", f"scheduled_events is `{unparse(v) if v is not None else None}`: queued maneuvers never reach the integrator", gen.loc())
        # the asynchronous worker passes them on
        ap = p.func("resonaate.parallel.agent_propagation.asyncPropagate")
        ok = False
        for c in calls_of(ap.node):
            if call_name(c) == "propagate":
                for k in c.keywords:
                    if k.arg == "scheduled_events" and isinstance(k.value, ast.Attribute) and k.value.attr == "scheduled_events":
                        ok = True
        if ok:
            r.ok(ap.qualname + ":scheduled_events", "worker forwards scheduled_events to propagate()", ap.loc())
        else:
            r.violation(ap.qualname, "worker-drops-events", "asyncPropagate does not forward submission.scheduled_events to dynamics.propagate", ap.loc())

    r.guard(gen.qualname, queue_live)


def calls_of(node):
    return [n for n in walk_no_nested(node) if isinstance(n, ast.Call)]


# ====================================================================== R7
def rule_r7(chk, p, t):
    r = chk.rule(
        "C01.R7",
        "payload slot agreement",
        12,
        "every numbered/axis column family of an event is written by fromConfig from the config vector index it is "
        "read back at by handleEvent / the eci property; frame labels are read from the column they were written to",
    )
    import re

    event = p.cls("resonaate.data.events.base.Event")
    axis = {"x": 0, "y": 1, "z": 2}
    for sc in p.subclasses(event):
        fc = sc.methods.get("fromConfig")
        if fc is None:
            continue
        ctor = [c for c in walk_no_nested(fc.node) if isinstance(c, ast.Call) and isinstance(c.func, ast.Name) and c.func.id == fc.params[0]]
        if len(ctor) != 1:
            r.undecided(sc.qualname, "fromConfig does not construct cls(...) exactly once", fc.loc())
            continue
        kws = {k.arg: k.value for k in ctor[0].keywords if k.arg}
        fams = {}
        for k, v in kws.items():
            m = re.match(r"^(.*)_(\d)$", k)
            idx = None
            fam = None
            if m:
                fam, idx = m.group(1), int(m.group(2))
            else:
                m2 = re.match(r"^(pos|vel)_([xyz])_", k)
                if m2:
                    fam, idx = "state", axis[m2.group(2)] + (3 if m2.group(1) == "vel" else 0)
            if fam is None:
                continue
            fams.setdefault(fam, {})[idx] = (k, v)
        for fam, slots in fams.items():
            cons = f"{sc.qualname}:{fam}"
            if not any(isinstance(v, ast.Subscript) and isinstance(v.slice, ast.Constant) for _k, v in slots.values()):
                r.trivial(cons, "numbered columns that are not components of one vector", fc.loc())
                continue
            srcs = set()
            bad = False
            for idx, (k, v) in sorted(slots.items()):
                if isinstance(v, ast.Subscript) and isinstance(v.slice, ast.Constant) and isinstance(v.slice.value, int):
                    srcs.add(unparse(v.value))
                    if v.slice.value != idx:
                        bad = True
                        r.violation(cons, f"write-slot:{k}", f"fromConfig writes column {k} from `{unparse(v)}` (index {v.slice.value}, expected {idx})", fc.loc(v))
                else:
                    r.undecided(cons, f"column {k} is not filled from an indexed vector: {unparse(v)}", fc.loc(v))
                    bad = True
            if len(srcs) > 1:
                bad = True
                r.violation(cons, "write-mixed-sources", f"columns of one vector are filled from different vectors {sorted(srcs)}", fc.loc())
            if sorted(slots) != list(range(len(slots))):
                bad = True
                r.violation(cons, "write-slot-gap", f"column family has indices {sorted(slots)}", fc.loc())
            if not bad:
                r.ok(cons + ":write", f"{len(slots)} columns <- {sorted(srcs)}[i]", fc.loc())
            # read-back order: any list literal (handleEvent / properties) containing >=2 family columns
            cols = [slots[i][0] for i in sorted(slots)]
            found = False
            for m in sc.methods.values():
                if m.name == "fromConfig":
                    continue
                for n in walk_no_nested(m.node):
                    if isinstance(n, (ast.List, ast.Tuple)):
                        seq = [e.attr for e in n.elts if isinstance(e, ast.Attribute) and isinstance(e.value, ast.Name) and e.value.id == "self" and e.attr in cols]
                        if len(seq) >= 2:
                            found = True
                            if seq == cols and len(n.elts) == len(cols):
                                r.ok(f"{cons}:read@{m.name}", f"read back as {seq}", m.loc(n))
                            else:
                                r.violation(cons, f"read-order@{m.name}", f"{m.name} reads the columns back as {seq}, written as {cols}: components are permuted or dropped", m.loc(n))
            if not found:
                r.undecided(cons, "no read-back site of this column family found", sc.loc())
        # frame / type label columns
        for label in ("thrust_frame", "maneuver_type"):
            if label in kws:
                v = kws[label]
                cons = f"{sc.qualname}:{label}"
                if isinstance(v, ast.Attribute) and v.attr == label:
                    h = sc.methods.get("handleEvent")
                    reads = [n for n in ast.walk(h.node) if isinstance(n, ast.Attribute) and n.attr == label and isinstance(n.value, ast.Name) and n.value.id == "self"] if h else []
                    if reads:
                        r.ok(cons, "written from config and read back by handleEvent", sc.loc())
                    else:
                        r.violation(cons, "label-not-read", f"handleEvent never reads {label}", sc.loc())
                else:
                    r.violation(cons, "label-provenance", f"{label} is `{unparse(v)}`, expected config.{label}", fc.loc(v))
        if "planned" in kws:
            v = kws["planned"]
            cons = f"{sc.qualname}:planned"
            if isinstance(v, ast.Attribute) and v.attr == "planned":
                r.ok(cons, "planned flag stored from config", fc.loc(v))
            else:
                r.violation(cons, "planned-provenance", f"planned is `{unparse(v)}`, expected config.planned", fc.loc(v))


QUEUES = {
    "propagate_event_queue": ("resonaate.agents.agent_base.Agent", "appendPropagateEvent", "prunePropagateEvents"),
    "sensor_time_bias_event_queue": ("resonaate.agents.sensing_agent.SensingAgent", "appendTimeBiasEvent", "pruneTimeBiasEvents"),
}


def rule_r9(chk, p, t):
    r = chk.rule(
        "C01.R9",
        "event queues are per agent and only their prune removes from them",
        4,
        "each event queue is a fresh list created in the owning class's __init__ (never a class-level list shared by "
        "all agents: an event appended for one sensor would be active for every sensor); entries are added only by the "
        "queue's append method and removed only by its prune method, whose retention predicate R5 decides - any other "
        "rebinding, clearing or removal can drop an event that was delivered but has not fired yet (the Julian-date "
        "window and the integrator's scenario time differ by rounding, so an event delivered in step k may fire in k+1)",
        "-",
    )
    for fld, (cq, app, prn) in QUEUES.items():
        cls = p.cls(cq)
        cons = f"{cls.qualname}.{fld}"
        # (a) per-instance creation
        init = cls.methods.get("__init__")
        fresh = [n for n in walk_no_nested(init.node) if isinstance(n, (ast.Assign, ast.AnnAssign)) and unparse(n.targets[0] if isinstance(n, ast.Assign) else n.target) == f"self.{fld}"] if init is not None else []
        klass = [c for c in [cls] + p.mro(cls)[1:] + p.subclasses(cls) for st in c.node.body if isinstance(st, (ast.Assign, ast.AnnAssign)) and st.value is not None and unparse(st.targets[0] if isinstance(st, ast.Assign) else st.target) == fld]
        if klass:
            r.violation(cons + ":per-instance", f"class-level-queue:{klass[0].name}", f"`{fld}` is given a value in the body of class {klass[0].name}: one list object shared by every agent, so `{app}` on one agent makes the event active for all of them (until each first rebinds it) - events must act only on the agent they name", klass[0].loc())
        elif len(fresh) == 1 and unparse(fresh[0].value) in ("[]", "list()") and not _in_branch(init.node, fresh[0]):
            r.ok(cons + ":per-instance", "a fresh list per agent, created unconditionally in __init__", init.loc(fresh[0]))
        else:
            r.violation(cons + ":per-instance", "queue-not-created-per-instance", f"`self.{fld}` is not created as a fresh empty list, unconditionally, in {cls.name}.__init__", init.loc() if init else cls.loc())
        # (b) who adds / removes
        bad = []
        n_sites = 0
        for fi in p.all_functions(include_nested=True):
            for n in ast.walk(fi.node):
                tgt = None
                kind = None
                if isinstance(n, (ast.Assign, ast.AnnAssign, ast.AugAssign)):
                    for x in n.targets if isinstance(n, ast.Assign) else [n.target]:
                        b = x
                        while isinstance(b, ast.Subscript):
                            b = b.value
                        if isinstance(b, ast.Attribute) and b.attr == fld:
                            tgt, kind = n, "rebind" if b is x else "item-store"
                elif isinstance(n, ast.Delete):
                    for x in n.targets:
                        b = x
                        while isinstance(b, ast.Subscript):
                            b = b.value
                        if isinstance(b, ast.Attribute) and b.attr == fld:
                            tgt, kind = n, "delete"
                elif isinstance(n, ast.Call) and isinstance(n.func, ast.Attribute) and isinstance(n.func.value, ast.Attribute) and n.func.value.attr == fld and n.func.attr in ("append", "extend", "insert", "remove", "pop", "clear", "sort", "reverse"):
                    tgt, kind = n, n.func.attr
                elif isinstance(n, ast.Call) and call_name(n) == "setattr" and len(n.args) >= 2 and isinstance(n.args[1], ast.Constant) and n.args[1].value == fld:
                    tgt, kind = n, "setattr"
                if tgt is None:
                    continue
                n_sites += 1
                owner = fi.cls is not None and (fi.cls is cls or cls in p.mro(fi.cls))
                if owner and fi.name == "__init__" and kind == "rebind":
                    continue
                if owner and fi.name == app and kind == "append":
                    continue
                if owner and fi.name == prn and kind in ("rebind", "remove", "pop", "delete"):
                    continue
                bad.append((fi, tgt, kind))
        for fi, tgt, kind in bad:
            r.violation(f"{fi.qualname}:{fld}:{kind}", f"queue-writer:{fi.name}:{kind}", f"`{unparse(tgt)[:80]}` in {fi.qualname} changes `{fld}` ({kind}); only {cls.name}.{app} may add to it and only {cls.name}.{prn} may remove from it: an event can be lost before it fires or act twice", fi.loc(tgt))
        if n_sites < 3:
            r.error(cons + ":writers", f"only {n_sites} writer sites of {fld} found (3 confirmed by hand: __init__, {app}, {prn})")
        elif not bad:
            r.ok(cons + ":writers", f"{n_sites} writer sites: __init__, {app}, {prn} only", cls.loc())


def _in_branch(fn_node, stmt):
    from rsa.util import parents_map

    pm = parents_map(fn_node)
    cur = stmt
    while cur in pm:
        cur = pm[cur]
        if isinstance(cur, (ast.If, ast.For, ast.While, ast.Try, ast.With)):
            return True
    return False


def rule_r10(chk, p, t):
    r = chk.rule(
        "C01.R10",
        "every configured event that can meet the simulated span is loaded",
        1,
        "ScenarioBuilder._loadEventsIntoDatabase builds and inserts one Event per configured event: the construction "
        "`Event.concreteFromConfig(event_config)` is reached on every iteration of the loop over the configured events and "
        "all built events go into one insertData. A filter in that loop may only drop events whose closed interval "
        "[start, end] cannot meet the simulated span (start of the scenario, stop]: its keep-condition, read as a "
        "comparison-only predicate, must hold on every weak ordering of (event start, event end, scenario start, scenario "
        "stop) on which `start <= stop and end > scenario start` holds - in particular an event exactly at the stop time is "
        "delivered in the last step",
        "time-zone normalisation of the configured datetimes",
    )
    sb = p.cls("resonaate.scenario.scenario_builder.ScenarioBuilder")
    fn = sb.methods.get("_loadEventsIntoDatabase")
    require(fn is not None, "ScenarioBuilder._loadEventsIntoDatabase not found", sb.node)
    pm = parents_map(fn.node)

    def one():
        sites = [c for c in walk_no_nested(fn.node) if isinstance(c, ast.Call) and call_name(c) == "concreteFromConfig"]
        require(len(sites) == 1, "one Event.concreteFromConfig call expected", fn.node)
        site = sites[0]
        loops = []
        x = site
        while x in pm:
            x = pm[x]
            if isinstance(x, ast.For):
                loops.append(x)
        require(loops, "events are not built in a loop", site)
        lp = loops[-1]
        it = unparse(lp.iter)
        if "self._config.events" not in it and "self.config.events" not in it:
            raise Undecided(f"the event loop iterates `{it}`", lp)
        if any(isinstance(c, ast.Call) and call_name(c) in ("filter", "takewhile", "dropwhile") for c in ast.walk(lp.iter)) or any(isinstance(g, ast.comprehension) and g.ifs for g in ast.walk(lp.iter)) or any(isinstance(sl, ast.Subscript) for sl in ast.walk(lp.iter) if isinstance(sl, ast.Subscript) and isinstance(sl.slice, ast.Slice)):
            r.violation(fn.qualname + ":iter", f"event-iter-filtered:{it[:60]}", f"the loop over the configured events iterates `{it[:80]}`: a filtered / sliced view - some configured events are never loaded", fn.loc(lp))
            return
        ev = lp.target.id if isinstance(lp.target, ast.Name) else None
        require(ev is not None, "loop target is not a plain name", lp)
        # statements of the outer loop body that can skip the construction: continue / break outside nested loops, or an
        # enclosing If of the construction
        filters = []  # (keep-condition ast, positive?)
        st_site = site
        while pm.get(st_site) is not lp:
            par = pm[st_site]
            if isinstance(par, ast.If):
                in_body = any(st_site is b for b in par.body)
                filters.append((par.test, in_body, par))
            st_site = par
        for n in ast.walk(lp):
            if isinstance(n, (ast.Continue, ast.Break)):
                # innermost enclosing loop must be lp for it to skip an event
                y = n
                inner = None
                while y in pm:
                    y = pm[y]
                    if isinstance(y, (ast.For, ast.While)):
                        inner = y
                        break
                if inner is not lp:
                    continue
                if n.lineno > st_site.lineno:
                    continue
                g = pm[n]
                if not isinstance(g, ast.If):
                    raise Undecided("an unconditional continue / break precedes the event construction", n)
                in_body = any(n is b for b in g.body)
                # skipping when test (in body) => keep-condition is `not test`
                filters.append((g.test, not in_body, g))
        if not filters:
            r.ok(fn.qualname + ":unfiltered", f"every `{it}` element reaches Event.concreteFromConfig", fn.loc(site))
        for test, positive, node in filters:
            cons = fn.qualname + ":filter"
            keep = test
            # inline a single-return helper of the builder: self._helper(ev)
            k2 = keep
            neg = not positive
            while isinstance(k2, ast.UnaryOp) and isinstance(k2.op, ast.Not):
                neg, k2 = not neg, k2.operand
            subst = {ev: ev}
            if isinstance(k2, ast.Call) and isinstance(k2.func, ast.Attribute) and isinstance(k2.func.value, ast.Name) and k2.func.value.id == "self":
                h = p.lookup_method(sb, k2.func.attr)
                if h is not None:
                    rets = [x for x in walk_no_nested(h.node) if isinstance(x, ast.Return) and x.value is not None]
                    if len(rets) == 1 and len(k2.args) == 1 and len(h.params) == 2:
                        from rsa.terms import inline_locals

                        body = inline_locals(h, rets[0].value)
                        prm = h.params[1]

                        class S(ast.NodeTransformer):
                            def visit_Name(self, nn):
                                return ast.copy_location(ast.Name(id=ev, ctx=ast.Load()), nn) if nn.id == prm else nn

                        k2 = S().visit(copy.deepcopy(body))

            def symf(e):
                txt = unparse(e)
                # strip tz / wrapper calls: x.replace(tzinfo=None), datetimeToJulianDate(x), float(x)
                while True:
                    if isinstance(e, ast.Call) and isinstance(e.func, ast.Attribute) and e.func.attr in ("replace", "astimezone") and not e.args:
                        e = e.func.value
                    elif isinstance(e, ast.Call) and call_name(e) in ("datetimeToJulianDate", "float", "JulianDate") and len(e.args) == 1:
                        e = e.args[0]
                    else:
                        break
                txt = unparse(e)
                if txt == f"{ev}.start_time":
                    return "s"
                if txt == f"{ev}.end_time":
                    return "e"
                if txt.endswith("time.start_timestamp") or txt.endswith("clock.datetime_start") or txt.endswith("clock.julian_date_start"):
                    return "t0"
                if txt.endswith("time.stop_timestamp") or txt.endswith("clock.datetime_stop") or txt.endswith("clock.julian_date_stop"):
                    return "t1"
                raise Undecided(f"event filter compares `{txt[:60]}`: not the event's start / end or the scenario's start / stop", e)

            pred = O.from_ast(k2, symf)
            if neg:
                pred = O.Not(pred)
            sy = lambda nme: nme  # noqa: E731
            spec = O.And(O.Cmp("<=", "s", "t1"), O.Cmp(">", "e", "t0"))
            assume = O.And(O.Cmp("<=", "s", "e"), O.Cmp("<", "t0", "t1"))
            lost = []
            n_ord = 0
            for env in O.all_orderings(["s", "e", "t0", "t1"], assume):
                n_ord += 1
                if spec.ev(env) and not pred.ev(env):
                    lost.append(O.describe(env))
            _ = sy
            if lost:
                r.violation(cons, "event-filter-drops:" + "|".join(sorted(lost)), f"the load-time filter `{unparse(test)[:80]}` drops events that the simulated span (t0, t1] still meets, on the orderings {sorted(lost)[:4]} (s, e = event start / end; t0, t1 = scenario start / stop): e.g. an event exactly at the stop time belongs to the last step but is never inserted, so it is never delivered", fn.loc(node))
            else:
                r.ok(cons, f"filter keeps every event that meets (t0, t1] ({n_ord} orderings)", fn.loc(node))
        # all built events are inserted by one insertData
        ins = [c for c in walk_no_nested(fn.node) if isinstance(c, ast.Call) and call_name(c) == "insertData" and any(isinstance(a, ast.Starred) for a in c.args)]
        app = pm.get(site)
        lst = unparse(app.func.value) if isinstance(app, ast.Call) and isinstance(app.func, ast.Attribute) and app.func.attr == "append" else None
        if lst and len(ins) == 1 and unparse(ins[0].args[0].value) == lst:
            r.ok(fn.qualname + ":insert", f"insertData(*{lst}) once", fn.loc(ins[0]))
        else:
            r.violation(fn.qualname + ":insert", "events-not-inserted", "the built events are not all passed to one insertData call", fn.loc(site))

    r.guard(fn.qualname, one)


def rule_r11(chk, p, t):
    # an impulse fires at its configured time: the stored Julian date reaches the integration event un-quantised
    # (shared instance of C15.R7)
    from rules import C15

    C15.rule_r7(chk, p, t, rid="C01.R11", events=(("scheduled_impulse.ScheduledImpulseEvent", "impulse", ("start",)),))


def rule_r12(chk, p, t):
    r = chk.rule(
        "C01.R12",
        "every queued event reaches the integrator",
        1,
        "an event delivered to an agent's queue takes effect only if Celestial._prepEvents hands it to solve_ivp's event "
        "list: all of `scheduled_events` (and all station keepers) are added - by extend / a starred list / a loop that "
        "appends its element on EVERY iteration path.  A conditional append (a `continue`, a membership test that relies "
        "on value equality of event objects) drops one of two distinct events scheduled for the same instant: it is "
        "delivered, queued, never applied, and pruned as past (shared with C15.R2)",
        "what the integrator does with the event functions",
    )
    from rules.C15 import prep_events_forwarding

    cel = p.cls("resonaate.dynamics.celestial.Celestial")
    pe = cel.methods.get("_prepEvents")

    def one():
        ok, why = prep_events_forwarding(pe)
        if ok:
            r.ok(pe.qualname, why, pe.loc())
        else:
            r.violation(pe.qualname, "events-not-forwarded", why, pe.loc())

    r.guard(pe.qualname, one)


def rule_r13(chk, p, t):
    # an event's configured time becomes its stored Julian date through the same datetime -> Julian date conversion that
    # builds the scenario clock and the step windows: it must be a function of the calendar fields only, or events and
    # windows end up on different time bases (shared instance of C05.R10)
    from rules import C05

    C05.rule_r10(chk, p, t, rid="C01.R13")


# ====================================================================== R14
BIAS_FIELD = "sensor_time_bias_event_queue"
_BIAS_TIME_ATTRS = {"start_time_jd": "start", "end_time_jd": "end"}
_NOW_ATTRS = ("julian_date_epoch",)


def _bias_keep_pred(p):
    """retention predicate of pruneTimeBiasEvents over (start, end, now)"""
    pb = p.func("SensingAgent.pruneTimeBiasEvents")
    comps = [n for n in walk_no_nested(pb.node) if isinstance(n, ast.ListComp)]
    require(len(comps) == 1 and len(comps[0].generators) == 1 and comps[0].generators[0].ifs, "pruneTimeBiasEvents is not a single filtering list comprehension", pb.node)
    gen = comps[0].generators[0]
    var = gen.target.id

    def symf(e):
        if isinstance(e, ast.Attribute) and isinstance(e.value, ast.Name):
            if e.value.id == "self" and e.attr in _NOW_ATTRS:
                return "now"
            if e.value.id == var and e.attr in _BIAS_TIME_ATTRS:
                return _BIAS_TIME_ATTRS[e.attr]
        raise Undecided(f"unknown operand in pruneTimeBiasEvents: {unparse(e)}", e)

    return O.And(*[O.from_ast(i, symf) for i in gen.ifs])


def rule_r14(chk, p, t):
    r = chk.rule(
        "C01.R14",
        "a retained time-bias event is the one that is applied",
        2,
        "a time-bias event is active in exactly the steps its interval overlaps: delivery (R2) and retention (R5) decide "
        "membership of the sensor's queue, so every consumer of the queue outside the owning agent applies the bias "
        "whenever the queue is non-empty.  Any further condition on the way to the applied bias is either an error guard "
        "(a test whose branch only raises), a test of the queue / of a value read from it for emptiness, or a time "
        "predicate over (start, end, now) - which must then hold for every retained event, on every weak ordering of the "
        "three dates (a half-open `start <= now < end` drops the step whose closing epoch is the event's end).  Anything "
        "else is undecided",
        "the biased propagation itself",
    )
    owner = p.cls("resonaate.agents.sensing_agent.SensingAgent")
    own_names = set(QUEUES[BIAS_FIELD][1:]) | {"__init__"}
    keepb = _bias_keep_pred(p)

    def mentions(node):
        return any(isinstance(n, ast.Attribute) and n.attr == BIAS_FIELD for n in ast.walk(node))

    readers = [fi for fi in p.all_functions(include_nested=True) if mentions(fi.node) and not (fi.cls is not None and (fi.cls is owner or owner in p.mro(fi.cls)) and fi.name in own_names)]
    if not readers:
        r.error("consumers", f"no consumer of {BIAS_FIELD} found outside its owner (2 confirmed by hand in Sensor)")
        return
    # accessors: functions whose every returned value is read directly off the queue (the queue, an element, an
    # attribute of an element, None); only their results carry queue contents to a caller
    def direct(e, names, accessors):
        if isinstance(e, ast.Constant) and e.value is None:
            return True
        if isinstance(e, ast.IfExp):
            return direct(e.body, names, accessors) and direct(e.orelse, names, accessors)
        if isinstance(e, ast.Call) and isinstance(e.func, ast.Attribute) and isinstance(e.func.value, ast.Name) and e.func.value.id in ("self", "cls") and e.func.attr in accessors:
            return True
        b = e
        while isinstance(b, (ast.Attribute, ast.Subscript)):
            if isinstance(b, ast.Attribute) and b.attr == BIAS_FIELD:
                return True
            b = b.value
        return isinstance(b, ast.Name) and b.id in names

    def derived_names(fn, accessors):
        names = set()
        changed = True
        while changed:
            changed = False
            for n in ast.walk(fn):
                src_, tgt = None, None
                if isinstance(n, ast.Assign) and len(n.targets) == 1:
                    src_, tgt = n.value, n.targets[0]
                elif isinstance(n, ast.NamedExpr):
                    src_, tgt = n.value, n.target
                elif isinstance(n, (ast.For, ast.comprehension)):
                    src_, tgt = n.iter, n.target
                if src_ is not None and direct(src_, names, accessors) and not (isinstance(src_, ast.Constant)):
                    for x in ast.walk(tgt):
                        if isinstance(x, ast.Name) and x.id not in names:
                            names.add(x.id)
                            changed = True
        return names

    reader_names = {fi.name for fi in readers}
    accessors = set()
    changed = True
    while changed:
        changed = False
        for fi in p.all_functions(include_nested=False):
            if fi.name in accessors or fi.cls is None or not (mentions(fi.node) or any(isinstance(n, ast.Call) and isinstance(n.func, ast.Attribute) and n.func.attr in accessors for n in ast.walk(fi.node))):
                continue
            if fi.cls is owner or owner in p.mro(fi.cls):
                continue
            rets = [n for n in walk_no_nested(fi.node) if isinstance(n, ast.Return)]
            names = derived_names(fi.node, accessors)
            if rets and all(n.value is None or direct(n.value, names, accessors) for n in rets) and any(n.value is not None and not isinstance(n.value, ast.Constant) for n in rets):
                accessors.add(fi.name)
                changed = True
    consumers = list(readers)
    for fi in p.all_functions(include_nested=True):
        if fi in consumers:
            continue
        if any(isinstance(n, ast.Call) and isinstance(n.func, ast.Attribute) and n.func.attr in accessors and isinstance(n.func.value, ast.Name) and n.func.value.id in ("self", "cls") for n in ast.walk(fi.node)):
            consumers.append(fi)

    def check(fi):
        fn = fi.node
        par = parents_map(fn)
        defs = single_defs(fn)

        def is_reader_call(n):
            return isinstance(n, ast.Call) and isinstance(n.func, ast.Attribute) and n.func.attr in accessors and isinstance(n.func.value, ast.Name) and n.func.value.id in ("self", "cls")

        derived = derived_names(fn, accessors)

        def queueish(node):
            return any((isinstance(n, ast.Attribute) and n.attr == BIAS_FIELD) or is_reader_call(n) or (isinstance(n, ast.Name) and n.id in derived) for n in ast.walk(node))

        def is_site(n):
            if isinstance(n, ast.Call) and isinstance(n.func, ast.Attribute) and n.func.attr in reader_names and isinstance(n.func.value, ast.Name) and n.func.value.id in ("self", "cls"):
                return True  # a helper that reads the queue itself
            return (isinstance(n, ast.Attribute) and n.attr == BIAS_FIELD) or is_reader_call(n) or (isinstance(n, ast.Name) and isinstance(n.ctx, ast.Load) and n.id in derived)

        def strip(test):
            # emptiness sub-terms hold whenever an event is queued
            if isinstance(test, ast.BoolOp):
                return ast.BoolOp(op=test.op, values=[strip(v) for v in test.values])
            if isinstance(test, ast.UnaryOp) and isinstance(test.op, ast.Not):
                return ast.UnaryOp(op=test.op, operand=strip(test.operand))
            if not time_related(test) and emptiness(test):
                return ast.Constant(True)
            return test

        def only_raises(body):
            return all(isinstance(s, ast.Raise) for s in body)

        def terminates(body):
            return bool(body) and isinstance(body[-1], (ast.Return, ast.Raise, ast.Continue, ast.Break))

        def symf(e, depth=0):
            if isinstance(e, ast.Attribute) and e.attr in _BIAS_TIME_ATTRS and queueish(e.value):
                return _BIAS_TIME_ATTRS[e.attr]
            if isinstance(e, ast.Attribute) and e.attr in _NOW_ATTRS:
                return "now"
            if isinstance(e, ast.Name) and e.id in defs and defs[e.id] is not None and depth < 4:
                return symf(defs[e.id], depth + 1)
            if isinstance(e, ast.Call) and call_name(e) in ("float", "JulianDate") and len(e.args) == 1:
                return symf(e.args[0], depth + 1)
            raise Undecided(f"unknown operand `{unparse(e)}` in a condition on the way to the applied time bias", e)

        def time_related(test):
            return any(isinstance(n, ast.Attribute) and (n.attr in _BIAS_TIME_ATTRS or n.attr in ("start_time", "end_time") or n.attr in _NOW_ATTRS) for n in ast.walk(test)) or any(
                isinstance(n, ast.Name) and n.id in defs and defs[n.id] is not None and any(isinstance(m, ast.Attribute) and (m.attr in _BIAS_TIME_ATTRS or m.attr in _NOW_ATTRS) for m in ast.walk(defs[n.id])) for n in ast.walk(test)
            )

        def emptiness(test):
            # every leaf is the queue, a value read from it, or a constant
            for n in ast.walk(test):
                if isinstance(n, ast.Name) and n.id not in derived and n.id not in ("self", "len", "bool", "any", "None"):
                    if not any(n is m for a in ast.walk(test) if isinstance(a, ast.Attribute) and mentions(a) for m in ast.walk(a)):
                        return False
                if isinstance(n, ast.Attribute) and not mentions(n) and not any(n is m for a in ast.walk(test) if isinstance(a, ast.Attribute) and mentions(a) for m in ast.walk(a)):
                    if not (is_reader_call(par.get(n)) and par.get(n).func is n):
                        return False
            return queueish(test)

        conds = []  # (test, polarity) on the way to a site
        seen = set()
        for site in ast.walk(fn):
            if not is_site(site):
                continue
            child = site
            node = par.get(site)
            while node is not None and node is not fn:
                if isinstance(node, (ast.If, ast.While, ast.IfExp)):
                    in_test = any(child is x for x in ast.walk(node.test))
                    if not in_test:
                        body = node.body if isinstance(node.body, list) else [node.body]
                        pos = any(child is x for b in body for x in ast.walk(b))
                        if isinstance(node, ast.If) and pos and only_raises(node.body):
                            pass
                        elif (id(node), pos) not in seen:
                            seen.add((id(node), pos))
                            conds.append((node.test, pos, node))
                elif isinstance(node, ast.comprehension):
                    pass
                elif isinstance(node, (ast.ListComp, ast.GeneratorExp, ast.SetComp, ast.DictComp)):
                    for g in node.generators:
                        for i in g.ifs:
                            if not any(child is x for x in ast.walk(i)) and (id(i), True) not in seen:
                                seen.add((id(i), True))
                                conds.append((i, True, i))
                # guard clauses before the site in the same block
                for fld in ("body", "orelse", "finalbody"):
                    blk = getattr(node, fld, None)
                    if isinstance(blk, list) and any(child is s for s in blk):
                        for s in blk:
                            if s is child:
                                break
                            if isinstance(s, ast.If) and terminates(s.body) and not s.orelse and not only_raises(s.body) and (id(s), False) not in seen:
                                seen.add((id(s), False))
                                conds.append((s.test, False, s))
                child = node
                node = par.get(node)
            # guard clauses at function top level
            for s in fn.body:
                if s is child:
                    break
                if isinstance(s, ast.If) and terminates(s.body) and not s.orelse and not only_raises(s.body) and (id(s), False) not in seen:
                    seen.add((id(s), False))
                    conds.append((s.test, False, s))
        n_ok = 0
        for test, pos, node in conds:
            cons = f"{fi.qualname}:{norm_stmt(test)[:60]}"
            if time_related(test):
                pred = O.from_ast(strip(test), symf)
                if not pos:
                    pred = O.Not(pred)
                bad = []
                for env in O.all_orderings(["start", "end", "now"], O.Cmp("<=", "start", "end")):
                    r.paths_enumerated += 1
                    if keepb.ev(env) and not pred.ev(env):
                        bad.append(O.describe(env))
                if bad:
                    r.violation(cons, "retained-not-applied:" + ";".join(bad), f"the time bias is applied only under `{'' if pos else 'not '}{unparse(test)}`, which excludes an event the retention predicate of pruneTimeBiasEvents keeps on orderings {bad} of (start, end, now): the event is delivered and queued for a step its interval overlaps but is not active in it", fi.loc(node))
                else:
                    n_ok += 1
            elif emptiness(test):
                n_ok += 1
            else:
                r.undecided(cons, f"the applied time bias depends on `{unparse(test)}`, which is neither an emptiness test of the queue, an error guard nor a time predicate over (start, end, now)", fi.loc(node))
        return n_ok

    for fi in consumers:
        def one(fi=fi):
            n_ok = check(fi)
            r.ok(fi.qualname, f"bias applied whenever the queue holds an event ({n_ok} emptiness / time conditions, all implied by retention)", fi.loc())

        r.guard(fi.qualname, one)


def run(chk, p, t):
    chk.explanation = (
        "Static decision of structural necessary conditions of C01 on the current source: (R1) window tiling "
        "provenance by symbolic normal forms over the pre-tick clock time; (R2) the SQL window predicate against the "
        "half-open specification on all weak orderings; (R3) effective addressing (discarded query-builder results, "
        "dispatch by scope_instance_id); (R4) scope/handler/registry exhaustiveness; (R5) delivery-vs-retention "
        "agreement of both event queues on all weak orderings; (R6) handler-effect liveness; (R7) payload slot "
        "agreement. NOT decided: which step a boundary event lands in (binary rounding of three Julian dates), "
        "integrator root finding."
    )
    chk.assumptions += [
        "sqlalchemy Query builder methods are pure and return a new query",
        "ScenarioClock.time is written only by ticToc (checked: increments read from its body)",
        "agent time equals the clock time before the tick when prunePropagateEvents runs (PropagateRegistration.generateSubmission)",
        "call resolution by the repo's annotations and class-hierarchy analysis",
    ]
    for fn in (rule_r1, rule_r2, rule_r3, rule_r4, rule_r5, rule_r6, rule_r7, rule_r8, rule_r9, rule_r10, rule_r11, rule_r12, rule_r13, rule_r14):
        rid = "C01.R" + fn.__name__.split("_r")[-1]
        if not chk.wants(rid):
            continue
        try:
            fn(chk, p, t)
        except (Undecided, AnchorError) as e:
            rr = chk.rule(rid + ".x", fn.__name__, 0, "-")
            if isinstance(e, Undecided):
                rr.undecided(fn.__name__, str(e))
            else:
                rr.error(fn.__name__, f"vanished anchor: {e}")


# ====================================================================== R8
def rule_r8(chk, p, t):
    r = chk.rule(
        "C01.R8",
        "effect chain of delivered events",
        10,
        "a queued impulse stops the integrator at its own time (sign-carrying, terminal event value) and adds its "
        "delta-v to the velocity slots once; the impulse event converts its own Julian date with the agent's start "
        "date; removal events remove the kind of agent they name; additions register the agent in every collection",
        "root finding of the integrator",
    )
    IE = "resonaate.dynamics.integration_events"
    imp = p.cls(f"{IE}.scheduled_impulse.ScheduledImpulse")
    call = imp.methods.get("__call__")

    def f1():
        from rsa.terms import inline_locals as inl

        from rsa.terms import NotEvaluable, returned_exprs

        tm = call.params[1]
        want = canon(ast.parse(f"{tm} - self.time", mode="eval").body)
        wantn = canon(ast.parse(f"self.time - {tm}", mode="eval").body)
        try:
            vals = returned_exprs(call)
        except NotEvaluable as ex:
            raise Undecided(f"impulse event function cannot be evaluated path-wise ({ex})", call.node) from None
        nonconst = [e for e, _c in vals if not isinstance(e, ast.Constant)]
        consts = [(e, cs) for e, cs in vals if isinstance(e, ast.Constant)]
        ok = len(nonconst) >= 1 and all(canon(e) in (want, wantn) for e in nonconst)
        # a constant is returned only for the exact zero, under a tolerance test of the same difference
        ok_c = all(e.value in (0, 0.0) and any(pol is True and "fpe_equals" in unparse(tst) for tst, pol in cs) for e, cs in consts)
        if ok and ok_c:
            r.ok(call.qualname, "event value = time - impulse time (zero exactly at the impulse time, sign change across it)", call.loc())
        else:
            r.violation(call.qualname, f"impulse-event-value:{sorted({unparse(e) for e, _c in vals})}", "the impulse event function no longer returns `time - self.time`: the integrator is not stopped at the impulse time", call.loc())
        _ = inl
        for q in ("discrete_state_change_event.DiscreteStateChangeEvent", "continuous_state_change_event.ContinuousStateChangeEvent"):
            c = p.cls(f"{IE}.{q}")
            term, dirn = c.class_attrs.get("terminal"), c.class_attrs.get("direction")
            if isinstance(term, ast.Constant) and term.value is True and isinstance(dirn, ast.Constant) and dirn.value in (0, 0.0):
                r.ok(c.qualname + ":terminal", "terminal = True, direction = 0", c.loc())
            else:
                r.violation(c.qualname + ":terminal", f"terminal:{unparse(term) if term is not None else None}:{unparse(dirn) if dirn is not None else None}", "state-change events must be terminal with direction 0, otherwise the integrator runs through them and the change is never applied", c.loc())
        init = imp.methods.get("__init__")
        asg = {unparse(n.targets[0]): unparse(n.value) for n in walk_no_nested(init.node) if isinstance(n, ast.Assign)}
        if asg.get("self.thrust") == f"concatenate((zeros(3), {init.params[2]}))" and asg.get("self.time") == init.params[1]:
            r.ok(init.qualname, "delta-v placed in the velocity slots; time stored", init.loc())
        else:
            r.violation(init.qualname, f"impulse-init:{asg.get('self.thrust')}:{asg.get('self.time')}", "the impulse does not store its delta-v in the velocity slots (zeros(3), delta_v) / its own time", init.loc())
        for nm, want_ret in (("ScheduledECIImpulse", "self.thrust"), ("ScheduledNTWImpulse", "ntw2eci(state, self.thrust)")):
            c = p.cls(f"{IE}.scheduled_impulse.{nm}")
            m = c.methods.get("getStateChange")
            rr = [n for n in walk_no_nested(m.node) if isinstance(n, ast.Return)]
            if rr and unparse(rr[0].value) == want_ret:
                r.ok(m.qualname, want_ret, m.loc())
            else:
                r.violation(m.qualname, f"state-change:{unparse(rr[0].value) if rr else None}", f"{nm}.getStateChange returns `{unparse(rr[0].value) if rr else None}`, expected `{want_ret}`", m.loc())

    r.guard(call.qualname, f1)
    ae = p.func("resonaate.dynamics.celestial.Celestial._applyEvents")

    def f2():
        from rules.C15 import apply_events_verdict

        bad, _due, _lp = apply_events_verdict(ae)
        bad = [b for b in bad if "impulse" in b or "state change" in b or "applied" in b]
        if bad:
            r.violation(ae.qualname, "apply:" + ";".join(b[:60] for b in bad), "a fired impulse is not added to the state exactly once: " + "; ".join(bad), ae.loc())
        else:
            r.ok(ae.qualname, "state += getStateChange(t_event, state) once per fired event (path-wise)", ae.loc())

    r.guard(ae.qualname, f2)

    def f2b():
        # simultaneous events: solve_ivp keeps only the first terminal event of a stop (scipy's handle_events cuts
        # the active list after the first terminal root), so an event reported by the integrator cannot be the
        # only trigger of an application
        from rules.C15 import apply_events_verdict

        _bad, seen_due, lp = apply_events_verdict(ae)
        cons = ae.qualname + ":simultaneous"
        if not seen_due:
            r.violation(cons, "simultaneous-events-dropped", "an impulse is applied only when the integrator reports its own event time (`t_events[i].size > 0`); solve_ivp reports only the first of several terminal events at one instant, so of two impulses scheduled for the same time one is never applied (nor re-detected after the restart, its event value is already positive)", ae.loc(lp))
        else:
            r.ok(cons, "an event that is due at the stop time is applied even when the integrator did not report it", ae.loc())

    r.guard(ae.qualname + ":simultaneous", f2b)
    ev = p.cls("resonaate.data.events.scheduled_impulse.ScheduledImpulseEvent")
    he = ev.methods.get("handleEvent")

    def f3():
        defs = single_defs(he.node)
        si = he.params[1]
        bad = []
        if unparse(defs.get("start_jd", ast.Constant(0))) != "JulianDate(self.start_time_jd)":
            bad.append("impulse time is not the event's own start_time_jd")
        if unparse(defs.get("start_sim_time", ast.Constant(0))) != f"start_jd.convertToScenarioTime({si}.julian_date_start)":
            bad.append("impulse time is not converted with the agent's start date")
        impd = defs.get("impulse")
        if not (isinstance(impd, ast.Call) and [unparse(a) for a in impd.args] == ["start_sim_time", "burn_vector", f"{si}.simulation_id"] and unparse(impd.func) == "frame.impulse"):
            bad.append(f"impulse built as `{unparse(impd) if impd is not None else None}`")
        if unparse(defs.get("frame", ast.Constant(0))) != "ThrustFrame(self.thrust_frame)":
            bad.append("frame is not the event's own thrust_frame")
        app = find_calls(he.node, "appendPropagateEvent")
        if not (len(app) == 1 and unparse(app[0].func.value) == si and unparse(app[0].args[0]) == "impulse"):
            bad.append("the impulse is not queued on the handling agent")
        if bad:
            r.violation(he.qualname, "impulse-handler:" + ";".join(bad), "ScheduledImpulseEvent.handleEvent: " + "; ".join(bad), he.loc())
        else:
            r.ok(he.qualname, "impulse(own time in the agent's scenario seconds, own vector, own frame) queued on the agent", he.loc())

    r.guard(he.qualname, f3)
    rem = p.cls("resonaate.data.events.agent_removal.AgentRemovalEvent")
    hr = rem.methods.get("handleEvent")

    def f4():
        cfg = cfg_of(hr)
        si = hr.params[1]
        got = {}
        for c in walk_no_nested(hr.node):
            if isinstance(c, ast.Call) and call_name(c) in ("removeTarget", "removeSensor"):
                node = cfg.node_of(c)
                kind = None
                for cid, lab in cfg.control_conditions(node.id):
                    tst = unparse(cfg.nodes[cid].ast)
                    if lab is True and "AgentType.TARGET" in tst and "==" in tst:
                        kind = "TARGET"
                    if lab is True and "AgentType.SENSOR" in tst and "==" in tst:
                        kind = "SENSOR"
                got[call_name(c)] = (kind, [unparse(a) for a in c.args], unparse(c.func.value))
        want = {"removeTarget": ("TARGET", ["self.agent_id", "self.tasking_engine_id"], si), "removeSensor": ("SENSOR", ["self.agent_id", "self.tasking_engine_id"], si)}
        if got == want:
            r.ok(hr.qualname, "TARGET -> removeTarget, SENSOR -> removeSensor, with the event's own ids", hr.loc())
        else:
            r.violation(hr.qualname, f"removal-dispatch:{sorted(got.items())}", f"agent removal dispatch is {got}; expected {want}", hr.loc())

    r.guard(hr.qualname, f4)
    for evname, adder, idcol in (("target_addition.TargetAdditionEvent", "addTarget", "agent_id"), ("sensor_addition.SensorAdditionEvent", "addSensor", "agent_id")):
        c = p.cls(f"resonaate.data.events.{evname}")
        h = c.methods.get("handleEvent")

        def f5(c=c, h=h, adder=adder):
            calls = find_calls(h.node, adder)
            require(len(calls) == 1, f"handleEvent does not call {adder} once", h.node)
            a = calls[0]
            defs = single_defs(h.node)
            spec = defs.get(unparse(a.args[0])) if a.args and isinstance(a.args[0], ast.Name) else None
            ok = unparse(a.func.value) == h.params[1] and len(a.args) == 2 and unparse(a.args[1]) == "self.tasking_engine_id" and isinstance(spec, ast.Dict)
            if ok:
                d = {k.value: v for k, v in zip(spec.keys, spec.values) if isinstance(k, ast.Constant)}
                st = d.get("state")
                sd = {k.value: unparse(v) for k, v in zip(st.keys, st.values)} if isinstance(st, ast.Dict) else {}
                ok = unparse(d.get("id", ast.Constant(0))) == "self.agent_id" and sd.get("position") == "self.eci[:3]" and sd.get("velocity") == "self.eci[3:]" and sd.get("type") == "'eci'"
            if ok:
                r.ok(h.qualname, f"{adder}(spec of the event's own id and state, own engine id)", h.loc())
            else:
                r.violation(h.qualname, f"addition-handler:{unparse(a)[:60]}", f"{c.name}.handleEvent does not call {adder} with a spec built from its own id / state columns and its own tasking engine id", h.loc())

        r.guard(h.qualname, f5)
    sc = p.cls("resonaate.scenario.scenario.Scenario")
    ea = EffectAnalysis(p, t)

    def f6():
        at = sc.methods.get("_addTargetConf")
        effs = {(e.kind, e.path) for e in ea.effects(at)}
        need = {("store", "self.target_agents"), ("store", "self._estimate_agents")}
        eng = [c for c in find_calls(at.node, "addTarget") if "_tasking_engines[" in unparse(c.func.value)]
        if need <= effs and len(eng) == 1 and unparse(eng[0].func.value) == f"self._tasking_engines[{at.params[2]}]":
            r.ok(at.qualname, "target registered in target_agents, estimate_agents and the named tasking engine", at.loc())
        else:
            r.violation(at.qualname, f"add-target:{sorted(effs & need)}:{len(eng)}", "adding a target does not register it in target_agents, estimate_agents and the tasking engine it names", at.loc())
        rt = sc.methods.get("removeTarget")
        dels = sorted(unparse(n.targets[0]) for n in walk_no_nested(rt.node) if isinstance(n, ast.Delete))
        eng = [c for c in find_calls(rt.node, "removeTarget")]
        aid = rt.params[1]
        if dels == sorted([f"self._estimate_agents[{aid}]", f"self.target_agents[{aid}]"]) and len(eng) == 1 and unparse(eng[0].args[0]) == aid:
            r.ok(rt.qualname, "target removed from target_agents, estimate_agents and its tasking engine", rt.loc())
        else:
            r.violation(rt.qualname, f"remove-target:{dels}", "removing a target does not delete it from target_agents, estimate_agents and its tasking engine", rt.loc())
        asn = sc.methods.get("_addSensorConf")
        effs = {(e.kind, e.path) for e in ea.effects(asn)}
        eng = [c for c in find_calls(asn.node, "addSensor") if "_tasking_engines[" in unparse(c.func.value)]
        if ("store", "self._sensor_agents") in effs and len(eng) == 1:
            r.ok(asn.qualname, "sensor registered in sensor_agents and the named tasking engine", asn.loc())
        else:
            r.violation(asn.qualname, "add-sensor", "adding a sensor does not register it in sensor_agents and the tasking engine it names", asn.loc())
        rs = sc.methods.get("removeSensor")
        dels = sorted(unparse(n.targets[0]) for n in walk_no_nested(rs.node) if isinstance(n, ast.Delete))
        eng = [c for c in find_calls(rs.node, "removeSensor")]
        if dels in ([f"self.sensor_agents[{rs.params[1]}]"], [f"self._sensor_agents[{rs.params[1]}]"]) and len(eng) == 1:
            r.ok(rs.qualname, "sensor removed from sensor_agents and its tasking engine", rs.loc())
        else:
            r.violation(rs.qualname, f"remove-sensor:{dels}", "removing a sensor does not delete it from sensor_agents and its tasking engine", rs.loc())

    r.guard("Scenario.add/remove", f6)
