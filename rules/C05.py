"""C05 - calendar, Julian-date and scenario times agree; requested durations are honoured.

Decides: rounding discipline of JD -> datetime (R1), provenance of the timed-run target date and
field order of the calendar -> JD conversions (R2), reciprocal unit constants (R3), rounding before
truncation of the step count and one stepForward per iteration (R4).  Does NOT decide
monotonicity / exactness over 1901-2099 (float arithmetic of Vallado's Algorithm 14).
"""

from __future__ import annotations

import ast
from fractions import Fraction

from rsa.model import AnchorError, Undecided, call_name, dotted_name, unparse, walk_no_nested
from rsa.terms import const_value, inline_locals, property_body
from rsa.util import find_calls, parents_map, require

ROUND_FUNCS = {"round", "around", "rint", "round_"}
TRUNC_FUNCS = {"int", "floor", "trunc", "fix"}
FIELDS = ["year", "month", "day", "hour", "minute", "second"]


def jd2dt_rounding(p):
    """Evaluate the rounding discipline of julianDateToDatetime.

    Returns (verdict, key, message, node) with verdict in {'ok', 'violation'}; raises Undecided."""
    fn = p.func("resonaate.physics.time.stardate.julianDateToDatetime")
    # the least significant component: 6th element unpacked from <jd>.calendar_date
    sec = None
    for n in walk_no_nested(fn.node):
        if isinstance(n, ast.Assign) and isinstance(n.targets[0], ast.Tuple) and len(n.targets[0].elts) == 6:
            src = n.value
            if (isinstance(src, ast.Attribute) and src.attr == "calendar_date") or (isinstance(src, ast.Call) and call_name(src) == "getCalendarDate"):
                e = n.targets[0].elts[5]
                require(isinstance(e, ast.Name), "seconds component is not bound to a name", n)
                sec = e.id
    require(sec is not None, "julianDateToDatetime does not unpack the six calendar components", fn.node)
    # a local that merely names an unrounded intermediate (`total = h * 3600 + m * 60 + s`, rounded later) is put back at
    # its uses, so that the chain from the seconds component to the constructor is one expression
    import copy
    import types

    node = copy.deepcopy(fn.node)
    for _round in range(4):
        cands = {}
        for n in walk_no_nested(node):
            if isinstance(n, ast.Assign) and len(n.targets) == 1 and isinstance(n.targets[0], ast.Name):
                cands.setdefault(n.targets[0].id, []).append(n)
        pick = None
        for nm_, asgs in cands.items():
            if len(asgs) != 1 or nm_ == sec:
                continue
            v = asgs[0].value
            if any(isinstance(x, ast.Name) and x.id == sec for x in ast.walk(v)) and not any(isinstance(c, ast.Call) and call_name(c) in ROUND_FUNCS | TRUNC_FUNCS - {"int"} for c in ast.walk(v)) and not any(isinstance(c, ast.Call) and call_name(c) == "int" for c in ast.walk(v)):
                pick = (nm_, asgs[0])
                break
        if pick is None:
            break
        nm_, asg = pick

        class S(ast.NodeTransformer):
            def visit_Name(self, n):
                return copy.deepcopy(asg.value) if n.id == nm_ and isinstance(n.ctx, ast.Load) else n

            def visit_Assign(self, n):
                if n is asg:
                    return None
                return self.generic_visit(n)

        node = S().visit(node)
        ast.fix_missing_locations(node)
    fn = types.SimpleNamespace(node=node, qualname=fn.qualname, name=fn.name, loc=fn.loc, file=fn.file, lineno=fn.lineno, module=fn.module, params=fn.params)
    rets = [n for n in walk_no_nested(fn.node) if isinstance(n, ast.Return) and n.value is not None]
    require(rets, "julianDateToDatetime has no return", fn.node)
    pm = parents_map(fn.node)
    # all uses of the seconds component that can reach a returned datetime
    uses = [n for n in walk_no_nested(fn.node) if isinstance(n, ast.Name) and n.id == sec and isinstance(n.ctx, ast.Load)]
    require(uses, "the seconds component is never used", fn.node)
    verdicts = []
    for u in uses:
        # climb: first numeric conversion that encloses the use
        cur = u
        first = None
        in_compare = False
        ctor = None
        chain = []
        while cur in pm and not isinstance(pm[cur], ast.stmt):
            par = pm[cur]
            if isinstance(par, ast.Compare):
                in_compare = True
            if isinstance(par, ast.Call) and cur is not par.func:
                nm = call_name(par)
                chain.append(nm)
                if nm in ROUND_FUNCS and first is None:
                    first = ("round", par)
                elif nm in TRUNC_FUNCS and first is None:
                    first = ("trunc", par)
                elif nm in ("datetime", "timedelta") and ctor is None:
                    ctor = (nm, par, cur)
            if isinstance(par, ast.BinOp) and isinstance(par.op, ast.FloorDiv) and first is None:
                first = ("trunc", par)
            if isinstance(par, ast.BinOp) and isinstance(par.op, ast.Add) and first is None:
                # int(x + 0.5) idiom
                other = par.right if par.left is cur else par.left
                if isinstance(other, ast.Constant) and other.value == 0.5 and par in pm and isinstance(pm[par], ast.Call) and call_name(pm[par]) in TRUNC_FUNCS:
                    first = ("round", pm[par])
            cur = par
        stmt = pm.get(cur)
        verdicts.append(dict(use=u, first=first, in_compare=in_compare, ctor=ctor, stmt=stmt, chain=chain))
    # follow single-assignment locals: a use inside `x = round(...)` counts through x's own uses
    problems = []
    good = 0
    for v in verdicts:
        if v["in_compare"] and v["ctor"] is None and not isinstance(v["stmt"], (ast.Assign, ast.Return)):
            continue  # only tested, never reaches a constructor through this use
        if isinstance(v["stmt"], ast.If) or (isinstance(v["stmt"], ast.Expr)):
            continue
        first = v["first"]
        if first is None:
            problems.append(("no-rounding", v))
        elif first[0] == "trunc":
            problems.append(("truncation", v))
        else:
            # rounded: it must enter through timedelta (carry-safe) - directly or via a local
            bad_ctor = v["ctor"] is not None and v["ctor"][0] == "datetime"
            td = v["ctor"] is not None and v["ctor"][0] == "timedelta"
            if v["ctor"] is None and isinstance(v["stmt"], ast.Assign) and isinstance(v["stmt"].targets[0], ast.Name):
                # follow the local holding the rounded value
                lname = v["stmt"].targets[0].id
                for u2 in walk_no_nested(fn.node):
                    if isinstance(u2, ast.Name) and u2.id == lname and isinstance(u2.ctx, ast.Load):
                        cur = u2
                        while cur in pm and not isinstance(pm[cur], ast.stmt):
                            par = pm[cur]
                            if isinstance(par, ast.Call) and call_name(par) == "datetime":
                                bad_ctor = True
                            if isinstance(par, ast.Call) and call_name(par) == "timedelta":
                                td = True
                                break
                            cur = par
            if bad_ctor:
                # rounded value goes straight into datetime(...): 60 would raise / no carry
                problems.append(("rounded-into-datetime-no-carry", v))
            elif td:
                good += 1
            else:
                problems.append(("no-rounding", v))
    if problems:
        kind, v = problems[0]
        msg = {
            "truncation": f"the seconds component `{sec}` is truncated (`{unparse(v['first'][1]) if v['first'] else ''}`) before it reaches the datetime; a conditional compensation is not rounding: instants whose float seconds fall just below a whole second come back one second early",
            "no-rounding": f"the seconds component `{sec}` reaches the datetime without rounding: sub-second float noise of the Julian date is kept",
            "rounded-into-datetime-no-carry": f"the rounded seconds go straight into datetime(...): a value that rounds to 60 raises instead of carrying into the minute",
        }[kind]
        return "violation", kind, msg, v["use"], fn
    require(good > 0, "no rounded use of the seconds component found", fn.node)
    return "ok", "", f"seconds component `{sec}` is rounded before any truncation and enters through timedelta ({good} use(s))", fn.node, fn


def rule_r1(chk, p, t):
    r = chk.rule(
        "C05.R1",
        "rounding discipline of JD -> datetime",
        1,
        "the least-significant float component of the calendar date is rounded (not truncated) before it reaches the "
        "datetime, and the rounded value carries through timedelta",
        "exactness of Algorithm 14 itself over 1901-2099",
    )

    def one():
        verdict, key, msg, node, fn = jd2dt_rounding(p)
        if verdict == "ok":
            r.ok(fn.qualname, msg, fn.loc())
        else:
            r.violation(fn.qualname, key, msg, fn.loc(node))

    r.guard("julianDateToDatetime", one)


def _field_order(call, objname=None):
    """Check getJulianDate(<o>.year, <o>.month, ...): returns (ok, detail)."""
    if len(call.args) == 1 and not call.keywords and isinstance(call.args[0], ast.Starred):
        # `*d.timetuple()[:6]`: the standard library's (year, month, day, hour, minute, second) of one datetime
        v = call.args[0].value
        if isinstance(v, ast.Subscript) and isinstance(v.slice, ast.Slice) and v.slice.lower is None and v.slice.step is None and isinstance(v.slice.upper, ast.Constant) and v.slice.upper.value == 6 and isinstance(v.value, ast.Call) and isinstance(v.value.func, ast.Attribute) and v.value.func.attr == "timetuple" and not v.value.args:
            return True, unparse(v.value.func.value)
    if len(call.args) != 6 or call.keywords:
        raise Undecided("getJulianDate is not called with six positional calendar fields", call)
    base = None
    for i, a in enumerate(call.args):
        core = a
        if i == 5 and isinstance(a, ast.BinOp) and isinstance(a.op, ast.Add):
            core = a.left  # second + microsecond / 1e6
            ms = a.right
            okms = isinstance(ms, ast.BinOp) and isinstance(ms.op, ast.Div) and isinstance(ms.left, ast.Attribute) and ms.left.attr == "microsecond" and const_value(ms.right) == Fraction(10**6)
            if not okms:
                return False, f"sub-second part `{unparse(ms)}` is not microsecond / 1e6"
        if not (isinstance(core, ast.Attribute) and core.attr == FIELDS[i]):
            return False, f"argument {i + 1} is `{unparse(a)}`, expected .{FIELDS[i]}"
        b = unparse(core.value)
        if base is None:
            base = b
        elif b != base:
            return False, f"calendar fields are taken from different objects ({base} / {b})"
    return True, base


def rule_r2(chk, p, t):
    r = chk.rule(
        "C05.R2",
        "target-date provenance and calendar field order",
        3,
        "the timed-run target date is built from julianDateToDatetime(start) + delta (a conversion that satisfies R1) "
        "and the calendar fields reach getJulianDate in declaration order from one object",
    )
    gj = p.func("JulianDate.getJulianDate")
    params = gj.params[1:]
    if params != FIELDS:
        r.violation(gj.qualname, f"param-order:{params}", f"getJulianDate parameters are {params}, expected {FIELDS}", gj.loc())
    else:
        r.ok(gj.qualname, "parameters in calendar order", gj.loc())
    for q in ("resonaate.physics.time.conversions.getTargetJulianDate", "resonaate.physics.time.stardate.datetimeToJulianDate"):
        fn = p.func(q)

        def one(fn=fn):
            calls = find_calls(fn.node, "getJulianDate")
            require(len(calls) == 1, "expected exactly one getJulianDate call", fn.node)
            ok, detail = _field_order(calls[0])
            if not ok:
                r.violation(fn.qualname, f"field-order:{detail}", f"{fn.name}: {detail}", fn.loc(calls[0]))
                return
            r.ok(fn.qualname + ":fields", f"six fields of `{detail}` in order", fn.loc(calls[0]))
            if fn.name == "getTargetJulianDate":
                # base object = julianDateToDatetime(start) + jump_delta
                base = ast.parse(detail, mode="eval").body  # the object the six fields are read from
                e = inline_locals(fn, base)
                good = (
                    isinstance(e, ast.BinOp)
                    and isinstance(e.op, ast.Add)
                    and any(isinstance(s, ast.Call) and call_name(s) == "julianDateToDatetime" for s in (e.left, e.right))
                    and any(isinstance(s, ast.Name) and s.id == fn.params[1] for s in (e.left, e.right))
                )
                if good:
                    r.ok(fn.qualname + ":base", f"target = {unparse(e)}", fn.loc(calls[0]))
                else:
                    r.violation(fn.qualname, f"target-provenance:{unparse(e)}", f"the stop date is built from `{unparse(e)}`, expected julianDateToDatetime(start) + jump_delta", fn.loc(calls[0]))

        r.guard(fn.qualname, one)


def _const_table(p):
    m = p.module("resonaate.physics.constants")
    tab = {}
    import math

    tab_float = {"pi": Fraction(math.pi)}
    for k, v in m.assigns.items():
        val = const_value(v, {**tab_float, **tab})
        if val is not None:
            tab[k] = val
    return tab


def rule_r3(chk, p, t):
    r = chk.rule(
        "C05.R3",
        "reciprocal unit constants",
        6,
        "seconds <-> days conversions use exactly 86400 and its exact reciprocal; the two directions of the "
        "scenario-time conversion multiply by reciprocal constants; no near-miss day length anywhere in the package",
    )
    tab = _const_table(p)
    DAY = Fraction(86400)
    for name, exp in (("DAYS2SEC", DAY), ("SEC2DAYS", 1 / DAY)):
        v = tab.get(name)
        if v is None:
            r.error(f"constants.{name}", "constant not found or not foldable")
        elif name == "SEC2DAYS":
            # 1.0 / DAYS2SEC folded exactly as a rational of the source expression
            if v == exp:
                r.ok(f"constants.{name}", f"== {exp}", "src/resonaate/physics/constants.py")
            else:
                r.violation(f"constants.{name}", f"value:{v}", f"{name} folds to {v}, expected {exp}", "src/resonaate/physics/constants.py")
        elif v == exp:
            r.ok(f"constants.{name}", f"== {exp}", "src/resonaate/physics/constants.py")
        else:
            r.violation(f"constants.{name}", f"value:{v}", f"{name} folds to {v}, expected {exp}", "src/resonaate/physics/constants.py")

    def factor(fn, want_self_first=True):
        """The constant factor by which the function scales its time operand."""
        rets = [n for n in walk_no_nested(fn.node) if isinstance(n, ast.Return) and n.value is not None]
        require(len(rets) == 1, "expected a single return", fn.node)
        prods = []
        for n in ast.walk(rets[0].value):
            if isinstance(n, ast.BinOp) and isinstance(n.op, (ast.Mult, ast.Div)):
                prods.append(n)
        require(prods, "no scaling found", fn.node)
        top = prods[0]
        # fold all constant factors of the top-level product chain
        c = Fraction(1)
        found = False

        def walk(e, inv):
            nonlocal c, found
            if isinstance(e, ast.BinOp) and isinstance(e.op, (ast.Mult, ast.Div)):
                walk(e.left, inv)
                walk(e.right, inv if isinstance(e.op, ast.Mult) else not inv)
                return
            v = const_value(e, tab)
            if v is not None and v != 0:
                found = True
                c = c / v if inv else c * v

        walk(top, False)
        require(found, "no constant factor found", top)
        return c, top

    st = p.func("ScenarioTime.convertToJulianDate")
    jd = p.func("JulianDate.convertToScenarioTime")

    def recip():
        c1, n1 = factor(st)
        c2, n2 = factor(jd)
        if c1 == 1 / DAY:
            r.ok(st.qualname, f"seconds * {c1}", st.loc(n1))
        else:
            r.violation(st.qualname, f"factor:{c1}", f"scenario seconds are scaled by {c1} (expected 1/86400) to get days", st.loc(n1))
        if c2 == DAY:
            r.ok(jd.qualname, f"days * {c2}", jd.loc(n2))
        else:
            r.violation(jd.qualname, f"factor:{c2}", f"Julian days are scaled by {c2} (expected 86400) to get seconds", jd.loc(n2))
        if c1 * c2 == 1:
            r.ok("ScenarioTime<->JulianDate", "factors are exact reciprocals", st.loc(n1))
        else:
            r.violation("ScenarioTime<->JulianDate", f"not-reciprocal:{c1}*{c2}", f"the two directions multiply by {c1} and {c2}: round trip scales time by {c1 * c2}", st.loc(n1))
        # operand shape: start + seconds*K ; (jd - start) * K
        e1 = [n for n in walk_no_nested(st.node) if isinstance(n, ast.Return)][0].value
        txt = unparse(e1)
        if "julian_date_start +" in txt or "+ julian_date_start" in txt:
            r.ok(st.qualname + ":offset", "start + scaled seconds", st.loc())
        else:
            r.violation(st.qualname, f"offset-shape:{txt}", f"convertToJulianDate returns `{txt}`: the start date is not added", st.loc())
        e2 = [n for n in walk_no_nested(jd.node) if isinstance(n, ast.Return)][0].value
        subs = [n for n in ast.walk(e2) if isinstance(n, ast.BinOp) and isinstance(n.op, ast.Sub)]
        oksub = any(isinstance(s.left, ast.Name) and s.left.id == jd.params[0] and isinstance(s.right, ast.Name) and s.right.id == jd.params[1] for s in subs)
        if oksub:
            r.ok(jd.qualname + ":offset", "(self - start) scaled", jd.loc())
        else:
            r.violation(jd.qualname, f"offset-shape:{unparse(e2)}", f"convertToScenarioTime returns `{unparse(e2)}`: expected (self - start) scaled", jd.loc())

    r.guard("ScenarioTime<->JulianDate", recip)

    # near-miss day lengths anywhere
    n_sites = 0
    for fi in p.all_functions(include_nested=True):
        for n in walk_no_nested(fi.node):
            if isinstance(n, ast.BinOp) and isinstance(n.op, (ast.Mult, ast.Div)):
                for side in (n.left, n.right):
                    if isinstance(side, ast.BinOp) and isinstance(side.op, (ast.Mult, ast.Div)) and side is n.left:
                        continue
                    v = const_value(side, tab)
                    if v is None or v <= 0:
                        continue
                    for ref in (DAY, 1 / DAY):
                        ratio = v / ref
                        if Fraction(9, 10) < ratio < Fraction(11, 10):
                            n_sites += 1
                            if v != ref:
                                r.violation(fi.qualname, f"near-miss-day:{unparse(side)}", f"`{unparse(n)}` uses {float(v)!r} where the day length {float(ref)!r} is meant", fi.loc(n))
    if n_sites >= 6:
        r.ok("package:day-length-sites", f"{n_sites} seconds<->days conversion sites use the exact constant", "")
    else:
        r.error("package:day-length-sites", f"only {n_sites} day-length conversion sites recognised (>= 6 confirmed by hand)")


def rule_r4(chk, p, t):
    r = chk.rule(
        "C05.R4",
        "step count and epoch accumulation",
        6,
        "the value truncated for range() is a quotient whose numerator was rounded first and whose divisor is the "
        "physics step; the loop calls stepForward exactly once per iteration; clock, epochs and agents advance by the "
        "same `+ dt_step` accumulation",
    )
    fn = p.func("Scenario.propagateTo")

    def one():
        rng = [c for c in walk_no_nested(fn.node) if isinstance(c, ast.Call) and isinstance(c.func, ast.Name) and c.func.id == "range"]
        loops = [n for n in walk_no_nested(fn.node) if isinstance(n, ast.For) and isinstance(n.iter, ast.Call) and n.iter in rng]
        require(len(loops) == 1, "propagateTo has no single `for _ in range(...)` loop", fn.node)
        lp = loops[0]
        rargs = lp.iter.args
        require(len(rargs) in (1, 2), "range() has a step argument", lp)
        if len(rargs) == 1:
            arg = rargs[0]
        else:
            # range(k, N + k) runs N times
            k, stop = rargs
            if isinstance(k, ast.Constant) and k.value == 0:
                arg = stop
            elif isinstance(k, ast.Constant) and isinstance(stop, ast.BinOp) and isinstance(stop.op, ast.Add) and isinstance(stop.right, ast.Constant) and stop.right.value == k.value:
                arg = stop.left
            elif isinstance(k, ast.Constant) and isinstance(stop, ast.BinOp) and isinstance(stop.op, ast.Add) and isinstance(stop.left, ast.Constant) and stop.left.value == k.value:
                arg = stop.right
            else:
                raise Undecided(f"cannot read the iteration count of `{unparse(lp.iter)}`", lp)
        e = inline_locals(fn, arg)
        cons = fn.qualname + ":step-count"
        if not (isinstance(e, ast.Call) and call_name(e) in ("int", "floor") and len(e.args) == 1):
            r.violation(cons, f"count-not-floor:{unparse(arg)}", f"the number of steps is `{unparse(e)}`: it must be the floor (int) of delta/step, nothing added or rounded up", fn.loc(lp))
            return
        q = e.args[0]
        if not (isinstance(q, ast.BinOp) and isinstance(q.op, (ast.Div, ast.FloorDiv))):
            r.violation(cons, f"count-not-quotient:{unparse(q)}", f"the truncated value `{unparse(q)}` is not delta / step", fn.loc(lp))
            return
        num, den = q.left, q.right
        rounded = any(isinstance(n, ast.Call) and call_name(n) in ROUND_FUNCS for n in ast.walk(num))
        # the rounding must enclose the difference target - current
        diff_ok = False
        for n in ast.walk(num):
            if isinstance(n, ast.Call) and call_name(n) in ROUND_FUNCS and n.args:
                inner = n.args[0]
                if isinstance(inner, ast.BinOp) and isinstance(inner.op, ast.Sub):
                    diff_ok = True
        if not rounded or not diff_ok:
            r.violation(cons, f"numerator-not-rounded:{unparse(num)}", f"the duration `{unparse(num)}` is truncated without being rounded first: 299.99999 s / 300 s gives 0 steps", fn.loc(lp))
            return
        den_txt = unparse(den)
        if den_txt not in ("self.physics_time_step", "self.clock.dt_step"):
            r.violation(cons, f"divisor:{den_txt}", f"the duration is divided by `{den_txt}`, not by the physics step", fn.loc(lp))
            return
        r.ok(cons, f"range(int(round(target - now) / {den_txt}))", fn.loc(lp))
        # the difference is target - current clock time
        for n in ast.walk(num):
            if isinstance(n, ast.Call) and call_name(n) in ROUND_FUNCS and n.args and isinstance(n.args[0], ast.BinOp):
                d = n.args[0]
                left, right = unparse(d.left), unparse(d.right)
                if "convertToScenarioTime" in left and right == "self.clock.time":
                    r.ok(fn.qualname + ":delta", f"{left} - {right}", fn.loc(lp))
                else:
                    r.violation(fn.qualname + ":delta", f"delta:{left}-{right}", f"the duration is `{left} - {right}`, expected target.convertToScenarioTime(start) - self.clock.time", fn.loc(lp))
        # body: stepForward exactly once, unconditionally
        calls = find_calls(lp, "stepForward")
        top = [s for s in lp.body if isinstance(s, ast.Expr) and isinstance(s.value, ast.Call) and call_name(s.value) == "stepForward"]
        if len(calls) == 1 and len(top) == 1:
            r.ok(fn.qualname + ":body", "one unconditional stepForward() per iteration", fn.loc(lp))
        else:
            r.violation(fn.qualname + ":body", f"stepForward-calls:{len(calls)}:{len(top)}", "the loop body does not call stepForward() exactly once, unconditionally", fn.loc(lp))
        if any(isinstance(n, (ast.Break, ast.Continue, ast.Return)) for n in ast.walk(lp)):
            r.violation(fn.qualname + ":body", "early-exit", "the step loop can exit early", fn.loc(lp))
        # guard: delta >= step else raise
        pm = parents_map(fn.node)
        ifs = [a for a in _anc(lp, pm) if isinstance(a, ast.If)]
        g_ok = False
        for i in ifs:
            tst = i.test
            if isinstance(tst, ast.Compare) and isinstance(tst.ops[0], ast.GtE) and unparse(tst.comparators[0]) == den_txt and lp in i.body:
                g_ok = True
        if g_ok or not ifs:
            r.ok(fn.qualname + ":guard", "loop runs whenever delta >= step", fn.loc(lp))
        else:
            r.violation(fn.qualname + ":guard", "guard-shape", f"the step loop is guarded by `{unparse(ifs[0].test)}`, expected delta >= step", fn.loc(ifs[0]))

    r.guard(fn.qualname, one)

    # same accumulation everywhere
    def accum():
        clk_init = p.func("ScenarioClock.__init__")
        tic = p.func("ScenarioClock.ticToc")
        incs = [n for n in walk_no_nested(clk_init.node) if isinstance(n, ast.AugAssign) and isinstance(n.op, ast.Add)]
        good = [n for n in incs if unparse(n.value) == "self.dt_step"]
        if len(good) == 1:
            r.ok(clk_init.qualname + ":epochs", f"epochs inserted at `{unparse(good[0].target)} += self.dt_step`", clk_init.loc(good[0]))
        else:
            r.violation(clk_init.qualname + ":epochs", f"epoch-accumulation:{[unparse(n) for n in incs]}", "the pre-inserted epochs do not advance by `+= self.dt_step`", clk_init.loc())
        from rsa.terms import NotEvaluable, falsy_param_states, path_states

        try:
            sts = falsy_param_states(path_states(tic), tic.params[1]) if len(tic.params) > 1 else path_states(tic)
            vals = [unparse(s_["env"].get("self.time")) if s_["env"].get("self.time") is not None else None for s_ in sts]
        except NotEvaluable:
            vals = []
        if vals and all(v == "self.time + self.dt_step" for v in vals):
            r.ok(tic.qualname, "time += dt_step", tic.loc())
        else:
            r.violation(tic.qualname, "tick-increment", "ticToc does not advance by `self.time += self.dt_step`", tic.loc())
        # the loop condition includes the last epoch (<=) and the timestamp uses the same loop variable
        whiles = [n for n in walk_no_nested(clk_init.node) if isinstance(n, ast.While)]
        require(len(whiles) == 1, "clock constructor has no single epoch loop", clk_init.node)
        w = whiles[0]
        tst = w.test
        if isinstance(tst, ast.Compare) and isinstance(tst.ops[0], ast.LtE) and unparse(tst.comparators[0]) in ("self.time_span", "time_span", "self.stop_time"):
            r.ok(clk_init.qualname + ":span", f"while {unparse(tst)}", clk_init.loc(w))
        else:
            r.violation(clk_init.qualname + ":span", f"span-test:{unparse(tst)}", f"epoch loop runs `while {unparse(tst)}`: the last step's epoch must be included (<= time_span)", clk_init.loc(w))
        gen = p.func("PropagateRegistration.generateSubmission")
        kws = {}
        for c in walk_no_nested(gen.node):
            if isinstance(c, ast.Call) and call_name(c) == "PropagateSubmission":
                kws = {k.arg: unparse(k.value) for k in c.keywords}
        if kws.get("final_time") == "self._registrant.time + self._registrant.dt_step" and kws.get("init_time") == "self._registrant.time":
            r.ok(gen.qualname, "agents advance from time to time + dt_step", gen.loc())
        else:
            r.violation(gen.qualname, f"agent-accumulation:{kws.get('init_time')}:{kws.get('final_time')}", "agents are not propagated from `time` to `time + dt_step`", gen.loc())

    r.guard("accumulation", accum)


def _anc(node, pm):
    out = []
    cur = node
    while cur in pm:
        cur = pm[cur]
        out.append(cur)
    return out


def rule_r6(chk, p, t):
    # calendar / Julian-date agreement rests on the same decompositions: shared instance of C04.R7
    from rules import C04

    C04.rule_r7(chk, p, t, rid="C05.R6")


def rule_r7(chk, p, t):
    from rules.shared_memo import memo_rule

    memo_rule(chk, p, t, "C05.R7", modules=("resonaate.physics.time",), floor=12, what="the time conversion modules (physics.time)")


def rule_r8(chk, p, t):
    r = chk.rule(
        "C05.R8",
        "one step size: step count, clock tick and agent step come from the same configured field",
        4,
        "Scenario.propagateTo divides the duration by Scenario.physics_time_step; the clock advances by "
        "ScenarioClock.dt_step per stepForward and every agent by the copy it takes of it. All three must be the "
        "configured physics step, unmodified: physics_time_step returns `<time config>.physics_step_sec`, "
        "ScenarioClock.fromConfig passes `config.physics_step_sec` itself as dt_step, the constructor stores it under an "
        "identity wrapper, ticToc() without argument adds exactly dt_step, and Agent copies clock.dt_step. Otherwise "
        "floor(D / step) iterations advance the run by something else than D",
        "the value of the configured step",
    )
    sc = p.cls("resonaate.scenario.scenario.Scenario")
    ck = p.cls("resonaate.scenario.clock.ScenarioClock")
    pts = sc.methods.get("physics_time_step")

    def f1():
        b = property_body(pts)
        require(b is not None, "Scenario.physics_time_step is not a single-return property", pts.node)
        if isinstance(b, ast.Attribute) and b.attr == "physics_step_sec" and unparse(b.value) in ("self.scenario_config.time", "self._scenario_config.time"):
            r.ok(pts.qualname, unparse(b), pts.loc())
        else:
            r.violation(pts.qualname, f"physics-step-source:{unparse(b)}", f"Scenario.physics_time_step is `{unparse(b)}`, not the configured time.physics_step_sec", pts.loc())

    r.guard(pts.qualname, f1)
    fc = ck.methods.get("fromConfig")
    init = ck.methods.get("__init__")

    def f2():
        cfgp = fc.params[1]
        rets = [n for n in walk_no_nested(fc.node) if isinstance(n, ast.Return) and n.value is not None]
        require(len(rets) == 1 and isinstance(rets[0].value, ast.Call), "ScenarioClock.fromConfig does not return one constructor call", fc.node)
        call = rets[0].value
        iparams = init.params[1:]
        require("dt_step" in iparams, "ScenarioClock.__init__ has no dt_step parameter", init.node)
        idx = iparams.index("dt_step")
        arg = call.args[idx] if idx < len(call.args) else next((k.value for k in call.keywords if k.arg == "dt_step"), None)
        require(arg is not None, "fromConfig passes no dt_step", call)
        e = inline_locals(fc, arg)
        if unparse(e) == f"{cfgp}.physics_step_sec":
            r.ok(fc.qualname, f"dt_step = {cfgp}.physics_step_sec", fc.loc(call))
        else:
            r.violation(fc.qualname, f"clock-step-source:{unparse(e)[:60]}", f"the clock is built with dt_step = `{unparse(e)[:80]}`, while Scenario.propagateTo counts steps of the configured physics_step_sec: for configurations where the two differ the run takes floor(D / physics step) steps of another length and stops short of (or overshoots) the requested duration, and the recorded epochs are not start + k * step", fc.loc(call))

    r.guard(fc.qualname, f2)

    def f3():
        asg = [n for n in walk_no_nested(init.node) if isinstance(n, ast.Assign) and unparse(n.targets[0]) == "self.dt_step"]
        require(len(asg) == 1, "ScenarioClock.__init__ assigns self.dt_step not exactly once", init.node)
        v = asg[0].value
        inner = v.args[0] if isinstance(v, ast.Call) and call_name(v) in ("ScenarioTime", "float") and len(v.args) == 1 else v
        if unparse(inner) == "dt_step":
            r.ok(init.qualname + ":dt_step", unparse(v), init.loc(asg[0]))
        else:
            r.violation(init.qualname + ":dt_step", f"clock-step-stored:{unparse(v)[:60]}", f"the clock stores dt_step as `{unparse(v)[:80]}`, not the step it was given", init.loc(asg[0]))
        tt = ck.methods.get("ticToc")
        from rsa.terms import NotEvaluable, canon, falsy_param_states, path_states

        prm = tt.params[1] if len(tt.params) > 1 else None
        try:
            states = path_states(tt)
        except NotEvaluable as e:
            raise Undecided(f"ticToc: {e}", tt.node)
        states = falsy_param_states(states, prm) if prm else states
        want = canon(ast.parse("self.time + self.dt_step", mode="eval").body)
        got = [st["env"].get("self.time") for st in states]
        if states and all(g is not None and canon(g) == want for g in got):
            r.ok(tt.qualname, f"time <- time + dt_step on the default call ({len(states)} path(s))", tt.loc())
        else:
            r.violation(tt.qualname, "tick:" + ";".join(unparse(g)[:40] if g is not None else "unchanged" for g in got), "ScenarioClock.ticToc() without an argument does not advance the time by exactly dt_step", tt.loc())

    r.guard(init.qualname, f3)
    ag = p.func("Agent.__init__")

    def f4():
        asg = [n for n in walk_no_nested(ag.node) if isinstance(n, ast.Assign) and unparse(n.targets[0]) == "self._dt_step"]
        require(len(asg) == 1, "Agent.__init__ assigns self._dt_step not exactly once", ag.node)
        if unparse(asg[0].value) == "clock.dt_step":
            r.ok(ag.qualname + ":_dt_step", "agents copy the clock's step", ag.loc(asg[0]))
        else:
            r.violation(ag.qualname + ":_dt_step", f"agent-step:{unparse(asg[0].value)[:60]}", f"agents step by `{unparse(asg[0].value)[:80]}`, not by the clock's dt_step", ag.loc(asg[0]))

    r.guard(ag.qualname, f4)


_TRUNCATING = {"int", "floor", "trunc", "fix", "ceil", "floor_divide", "np_floor", "divmod"}
_UNIT_SECONDS = {"days": 86400, "hours": 3600, "minutes": 60, "seconds": 1, "milliseconds": Fraction(1, 1000), "microseconds": Fraction(1, 1000000), "weeks": 604800}


def _lossy_ops(e):
    out = []
    for n in ast.walk(e):
        if isinstance(n, ast.Call) and call_name(n) in _TRUNCATING:
            out.append(f"{call_name(n)}()")
        elif isinstance(n, ast.BinOp) and isinstance(n.op, (ast.FloorDiv, ast.Mod)):
            out.append("//" if isinstance(n.op, ast.FloorDiv) else "%")
    return out


def rule_r9(chk, p, t):
    r = chk.rule(
        "C05.R9",
        "the requested duration reaches the target date whole",
        3,
        "runResonaate (the function behind `resonaate -t HOURS`) turns the requested number of hours into the stop "
        "date: the duration handed to getTargetJulianDate is a timedelta of exactly sim_time_hours hours (in whatever "
        "unit it is spelled: the keyword's unit times its value equals 3600 * sim_time_hours as a rational function) "
        "with no truncating operation (int, floor, trunc, ceil, //, %) on the way - a float product such as 2.05 * 3600 = "
        "7379.999999999999 truncated to whole seconds loses a second and with it a whole step; the start is the "
        "scenario clock's start date, the result is what propagateTo receives, and main() forwards the parsed "
        "`--time` value (a float option) unchanged",
        "the microsecond rounding that timedelta itself performs",
    )
    from rsa.ratfun import NotEvaluable, ratfun, rat_equal

    fn = p.func("resonaate.runResonaate")

    def one():
        calls = find_calls(fn.node, "getTargetJulianDate")
        require(len(calls) == 1, "runResonaate: expected exactly one getTargetJulianDate call", fn.node)
        c = calls[0]
        require(len(c.args) == 2 and not c.keywords, "getTargetJulianDate is not called with (start, duration)", c)
        start, dur = (inline_locals(fn, a) for a in c.args)
        hours = next((q for q in fn.params if "hour" in q), None)
        require(hours is not None, "runResonaate has no `hours` parameter", fn.node)
        if not unparse(start).endswith("clock.julian_date_start"):
            r.violation(fn.qualname, f"start:{unparse(start)}", f"the stop date is counted from `{unparse(start)}`, not from the scenario clock's start date", fn.loc(c))
        else:
            r.ok(fn.qualname + ":start", unparse(start), fn.loc(c))
        lossy = _lossy_ops(dur)
        if lossy:
            r.violation(
                fn.qualname,
                "duration-truncated:" + ",".join(sorted(set(lossy))),
                f"the requested duration reaches getTargetJulianDate as `{unparse(dur)}`: {', '.join(sorted(set(lossy)))} truncates it "
                "(a float product just below a whole second loses that second, and the run stops one step short)",
                fn.loc(c),
            )
        elif isinstance(dur, ast.Call) and call_name(dur) == "timedelta" and not dur.args and dur.keywords and all(k.arg in _UNIT_SECONDS for k in dur.keywords):
            try:
                total = None
                for k in dur.keywords:
                    term = ratfun(ast.BinOp(left=k.value, op=ast.Mult(), right=ast.Constant(value=1)))
                    u = _UNIT_SECONDS[k.arg]
                    term = ({m: v * u for m, v in term[0].items()}, term[1])
                    total = term if total is None else ratfun_add(total, term)
                want = ratfun(ast.parse(f"3600 * {hours}", mode="eval").body)
                if rat_equal(total, want):
                    r.ok(fn.qualname + ":duration", f"{unparse(dur)} == {hours} hours", fn.loc(c))
                else:
                    r.violation(fn.qualname, f"duration-value:{unparse(dur)}", f"the duration handed to getTargetJulianDate is `{unparse(dur)}`, which is not {hours} hours", fn.loc(c))
            except NotEvaluable as e:
                r.undecided(fn.qualname + ":duration", f"duration `{unparse(dur)}` not evaluable: {e}", fn.loc(c))
        else:
            r.undecided(fn.qualname + ":duration", f"duration `{unparse(dur)}` is not a timedelta built from keyword units", fn.loc(c))
        # the result is what propagateTo receives
        pcs = find_calls(fn.node, "propagateTo")
        require(len(pcs) == 1 and pcs[0].args, "runResonaate: expected one propagateTo(target) call", fn.node)
        tgt = inline_locals(fn, pcs[0].args[0])
        if isinstance(tgt, ast.Call) and call_name(tgt) == "getTargetJulianDate":
            r.ok(fn.qualname + ":target", "propagateTo(getTargetJulianDate(start, duration))", fn.loc(pcs[0]))
        else:
            r.violation(fn.qualname, f"target:{unparse(tgt)[:60]}", f"propagateTo receives `{unparse(tgt)[:80]}`, not the target date computed from the requested duration", fn.loc(pcs[0]))

    r.guard(fn.qualname, one)
    mn = p.func("resonaate.main")

    def two():
        calls = find_calls(mn.node, "runResonaate")
        require(len(calls) == 1, "main: expected one runResonaate call", mn.node)
        c = calls[0]
        hours = next((q for q in fn.params if "hour" in q), None)
        arg = next((k.value for k in c.keywords if k.arg == hours), None)
        if arg is None and len(c.args) > fn.params.index(hours):
            arg = c.args[fn.params.index(hours)]
        require(arg is not None, "main does not pass the simulated hours", c)
        e = inline_locals(mn, arg)
        if _lossy_ops(e) or any(isinstance(n, ast.Call) and call_name(n) in ("round", "around", "rint") for n in ast.walk(e)):
            r.violation(mn.qualname, f"hours-forwarded:{unparse(e)}", f"main forwards the requested hours as `{unparse(e)}`: the command-line value is rounded or truncated first", mn.loc(c))
        elif isinstance(e, ast.Attribute):
            # the option that fills this attribute parses a float
            dest = e.attr
            cli = p.func("resonaate.common.cli.getCommandLineParser")
            opt = [a for a in find_calls(cli.node, "add_argument") if any(k.arg == "dest" and isinstance(k.value, ast.Constant) and k.value.value == dest for k in a.keywords)]
            require(len(opt) == 1, f"no single add_argument with dest={dest!r}", cli.node)
            ty = next((k.value for k in opt[0].keywords if k.arg == "type"), None)
            if ty is not None and unparse(ty) == "float":
                r.ok(mn.qualname + ":hours", f"--time parsed as float, forwarded as `{unparse(e)}`", mn.loc(c))
            else:
                r.violation(cli.qualname, f"time-type:{unparse(ty) if ty is not None else None}", f"the --time option is parsed with type `{unparse(ty) if ty is not None else 'str'}`: fractional hours cannot be requested as documented", cli.loc(opt[0]))
        else:
            r.undecided(mn.qualname + ":hours", f"hours argument `{unparse(e)}` not recognised", mn.loc(c))

    r.guard(mn.qualname, two)


def ratfun_add(a, b):
    from rsa.ratfun import p_add, p_mul

    return (p_add(p_mul(a[0], b[1]), p_mul(b[0], a[1])), p_mul(a[1], b[1]))


_HOST_TIME = {"astimezone", "localtime", "mktime", "fromtimestamp", "now", "today", "utcnow", "timestamp", "tzset", "gmtime", "ctime", "strptime"}
_HOST_TIME_SELFTEST = """
def toJulianDate(date_time):
    date_time = date_time.astimezone(timezone.utc)
    return getJulianDate(date_time.year, date_time.month, date_time.day, date_time.hour, date_time.minute, date_time.second)
"""


def rule_r10(chk, p, t, rid="C05.R10"):
    r = chk.rule(
        rid,
        "calendar and Julian-date conversions are functions of their arguments only",
        10,
        "every datetime in the scenario is a naive UTC datetime; a conversion that consults the host (astimezone on a "
        "naive datetime reads it as host-local time, datetime.timestamp / fromtimestamp / mktime / localtime / now / "
        "today likewise) makes calendar <-> Julian date disagree by the host's UTC offset wherever the process does not "
        "run in UTC, and non-monotonic across a daylight-saving change.  No function of resonaate.physics.time, of the "
        "scenario clock or of the agents' epoch properties calls one of these",
        "what the standard library does with an aware datetime",
    )
    mods = [m for m in p.modules.values() if m.name.startswith("resonaate.physics.time") or m.name in ("resonaate.scenario.clock",)]
    n = 0
    for mod in sorted(mods, key=lambda m: m.name):
        for fi in mod.functions.values():
            fns = [fi]
            for f in fns:
                n += 1
                hits = [c for c in walk_no_nested(f.node) if isinstance(c, ast.Call) and isinstance(c.func, ast.Attribute) and c.func.attr in _HOST_TIME]
                if hits:
                    r.violation(f.qualname, f"host-time:{hits[0].func.attr}", f"{f.name} calls `{unparse(hits[0])[:70]}`: the result depends on the host's time zone / clock, not only on the arguments (naive datetimes are UTC by convention here)", f.loc(hits[0]))
                else:
                    r.ok(f.qualname, "no host-dependent time call", f.loc())
        for ci in mod.classes.values():
            for f in list(ci.methods.values()) + list(ci.setters.values()):
                n += 1
                hits = [c for c in walk_no_nested(f.node) if isinstance(c, ast.Call) and isinstance(c.func, ast.Attribute) and c.func.attr in _HOST_TIME]
                if hits:
                    r.violation(f.qualname, f"host-time:{hits[0].func.attr}", f"{f.name} calls `{unparse(hits[0])[:70]}`: the result depends on the host's time zone / clock, not only on the arguments", f.loc(hits[0]))
                else:
                    r.ok(f.qualname, "no host-dependent time call", f.loc())
    # the rule's expected count on the tree is zero: a positive example must match on every run
    tree = ast.parse(_HOST_TIME_SELFTEST)
    pos = [c for c in ast.walk(tree) if isinstance(c, ast.Call) and isinstance(c.func, ast.Attribute) and c.func.attr in _HOST_TIME]
    if len(pos) != 1:
        r.error("selftest", "the embedded positive example is not recognised")


def run(chk, p, t):
    chk.explanation = (
        "Static decision of structural necessary conditions of C05: (R1) the float seconds of a Julian date are "
        "rounded, never truncated, on their way into a datetime and carry through timedelta; (R2) the timed-run "
        "target date is julianDateToDatetime(start)+delta and calendar fields reach getJulianDate in order; (R3) "
        "seconds<->days constants fold to exactly 86400 and 1/86400 everywhere (rational constant folding of literal "
        "expressions); (R4) the step count is floor(round(delta)/step) and stepForward runs once per iteration, all "
        "clocks advance by the same `+ dt_step`. NOT decided: monotonicity / sub-millisecond exactness of the calendar "
        "algorithm over 1901-2099 (float arithmetic)."
    )
    chk.assumptions += ["round/around/rint round to nearest; int/floor/trunc truncate; timedelta normalises (carries) seconds"]
    for fn in (rule_r1, rule_r2, rule_r3, rule_r4, rule_r5, rule_r6, rule_r7, rule_r8, rule_r9, rule_r10):
        rid = "C05.R" + fn.__name__.split("_r")[-1]
        if not chk.wants(rid):
            continue
        try:
            fn(chk, p, t)
        except (Undecided, AnchorError) as e:
            rr = chk.rule(rid + ".x", fn.__name__, 0, "-")
            (rr.undecided if isinstance(e, Undecided) else rr.error)(fn.__name__, str(e))


_ = dotted_name


def generation_mix(fn, var):
    """Path-sensitive check that no expression combines values derived from two different values of
    the local ``var`` (each assignment to ``var`` opens a new generation).  Returns a list of
    (statement, {name: generations}) for mixing statements."""
    from rsa.cfg import cfg_of

    cfg = cfg_of(fn)
    bad = {}
    n_paths = 0
    for path in cfg.paths(targets=[cfg.exit.id]):
        n_paths += 1
        gen = 0
        deps = {var: frozenset({0})} if var in fn.all_params else {}
        for nid, _lab in path:
            node = cfg.nodes[nid]
            a = node.ast
            if a is None or node.kind not in ("stmt", "return"):
                continue
            tgts = []
            val = None
            if isinstance(a, ast.Assign):
                tgts, val = a.targets, a.value
            elif isinstance(a, ast.AugAssign):
                tgts, val = [a.target], a.value
            elif isinstance(a, ast.Return) and a.value is not None:
                val = a.value
            if val is None:
                continue
            reads = {x.id: deps[x.id] for x in ast.walk(val) if isinstance(x, ast.Name) and x.id in deps}
            if isinstance(a, ast.AugAssign) and isinstance(a.target, ast.Name) and a.target.id in deps:
                reads[a.target.id] = deps[a.target.id]
            allg = frozenset().union(*reads.values()) if reads else frozenset()
            names = []
            for tg in tgts:
                for x in ast.walk(tg):
                    if isinstance(x, ast.Name):
                        names.append(x.id)
            if var in names:
                gen += 1
                deps[var] = frozenset({gen})
                names = [x for x in names if x != var]
            elif len(allg) > 1:
                bad[id(a)] = (a, {k: sorted(v) for k, v in reads.items()})
            for nm in names:
                deps[nm] = allg
    return list(bad.values()), n_paths


def rule_r5(chk, p, t, rid="C05.R5"):
    r = chk.rule(
        rid,
        "calendar quantities follow the corrected year",
        2,
        "in the Julian date <-> calendar algorithms, once the year (or the day count) is corrected every quantity "
        "derived from it is re-derived before it is combined with the corrected value (no expression mixes values of "
        "two generations of the corrected local); the leap rule and the epoch constants are the algorithm's",
        "exactness of Vallado's Algorithm 14 as numbers",
    )
    gc = p.func("resonaate.physics.time.stardate.getCalendarDate")

    def pathwise():
        """Decide getCalendarDate on its paths: the (year, day of year) handed to days2mdh on each path, as expressions
        of the Julian date.  None when the function is not straight-line arithmetic between its branches."""
        from rsa.terms import NotEvaluable, expand_poly, path_states

        calls = find_calls(gc.node, "days2mdh")
        if len(calls) != 1 or len(calls[0].args) != 2 or not all(isinstance(a, ast.Name) for a in calls[0].args):
            return None
        ny, nd = [a.id for a in calls[0].args]
        try:
            states = path_states(gc)
        except NotEvaluable:
            return None
        jd = gc.params[0]
        T = f"(float({jd}) - 2415019.5)"
        Y0 = f"(1900 + floor({T} / 365.25))"

        def D(Y):
            return f"({T} - (({Y} - 1900) * 365 + floor(({Y} - 1901) * 0.25)))"

        def P(txt):
            return expand_poly(ast.parse(txt, mode="eval").body)

        want = {False: (P(Y0), P(D(Y0))), True: (P(f"({Y0} - 1)"), P(D(f"({Y0} - 1)")))}
        seen = set()
        bad = []
        for stt in states:
            y, d = stt["env"].get(ny), stt["env"].get(nd)
            if y is None or d is None:
                return None
            corr = [(tst, pol) for tst, pol in stt["conds"] if isinstance(tst, ast.Compare)]
            if len(corr) != 1:
                return None
            tst, pol = corr[0]
            # the correction is taken exactly when the uncorrected day of year is below one
            taken = None
            if len(tst.ops) == 1 and isinstance(tst.ops[0], (ast.Lt, ast.GtE)) and expand_poly(tst.left) == P(D(Y0)) and expand_poly(tst.comparators[0]) == P("1.0"):
                taken = pol if isinstance(tst.ops[0], ast.Lt) else (not pol)
            if taken is None:
                bad.append(f"correction condition `{unparse(tst)[:80]}`")
                continue
            seen.add(taken)
            wy, wd = want[taken]
            if expand_poly(y) != wy:
                bad.append(f"year on the {'corrected' if taken else 'plain'} path is `{unparse(y)[:80]}`")
            if expand_poly(d) != wd:
                bad.append(f"day of year on the {'corrected' if taken else 'plain'} path is `{unparse(d)[:110]}`: a quantity of the year before its correction (the leap-day count) is combined with the corrected year - 31 December of a leap year decodes one day early" if taken else f"day of year on the plain path is `{unparse(d)[:110]}`")
        if seen != {True, False} and not bad:
            bad.append("the beginning-of-year correction is missing")
        return bad

    def one():
        pw = pathwise()
        if pw is not None:
            if pw:
                r.violation(gc.qualname, "stale-derived-value:" + ";".join(b[:60] for b in pw), "getCalendarDate deviates from the cited algorithm: " + "; ".join(pw), gc.loc())
            else:
                r.ok(gc.qualname + ":generations", "path-wise: (year, day of year) = (Y0, D(Y0)), or (Y0 - 1, D(Y0 - 1)) exactly when D(Y0) < 1", gc.loc())
                r.ok(gc.qualname + ":algorithm", "days since 1900, year, leap days, day of year; corrected when day_of_year < 1", gc.loc())
            return
        mixes, n = generation_mix(gc, "year")
        r.paths_enumerated += n
        if mixes:
            st, reads = mixes[0]
            r.violation(
                gc.qualname,
                f"stale-derived-value:{unparse(st)[:60]}",
                f"`{unparse(st)[:100]}` combines values derived from different values of `year` ({reads}): after the beginning-of-year correction `year -= 1` a quantity computed from the old year is reused (e.g. the leap-day count), so 31 December of a leap year decodes one day early",
                gc.loc(st),
            )
        else:
            r.ok(gc.qualname + ":generations", f"{n} paths: every expression uses quantities of one value of `year`", gc.loc())
        defs = {}
        for nn in walk_no_nested(gc.node):
            if isinstance(nn, ast.Assign) and isinstance(nn.targets[0], ast.Name):
                defs.setdefault(nn.targets[0].id, []).append(nn.value)
        from rsa.terms import canon as _c

        exp = {
            "temp_val": ["float(julian_date) - 2415019.5"],
            "temp_u": ["temp_val / 365.25"],
            "year": ["1900 + floor(temp_u)"],
            "leap_years": ["floor((year - 1901) * 0.25)"],
            "day_of_year": ["temp_val - ((year - 1900) * 365 + leap_years)"],
        }
        bad = []
        for k, srcs in exp.items():
            got = {repr(_c(v)) for v in defs.get(k, [])}
            want = {repr(_c(ast.parse(s, mode="eval").body)) for s in srcs}
            if got != want:
                bad.append(f"{k} = {[unparse(v) for v in defs.get(k, [])]}")
        conds = [unparse(nn.test) for nn in walk_no_nested(gc.node) if isinstance(nn, ast.If)]
        if conds != ["day_of_year < 1.0"]:
            bad.append(f"correction condition {conds}")
        if bad:
            r.violation(gc.qualname + ":algorithm", "calendar-algorithm:" + ";".join(bad), "getCalendarDate deviates from the cited algorithm: " + "; ".join(bad), gc.loc())
        else:
            r.ok(gc.qualname + ":algorithm", "days since 1900, year, leap days, day of year; corrected when day_of_year < 1", gc.loc())

    r.guard(gc.qualname, one)
    gj = p.func("JulianDate.getJulianDate")

    def two():
        from rsa.terms import canon as _c

        defs = {}
        for nn in walk_no_nested(gj.node):
            if isinstance(nn, ast.Assign) and isinstance(nn.targets[0], ast.Name):
                defs.setdefault(nn.targets[0].id, []).append(nn.value)
        exp = {
            "m_day": "day + 1721013.5",
            "julian_day_fraction": "(second + minute * 60 + hour * 3600) / 86400",
        }
        bad = []
        for k, s in exp.items():
            v = defs.get(k, [])
            if not v or _c(v[0]) != _c(ast.parse(s, mode="eval").body):
                bad.append(f"{k} = {[unparse(x) for x in v][:1]}")
        jd = defs.get("julian_day", [])
        want = _c(ast.parse("367 * year - floor(7 * (year + floor((month + 9) / 12)) * 0.25) + floor(275 * month / 9) + m_day", mode="eval").body)
        if not jd or _c(jd[0]) != want:
            bad.append(f"julian_day = {[unparse(x) for x in jd][:1]}")
        rets = [nn for nn in walk_no_nested(gj.node) if isinstance(nn, ast.Return)]
        if not rets or unparse(rets[-1].value) != f"{gj.params[0]}(julian_day + julian_day_fraction)":
            bad.append("result is not julian_day + julian_day_fraction")
        if bad:
            r.violation(gj.qualname, "julian-date-algorithm:" + ";".join(bad), "getJulianDate deviates from Vallado's Algorithm 14: " + "; ".join(bad), gj.loc())
        else:
            r.ok(gj.qualname, "367 y - floor(7 (y + floor((m + 9)/12))/4) + floor(275 m/9) + d + 1721013.5 + day fraction", gj.loc())

    r.guard(gj.qualname, two)
    dm = p.func("resonaate.physics.time.stardate.days2mdh")

    def three():
        from rsa.terms import canon as _c

        defs = {}
        for nn in walk_no_nested(dm.node):
            if isinstance(nn, ast.Assign) and isinstance(nn.targets[0], ast.Name):
                defs.setdefault(nn.targets[0].id, []).append(nn.value)
        exp = {
            "day": "day_of_year_int - int_temp",
            "day_of_year_int": "floor(day_of_year)",
        }
        bad = [f"{k} = {[unparse(x) for x in defs.get(k, [])][:1]}" for k, s in exp.items() if not defs.get(k) or _c(defs[k][0]) != _c(ast.parse(s, mode="eval").body)]
        # hour / minute / second: successive remainders of the day fraction, compared after full inlining
        from rsa.terms import expand_poly, inline_locals

        rets_ = [nn for nn in walk_no_nested(dm.node) if isinstance(nn, ast.Return) and nn.value is not None]
        if rets_ and isinstance(rets_[-1].value, ast.Tuple) and len(rets_[-1].value.elts) == 5:
            doy = dm.params[1]
            F = f"(({doy} - floor({doy})) * 24)"
            H = f"floor({F})"
            MR = f"(({F} - {H}) * 60)"
            M = f"floor({MR})"
            S = f"(({MR} - {M}) * 60)"
            for nm_, want_, got_ in zip(("hour", "minute", "second"), (H, M, S), rets_[-1].value.elts[2:]):
                if expand_poly(inline_locals(dm, got_)) != expand_poly(ast.parse(want_, mode="eval").body):
                    bad.append(f"{nm_} = `{unparse(inline_locals(dm, got_))[:90]}` (expected successive remainders of the day fraction)")
        else:
            bad.append("days2mdh does not return (month, day, hour, minute, second)")
        ws = [nn for nn in walk_no_nested(dm.node) if isinstance(nn, ast.While)]
        if not ws:
            raise Undecided("the month search of days2mdh is not written as the cumulative while loop: form not modelled", dm.node)
        if not (ws and unparse(ws[0].test) == "(day_of_year_int > int_temp + days_in_month[item - 1]) & (item < 12)"):
            bad.append(f"month loop `{unparse(ws[0].test) if ws else None}`")
        rets = [nn for nn in walk_no_nested(dm.node) if isinstance(nn, ast.Return)]
        if not rets or unparse(rets[-1].value) not in ("(month, day, hour, minute, second)", "month, day, hour, minute, second"):
            bad.append("returned tuple order")
        # month lengths and the leap rule, tabulated over the supported years
        from rsa.terms import NotEvaluable, eval_small

        tbl = defs.get("days_in_month", [None])[0]
        if not (isinstance(tbl, ast.List) and [getattr(x, "value", None) for x in tbl.elts] == [31, 28, 31, 30, 31, 30, 31, 31, 30, 31, 30, 31]):
            bad.append("month-length table")
        feb = [nn for nn in walk_no_nested(dm.node) if isinstance(nn, ast.Assign) and unparse(nn.targets[0]) == "days_in_month[1]"]
        pmap = parents_map(dm.node)
        if len(feb) != 1 or unparse(feb[0].value) != "29" or not isinstance(pmap.get(feb[0]), ast.If) or feb[0] not in pmap[feb[0]].body:
            bad.append("February is not set to 29 days under exactly one leap-year test")
        else:
            tst = pmap[feb[0]].test
            yr = dm.params[0]
            try:
                wrong = [y for y in range(1901, 2100) if bool(eval_small(tst, {yr: y})) != (y % 4 == 0 and (y % 100 != 0 or y % 400 == 0))]
            except NotEvaluable as ex:
                raise Undecided(f"leap-year test `{unparse(tst)}` cannot be tabulated ({ex})", tst) from None
            if wrong:
                bad.append(f"the leap-year test `{unparse(tst)}` is wrong for {wrong[:4]}{'...' if len(wrong) > 4 else ''} within 1901-2099 (the forward conversion counts a leap day there): every date after 28 February of such a year decodes one day off")
        if bad:
            r.violation(dm.qualname, "days2mdh:" + ";".join(bad), "days2mdh deviates from the cited algorithm: " + "; ".join(bad), dm.loc())
        else:
            r.ok(dm.qualname, "month by cumulative month lengths; hour / minute / second by successive remainders", dm.loc())

    r.guard(dm.qualname, three)
