"""C15 - finite burns thrust for exactly their configured interval.

Decides: the burn end time can stop the integrator (flow of end_time into a sign-carrying event
value or an integration bound) (R1), re-arm / prune / callback conventions and registries (R2),
every orbital derivative applies the armed thrust (R3).  Does NOT decide the delivered delta-v.
"""

from __future__ import annotations

import ast
import copy

from rsa import orderings as O
from rsa.cfg import cfg_of
from rsa.model import AnchorError, Undecided, call_name, unparse, walk_no_nested
from rsa.terms import inline_locals, single_defs
from rsa.util import find_calls, require

FT = "resonaate.dynamics.integration_events.finite_thrust.ScheduledFiniteThrust"
CEL = "resonaate.dynamics.celestial.Celestial"


def rule_r1(chk, p, t):
    r = chk.rule(
        "C15.R1",
        "the end time can stop the integrator",
        1,
        "end_time reaches solve_ivp as a root of the event value (through arithmetic, or through an ordering "
        "comparison that selects the returned expression) or as an integration bound; reaching it only through an "
        "equality test that returns a constant gives a zero of measure zero which a sign-change root finder cannot "
        "bracket",
        "the delivered delta-v",
    )
    cls = p.cls(FT)
    m = cls.methods.get("__call__")

    def one():
        require(m is not None, "ScheduledFiniteThrust.__call__ not found", cls.node)
        cfg = cfg_of(m)
        rets = [n for n in cfg.nodes if n.kind == "return"]
        require(rets, "no return", m.node)
        carries = False
        detail = []
        for rt in rets:
            e = inline_locals(m, rt.ast.value)
            txt = unparse(e)
            in_value = "self.end_time" in txt and not isinstance(e, ast.Constant)
            # ordering comparison on end_time selecting this return
            sel = False
            for conj in cfg.path_conditions(rt.id):
                for node, lab in conj:
                    if node.kind != "cond":
                        continue
                    ce = inline_locals(m, node.ast)
                    if "self.end_time" in unparse(ce):
                        for x in ast.walk(ce):
                            if isinstance(x, ast.Compare) and any(isinstance(o, (ast.Lt, ast.Gt, ast.LtE, ast.GtE)) for o in x.ops):
                                if not isinstance(e, ast.Constant):
                                    sel = True
            detail.append(f"return `{txt}` (end_time in value: {in_value}, selected by an ordering on end_time: {sel})")
            if in_value or sel:
                carries = True
        # or: the propagation loop bounds the integration at the burn end
        cel = p.cls(CEL)
        for nm in ("propagate", "propagateBulk"):
            pm_ = cel.methods.get(nm)
            if pm_ is None:
                continue
            for c in find_calls(pm_.node, "solve_ivp"):
                if "end_time" in unparse(c):
                    carries = True
                    detail.append(f"{nm}: integration bound mentions end_time")
        if carries:
            r.ok(m.qualname, "; ".join(detail), m.loc())
        else:
            r.violation(
                m.qualname,
                "end-time-only-under-equality",
                "the event function returns `start_time - time` (or the constant 0.0): end_time appears only under an exact-equality test, so the integrator stops at the burn end only if a step happens to land exactly on it; a burn that ends inside a step keeps thrusting until the end of that step (or until pruned). " + "; ".join(detail),
                m.loc(),
            )

    r.guard(FT + ".__call__", one)


def prep_events_forwarding(pe):
    """Are all scheduled events and station keepers handed to the integrator's event list by Celestial._prepEvents?
    Returns (ok, reason).  Accepted: `events.extend(x)`, `events = [*x, *y]`, `events += x`, or a loop over x that
    appends its element on every iteration path; a loop that can skip an element (continue / a test before the append,
    e.g. a membership test that relies on value equality of events) drops events."""
    fwd = set()
    for c in find_calls(pe.node, "extend"):
        if unparse(c.func.value) == "events" and c.args:
            fwd.add(unparse(c.args[0]))
    for n in walk_no_nested(pe.node):
        if isinstance(n, ast.Assign) and unparse(n.targets[0]) == "events" and isinstance(n.value, ast.List):
            for e_ in n.value.elts:
                if isinstance(e_, ast.Starred):
                    v_ = e_.value
                    # `*(x or ())` / `*x`
                    if isinstance(v_, ast.BoolOp) and isinstance(v_.op, ast.Or) and isinstance(v_.values[0], ast.Name):
                        v_ = v_.values[0]
                    fwd.add(unparse(v_))
        if isinstance(n, ast.Assign) and unparse(n.targets[0]) == "events":
            # `events = list(x) if x else []` / `list(x or ())` / `list(x)`
            v_ = n.value
            if isinstance(v_, ast.IfExp) and isinstance(v_.orelse, (ast.List, ast.Tuple)) and not v_.orelse.elts:
                v_ = v_.body
            if isinstance(v_, ast.Call) and call_name(v_) in ("list", "tuple") and len(v_.args) == 1:
                a_ = v_.args[0]
                if isinstance(a_, ast.BoolOp) and isinstance(a_.op, ast.Or) and isinstance(a_.values[0], ast.Name):
                    a_ = a_.values[0]
                if isinstance(a_, ast.Name):
                    fwd.add(a_.id)
        if isinstance(n, ast.AugAssign) and unparse(n.target) == "events" and isinstance(n.op, ast.Add):
            v_ = n.value
            if isinstance(v_, ast.Call) and call_name(v_) in ("list", "tuple") and v_.args:
                v_ = v_.args[0]
            fwd.add(unparse(v_))
    cfg = cfg_of(pe)
    dropped = []
    for ln in cfg.nodes:
        if ln.kind != "loop" or not isinstance(ln.ast, ast.For) or not isinstance(ln.ast.target, ast.Name):
            continue
        src = ln.ast.iter
        if isinstance(src, ast.Call) and call_name(src) in ("list", "tuple", "iter", "reversed") and src.args:
            src = src.args[0]
        var = ln.ast.target.id
        apps = [n.id for n in cfg.nodes if n.kind == "stmt" and isinstance(n.ast, ast.Expr) and isinstance(n.ast.value, ast.Call) and call_name(n.ast.value) == "append" and unparse(n.ast.value.func.value) == "events" and [unparse(a) for a in n.ast.value.args] == [var]]
        inside = [a for a in apps if any(x is cfg.nodes[a].ast for x in ast.walk(ln.ast))]
        if not inside:
            continue
        body_starts = [dst for dst, lab in cfg.succ[ln.id] if lab is True]
        # every path from the body entry back to the loop head passes an append of the loop variable
        skip = any(ln.id in cfg.reachable(b0, blocked_nodes=inside) for b0 in body_starts if b0 not in inside)
        if skip:
            dropped.append(unparse(src))
        else:
            fwd.add(unparse(src))
    want = {pe.params[2], pe.params[3]}
    if dropped:
        return False, f"an element of `{dropped[0]}` can be skipped before it is appended to the integrator's event list (a conditional append: e.g. a membership test, which relies on value equality of events that does not compare their effect)"
    if fwd >= want:
        return True, "station keeping and scheduled events are both handed to the integrator"
    return False, "scheduled events are not all added to the integrator's event list"


def rule_r2(chk, p, t):
    r = chk.rule(
        "C15.R2",
        "re-arm / prune / callback conventions and registries",
        7,
        "_prepEvents re-arms the thrust iff start < t0 < end; _applyEvents toggles the thrust from the callback of "
        "the event that fired; prunePropagateEvents keeps a burn while now < end; the callback returns None at the "
        "end and the thrust otherwise; thrust-frame and maneuver-type registries are total; burn payload slots agree",
    )
    cel = p.cls(CEL)
    pe = cel.methods.get("_prepEvents")

    def f1():
        okf, why = prep_events_forwarding(pe)
        if okf:
            r.ok(pe.qualname + ":events", why, pe.loc())
        else:
            r.violation(pe.qualname + ":events", "events-not-forwarded", why, pe.loc())
            return
        cfg = cfg_of(pe)
        sets = [n for n in cfg.nodes if n.kind == "stmt" and isinstance(n.ast, ast.Assign) and unparse(n.ast.targets[0]) == "self.finite_thrust" and unparse(n.ast.value) != "None"]
        require(len(sets) == 1, "thrust is not re-armed at exactly one place", pe.node)
        nd = sets[0]
        conds = cfg.control_conditions(nd.id)
        t0 = pe.params[1]

        def symf(e):
            txt = unparse(e)
            if txt == t0:
                return "t0"
            if txt.endswith(".start_time"):
                return "start"
            if txt.endswith(".end_time"):
                return "end"
            raise Undecided(f"unknown operand {txt}", e)

        parts = []
        isinst = False
        for cid, lab in conds:
            a = cfg.nodes[cid].ast
            if cfg.nodes[cid].kind != "cond":
                continue
            if isinstance(a, ast.Call) and call_name(a) == "isinstance":
                isinst = isinst or ("ScheduledFiniteThrust" in unparse(a) and lab is True)
                continue
            if isinstance(a, ast.Name):
                continue
            pr = O.from_ast(a, symf)
            parts.append(pr if lab else O.Not(pr))
        pred = O.And(*parts)
        bad = []
        for env in O.all_orderings(["start", "end", "t0"], O.Cmp("<=", "start", "end")):
            spec = env["start"] < env["t0"] < env["end"]
            if pred.ev(env) != spec:
                bad.append(O.describe(env))
        v = sets[0].ast.value
        okcb = isinstance(v, ast.Call) and call_name(v) == "getStateChangeCallback" and [unparse(a) for a in v.args] == [t0]
        reset = [n for n in cfg.nodes if n.kind == "stmt" and isinstance(n.ast, ast.Assign) and unparse(n.ast.targets[0]) == "self.finite_thrust" and unparse(n.ast.value) == "None"]
        ok_reset = reset and all(cfg.must_pass(nd.id, via_nodes=[x.id for x in reset]) for _ in [0])
        if bad or not isinst or not okcb or not ok_reset:
            r.violation(pe.qualname, f"re-arm:{bad}:{isinst}:{okcb}:{bool(ok_reset)}", f"_prepEvents does not re-arm the thrust exactly when start < t0 < end (differs on {bad}), for finite-thrust events only, from the event's own callback, after clearing the previous thrust", pe.loc(nd.ast))
        else:
            r.ok(pe.qualname, "thrust cleared, then re-armed iff start < t0 < end", pe.loc(nd.ast))
    r.guard(pe.qualname, f1)
    ae = cel.methods.get("_applyEvents")

    def f2():
        bad, _due, _lp = apply_events_verdict(ae)
        if bad:
            r.violation(ae.qualname, "apply-events:" + ";".join(b[:60] for b in bad), "_applyEvents no longer toggles the thrust / applies the impulse exactly for the events that fired, at their firing time: " + "; ".join(bad), ae.loc())
        else:
            r.ok(ae.qualname, "path-wise: an event that fired (reported, or due at the stop time) toggles the thrust (finite) or adds its impulse once (discrete), at its own time", ae.loc())

    r.guard(ae.qualname, f2)
    prop = cel.methods.get("propagate")

    def f3():
        from rules.C03 import propagate_loop_facts

        _facts, _layout, bad = propagate_loop_facts(prop)
        if bad:
            r.violation(prop.qualname, "restart-loop:" + ";".join(bad), "the event-restart loop of propagate is broken: " + "; ".join(bad), prop.loc())
        else:
            r.ok(prop.qualname, "solve_ivp((t, tf), events) restarted from the stop time and last column until tf (symbolic loop summary)", prop.loc())

    r.guard(prop.qualname, f3)
    ft = p.cls(FT)
    cb = ft.methods.get("getStateChangeCallback")

    def f4():
        # path-wise: on every path the returned value is None exactly when the end-of-burn test holds
        from rsa.terms import NotEvaluable, returned_exprs

        try:
            paths = returned_exprs(cb)
        except NotEvaluable as e:
            raise Undecided(f"getStateChangeCallback: {e}", cb.node)
        tm = cb.params[1]
        END = (f"fpe_equals(self.end_time - {tm}, 0.0)", f"fpe_equals({tm}, self.end_time)", f"fpe_equals(self.end_time, {tm})", f"{tm} >= self.end_time")
        ok = bool(paths)
        for e, conds in paths:
            at_end = None
            for c, pol in conds:
                if unparse(c) in END:
                    at_end = pol
            is_none = isinstance(e, ast.Constant) and e.value is None
            is_thr = unparse(e) == "self.thrust_func"
            if at_end is None or not ((at_end and is_none) or (not at_end and is_thr)):
                ok = False
        if ok:
            r.ok(cb.qualname, "None at the burn end, the thrust function otherwise (path-wise)", cb.loc())
        else:
            r.violation(cb.qualname, "callback", "getStateChangeCallback does not return None exactly at the burn end and the thrust function otherwise", cb.loc())

    r.guard(cb.qualname, f4)
    # registries
    base = p.module("resonaate.data.events.base")
    tf = p.cls("resonaate.data.events.base.ThrustFrame")

    def f5():
        members = {k: unparse(v) for k, v in tf.class_attrs.items()}
        for prop_name, exp in (("impulse", {"ECI": "ScheduledECIImpulse", "NTW": "ScheduledNTWImpulse"}), ("thrust", {"ECI": "eciBurn", "NTW": "ntwBurn"})):
            m = tf.methods.get(prop_name)
            require(m is not None, f"ThrustFrame.{prop_name} not found", tf.node)
            dflt = m.node.args.defaults[0] if m.node.args.defaults else None
            require(isinstance(dflt, ast.Dict), "registry is not a dict default", m.node)
            got = {unparse(k): unparse(v) for k, v in zip(dflt.keys, dflt.values)}
            if got == exp and set(got) == set(members):
                r.ok(f"ThrustFrame.{prop_name}", f"{got}", m.loc())
            else:
                r.violation(f"ThrustFrame.{prop_name}", f"registry:{sorted(got.items())}", f"ThrustFrame.{prop_name} maps {got}; expected {exp} over members {sorted(members)}", m.loc())
        _ = base

    r.guard("ThrustFrame", f5)
    fb = p.cls("resonaate.data.events.finite_burn.ScheduledFiniteBurnEvent")
    hb = fb.methods.get("handleEvent")

    def f6():
        txt = unparse(hb.node)
        ctor = [c for c in walk_no_nested(hb.node) if isinstance(c, ast.Call) and call_name(c) == "ScheduledFiniteBurn"]
        require(len(ctor) == 1, "handleEvent does not build one ScheduledFiniteBurn", hb.node)
        c = ctor[0]
        defs = single_defs(hb.node)
        args = [unparse(a) for a in c.args]
        kws = {k.arg: unparse(k.value) for k in c.keywords}
        a0 = args[0] if args else kws.get("start_time")
        a1 = args[1] if len(args) > 1 else kws.get("end_time")
        d0 = unparse(defs.get(a0)) if a0 in defs else a0
        d1 = unparse(defs.get(a1)) if a1 in defs else a1
        ok = "start" in (a0 or "") and "end" in (a1 or "") and "convertToScenarioTime(scope_instance.julian_date_start)" in (d0 or "") and "convertToScenarioTime(scope_instance.julian_date_start)" in (d1 or "")
        srcs = {}
        for n in walk_no_nested(hb.node):
            if isinstance(n, ast.Assign) and isinstance(n.value, ast.Call) and call_name(n.value) == "JulianDate":
                srcs[unparse(n.targets[0])] = unparse(n.value.args[0])
        ok = ok and any(v == "self.start_time_jd" for v in srcs.values()) and any(v == "self.end_time_jd" for v in srcs.values())
        app = find_calls(hb.node, "appendPropagateEvent")
        ok = ok and len(app) == 1
        vec = [n for n in walk_no_nested(hb.node) if isinstance(n, ast.Call) and call_name(n) == "array" and "acc_vec_0" in unparse(n)]
        ok_vec = vec and unparse(vec[0].args[0]) == "[self.acc_vec_0, self.acc_vec_1, self.acc_vec_2]"
        if ok and ok_vec:
            r.ok(hb.qualname, "burn queued over [start, end] in scenario seconds with the stored acceleration vector", hb.loc())
        else:
            r.violation(hb.qualname, f"burn-event:{a0}:{a1}:{bool(ok_vec)}", "the finite-burn event does not queue a burn over its own [start_time_jd, end_time_jd] converted with the agent's start date, with its own acceleration vector", hb.loc())
        _ = txt

    r.guard(hb.qualname, f6)
    prune = p.func("Agent.prunePropagateEvents")

    def f7():
        cfg = cfg_of(prune)
        conts = [n for n in cfg.nodes if n.kind == "stmt" and isinstance(n.ast, ast.Continue)]
        isin = [n for n in cfg.nodes if n.kind == "cond" and isinstance(n.ast, ast.Call) and call_name(n.ast) == "isinstance" and "ScheduledFinite" in unparse(n.ast)]
        require(isin, "no finite-thrust branch in prunePropagateEvents", prune.node)
        apps = [n for n in cfg.nodes if n.kind == "stmt" and isinstance(n.ast, ast.Expr) and isinstance(n.ast.value, ast.Call) and call_name(n.ast.value) == "append"]
        loop = [n for n in cfg.nodes if n.kind == "loop"][0]
        var = loop.ast.target.id

        def symf(e):
            txt = unparse(e)
            if txt in ("self._time", "self.time"):
                return "now"
            if txt == f"{var}.end_time":
                return "end"
            if txt == f"{var}.time":
                return "time"
            raise Undecided(f"unknown operand {txt}", e)

        disj = []
        for ap in apps:
            for conj in cfg.path_conditions(ap.id, start=loop.id, start_label=True):
                parts = []
                dead = False
                for node, lab in conj:
                    if node.kind != "cond":
                        continue
                    if node in isin:
                        if lab is not True:
                            dead = True
                        continue
                    a = node.ast
                    if isinstance(a, ast.Compare) and isinstance(a.ops[0], (ast.In, ast.NotIn)):
                        if lab != isinstance(a.ops[0], ast.NotIn):
                            dead = True
                        continue
                    pr = O.from_ast(a, symf)
                    parts.append(pr if lab else O.Not(pr))
                if not dead:
                    disj.append(O.And(*parts))
        keep = O.Or(*disj)
        bad = []
        for env in O.weak_orderings(["now", "end"]):
            spec = env["now"] < env["end"]
            if keep.ev(env) != spec:
                bad.append(O.describe(env))
        if bad:
            r.violation(prune.qualname + ":finite", f"finite-retention:{bad}", f"a finite burn is kept / dropped wrongly on orderings {bad} of (now, end): it must stay queued exactly while now < end", prune.loc())
        else:
            r.ok(prune.qualname + ":finite", "kept exactly while now < end", prune.loc())
        _ = conts

    r.guard(prune.qualname + ":finite", f7)


def rule_r3(chk, p, t):
    r = chk.rule(
        "C15.R3",
        "every orbital derivative applies the armed thrust",
        2,
        "each Celestial._differentialEquation adds self.finite_thrust(state)[:3] to the acceleration of the same "
        "state when a thrust is armed (sibling agreement)",
    )
    cel = p.cls(CEL)
    impls = [m for m in p.overriders(cel, "_differentialEquation") if m.cls is not cel]
    if len(impls) < 2:
        r.error(CEL, f"only {len(impls)} derivative implementations found (2 confirmed by hand)")
    for m in impls:

        def one(m=m):
            cfg = cfg_of(m)
            conds = [n for n in cfg.nodes if n.kind == "cond" and unparse(n.ast) in ("self.finite_thrust", "self.finite_thrust is not None")]
            uses = [n for n in cfg.nodes if n.kind == "stmt" and isinstance(n.ast, ast.AugAssign) and isinstance(n.ast.op, ast.Add) and "self.finite_thrust(" in unparse(n.ast.value)]
            if not conds or not uses:
                r.violation(m.qualname, "thrust-not-applied", f"{m.cls.name}._differentialEquation never adds the armed finite thrust to the acceleration: under this dynamics model a finite burn or maneuver stops the integrator at its start and then has no effect", m.loc())
                return
            u = uses[0]
            ok = cfg.must_pass(u.id, via_edges=[(conds[0].id, True)]) and unparse(u.ast.value).endswith("[:3]")
            # inside the per-state loop and applied to the derivative / perturbation of the same state
            loops = [n for n in cfg.nodes if n.kind == "loop"]
            ok = ok and loops and any(any(x is u.ast for x in ast.walk(lp.ast)) for lp in loops)
            tgt = unparse(u.ast.target)
            ok = ok and (tgt.startswith("derivative[jj + half") or tgt == "a_perturbations")
            # the thrust law is evaluated on the inertial position and velocity of this very state
            calls = [c for c in ast.walk(u.ast.value) if isinstance(c, ast.Call) and unparse(c.func) == "self.finite_thrust"]
            st = m.params[2] if len(m.params) > 2 else "state"
            arg_ok = False
            if len(calls) == 1 and len(calls[0].args) == 1:
                a = inline_locals(m, calls[0].args[0])
                if isinstance(a, ast.Call) and call_name(a) == "concatenate" and a.args and isinstance(a.args[0], (ast.Tuple, ast.List)) and len(a.args[0].elts) == 2:
                    rr, vv = [unparse(x) for x in a.args[0].elts]
                    want_r = unparse(inline_locals(m, ast.parse(f"{st}[jj:jj + half:step]", mode="eval").body))
                    want_v = unparse(inline_locals(m, ast.parse(f"{st}[jj + half::step]", mode="eval").body))
                    arg_ok = rr == want_r and vv == want_v
                if not arg_ok:
                    r.violation(m.qualname + ":argument", f"thrust-argument:{unparse(a)[:70]}", f"the armed thrust is evaluated on `{unparse(a)[:90]}`: the thrust frames (NTW, ECI) are built from the inertial position and velocity of the same state, `concatenate(({st}[jj:jj + half:step], {st}[jj + half::step]))` - an Earth-fixed position or another state's slice rotates the radial and cross-track thrust components", m.loc(u.ast))
                    return
            if ok:
                r.ok(m.qualname, f"`{unparse(u.ast)[:80]}` under `if self.finite_thrust`", m.loc(u.ast))
            else:
                r.violation(m.qualname, f"thrust-application:{unparse(u.ast)[:60]}", f"the thrust is applied as `{unparse(u.ast)[:80]}`: expected the first three components added to this state's acceleration when armed", m.loc(u.ast))

        r.guard(m.qualname, one)


def _const_lb(e):
    """Value of a constant expression over float literals and numpy's finfo(float) fields, else None."""
    FINFO = {"resolution": 1e-15, "eps": 2.220446049250313e-16, "tiny": 2.2250738585072014e-308, "smallest_normal": 2.2250738585072014e-308}
    if isinstance(e, ast.Constant) and isinstance(e.value, (int, float)) and not isinstance(e.value, bool):
        return float(e.value)
    if isinstance(e, ast.Attribute) and isinstance(e.value, ast.Call) and call_name(e.value) == "finfo" and e.attr in FINFO:
        return FINFO[e.attr]
    if isinstance(e, ast.BinOp) and isinstance(e.op, (ast.Mult, ast.Div, ast.Add)):
        a, b = _const_lb(e.left), _const_lb(e.right)
        if a is None or b is None:
            return None
        if isinstance(e.op, ast.Mult):
            return a * b
        if isinstance(e.op, ast.Add):
            return a + b
        return a / b if b else None
    return None


def rule_r4(chk, p, t):
    r = chk.rule(
        "C15.R4",
        "the restart after an event leaves the event's zero zone",
        3,
        "event functions report 0 for every time within the absolute tolerance of fpe_equals of their event time; the "
        "propagation loops restart the integrator `just past` an event. The restart increment must be bounded below "
        "by that absolute tolerance: one unit in the last place (numpy.spacing) is smaller than it for |t| < 4.5 s and "
        "is 5e-324 at t == 0, so a burn that starts at the scenario start re-triggers for ever and the run hangs",
        "termination of the integrator itself",
    )
    fe = p.func("resonaate.physics.maths.fpe_equals")
    rets = [n for n in walk_no_nested(fe.node) if isinstance(n, ast.Return)]
    require(len(rets) == 1 and isinstance(rets[0].value, ast.Compare), "fpe_equals is not a single comparison", fe.node)
    cmp_ = rets[0].value
    tol = unparse(cmp_.comparators[0])
    absolute = isinstance(cmp_.ops[0], (ast.Lt, ast.LtE)) and "fabs" in unparse(cmp_.left) + "abs" and not any(isinstance(n, ast.Name) and n.id in fe.params for n in ast.walk(cmp_.comparators[0]))
    if not absolute:
        raise Undecided(f"fpe_equals is not an absolute-tolerance test (`{unparse(cmp_)}`)", cmp_)
    r.ok(fe.qualname, f"absolute tolerance `{tol}`", fe.loc())
    # event functions with a zero zone
    zoned = []
    for fi in p.all_functions():
        if fi.name == "__call__" and fi.module.name.startswith("resonaate.dynamics.integration_events"):
            for n in walk_no_nested(fi.node):
                if isinstance(n, ast.If) and any(isinstance(c, ast.Call) and call_name(c) == "fpe_equals" for c in ast.walk(n.test)) and any(isinstance(b, ast.Return) and isinstance(b.value, ast.Constant) and b.value.value in (0, 0.0) for b in n.body):
                    zoned.append(fi)
                    break
    if not zoned:
        r.trivial("event-functions", "no event function returns 0 inside a tolerance zone")
        return
    cel = p.cls(CEL)
    n_sites = 0
    for mname in ("propagate", "propagateBulk"):
        m = cel.methods.get(mname)
        require(m is not None, f"Celestial.{mname} not found", cel.node)
        sites = []
        if mname == "propagate":
            from rules.C03 import propagate_loop_facts

            facts, _l, _r = propagate_loop_facts(m)
            if facts.get("increment") is not None:
                sites.append((facts["loop"], facts["increment"], "solution.t[-1]"))
        for n in walk_no_nested(m.node) if mname != "propagate" else []:
            if isinstance(n, ast.AugAssign) and isinstance(n.op, ast.Add) and isinstance(n.target, ast.Name) and (n.target.id.endswith("_time") or n.target.id == "time"):
                sites.append((n, n.value, unparse(n.target)))
            if isinstance(n, ast.Assign) and isinstance(n.targets[0], ast.Name) and (n.targets[0].id.endswith("_time") or n.targets[0].id == "time") and isinstance(n.value, ast.BinOp) and isinstance(n.value.op, ast.Add) and "solution.t" in unparse(n.value.left):
                sites.append((n, n.value.right, unparse(n.value.left)))
        for st, inc, base in sites:
            n_sites += 1
            cons = f"{m.qualname}:restart"
            e = inc
            # through a helper: inline its single return
            if isinstance(e, ast.Call):
                for tg in t.callees(e, m):
                    if hasattr(tg, "node") and isinstance(tg.node, ast.FunctionDef):
                        rr = [x for x in walk_no_nested(tg.node) if isinstance(x, ast.Return)]
                        if len(rr) == 1 and rr[0].value is not None:
                            e = inline_locals(tg, rr[0].value)
                            break
            txt = unparse(e)
            tol_v = _const_lb(cmp_.comparators[0])
            if tol_v is None:
                raise Undecided(f"the tolerance `{tol}` of fpe_equals is not a known constant", cmp_)
            lbs = [_const_lb(a) for a in e.args] if isinstance(e, ast.Call) and call_name(e) in ("max", "maximum", "fmax") else [_const_lb(e)]
            floor_ok = any(v is not None and v >= tol_v for v in lbs)
            if floor_ok:
                r.ok(cons, f"restart at `{base} + {txt}`: at least the zero-zone tolerance", m.loc(st))
            else:
                r.violation(cons, f"restart-inside-zero-zone:{txt}", f"after an event the loop restarts at `{base} + {txt}`; {', '.join(sorted({z.cls.name if z.cls else z.name for z in zoned}))} report 0 within {tol} (absolute) of their event time, and this increment is below that for small times (5e-324 at 0): an event at the start of the scenario re-triggers for ever - the step never completes", m.loc(st))
    if n_sites < 2:
        r.error("restart-sites", f"{n_sites} restart increments found in Celestial.propagate / propagateBulk (2 confirmed by hand)")


def rule_r5(chk, p, t):
    """Producer side of the thrust law: the consumer (R3) reads `finite_thrust(state)[:3]`."""
    from rsa.terms import NotEvaluable, returned_exprs

    r = chk.rule(
        "C15.R5",
        "thrust laws put the configured acceleration on the documented axis",
        4,
        "every function a finite burn / maneuver may carry (the _VALID_THRUST_FUNCS tuples) returns a 6-vector whose first "
        "three slots hold the acceleration (the derivative reads [:3]) and whose last three are zero: the inertial burn "
        "returns the configured vector itself, the NTW burn hands the whole configured vector to ntw2eci with the state it "
        "was given, the spiral law thrusts along the in-track axis (slot 1), the plane-change law along the cross-track axis "
        "(slot 2) with the sign flipped in the southern hemisphere only; ntw2eci itself is the orthonormal right-handed "
        "NTW triad of that state (shared with C04.R9)",
        "the delivered delta-v as a number",
    )
    FT = "resonaate.dynamics.integration_events.finite_thrust"
    mod = p.module(FT)
    funcs = set()
    for cname in ("ScheduledFiniteManeuver", "ScheduledFiniteBurn"):
        ci = p.cls(f"{FT}.{cname}")
        _own, tup = p.lookup_class_attr(ci, "_VALID_THRUST_FUNCS")
        require(tup is not None and isinstance(tup, (ast.Tuple, ast.List)), f"{cname}._VALID_THRUST_FUNCS is not a tuple literal", ci.node)
        for e in tup.elts:
            require(isinstance(e, ast.Name), "thrust function is not a plain name", e)
            funcs.add(e.id)
    if len(funcs) < 4:
        r.error(FT, f"{len(funcs)} thrust laws registered (4 confirmed by hand)")
    SPEC = {
        "eciBurn": ("eci", None),
        "ntwBurn": ("ntw", None),
        "spiralThrust": ("ntw", 1),
        "planeChangeThrust": ("ntw", 2),
    }
    _ = mod
    for name in sorted(funcs):
        fn = p.func(f"{FT}.{name}")

        def one(fn=fn, name=name):
            spec = SPEC.get(name)
            if spec is None:
                raise Undecided(f"thrust law `{name}` has no row in the rule's table (new law: add its documented axis)", fn.node)
            frame, axis = spec
            st, par = fn.params[0], fn.params[1]
            try:
                rets = returned_exprs(fn)
            except NotEvaluable as e:
                raise Undecided(f"{name}: {e}", fn.node)
            require(rets, f"{name}: no return", fn.node)
            bad = []
            seen_signs = set()
            for e, conds in rets:
                vec = e
                if frame == "ntw":
                    if not (isinstance(e, ast.Call) and call_name(e) == "ntw2eci" and len(e.args) == 2):
                        bad.append(f"returns `{unparse(e)[:70]}` instead of ntw2eci(state, vector)")
                        continue
                    if unparse(e.args[0]) != st:
                        bad.append(f"the NTW frame is built from `{unparse(e.args[0])[:50]}`, not from the state the law was given")
                    vec = e.args[1]
                if not (isinstance(vec, ast.Call) and call_name(vec) in ("concatenate", "hstack") and vec.args and isinstance(vec.args[0], (ast.Tuple, ast.List)) and len(vec.args[0].elts) == 2):
                    bad.append(f"the thrust vector `{unparse(vec)[:70]}` is not concatenate((acceleration, zeros(3)))")
                    continue
                acc, tail = vec.args[0].elts
                if not (isinstance(tail, ast.Call) and call_name(tail) == "zeros" and unparse(tail.args[0]) == "3"):
                    bad.append(f"the last three slots are `{unparse(tail)[:40]}`, not zeros(3): the acceleration must sit in slots [:3]")
                if axis is None:
                    if unparse(acc) != par:
                        bad.append(f"the acceleration slots hold `{unparse(acc)[:60]}`, not the configured vector `{par}`")
                else:
                    lit = acc.args[0] if isinstance(acc, ast.Call) and call_name(acc) in ("array", "asarray") and acc.args else acc
                    if not (isinstance(lit, (ast.List, ast.Tuple)) and len(lit.elts) == 3):
                        bad.append(f"the acceleration `{unparse(acc)[:60]}` is not a 3-element literal")
                        continue
                    for i, x in enumerate(lit.elts):
                        if i == axis:
                            sgn = 1
                            if isinstance(x, ast.UnaryOp) and isinstance(x.op, ast.USub):
                                sgn, x = -1, x.operand
                            if unparse(x) != par:
                                bad.append(f"slot {i} of the NTW acceleration is `{unparse(x)[:40]}`, not the configured magnitude")
                            cond_txt = ";".join(f"{unparse(c)}={pol}" for c, pol in conds)
                            seen_signs.add((sgn, cond_txt))
                        elif not (isinstance(x, ast.Constant) and x.value == 0):
                            bad.append(f"slot {i} of the NTW acceleration is `{unparse(x)[:40]}`, the law thrusts along axis {axis} only")
            if name == "planeChangeThrust" and not bad:
                want = {(1, f"{st}[2] >= 0=True"), (-1, f"{st}[2] >= 0=False")}
                if seen_signs != want:
                    bad.append(f"sign / hemisphere cases {sorted(seen_signs)} (documented: +magnitude when z >= 0, -magnitude otherwise)")
            if name == "spiralThrust" and not bad and {s for s, _c in seen_signs} != {1}:
                bad.append("the in-track acceleration is negated")
            if bad:
                r.violation(fn.qualname, "thrust-law:" + ";".join(sorted(set(b[:50] for b in bad))), f"{name}: " + "; ".join(sorted(set(bad))), fn.loc())
            else:
                r.ok(fn.qualname, f"{'inertial' if frame == 'eci' else 'NTW'} law, acceleration in slots [:3]" + (f", axis {axis}" if axis is not None else ""), fn.loc())

        r.guard(fn.qualname, one)
    from rules import C04

    C04.rule_r9(chk, p, t, rid="C15.R6", only=("ntw2eci",))


LOSSY_TIME_OPS = {"round", "int", "floor", "ceil", "trunc", "around", "rint", "fix"}


def rule_r7(chk, p, t, rid="C15.R7", events=(("finite_burn.ScheduledFiniteBurnEvent", "ScheduledFiniteBurn", ("start", "end")), ("finite_maneuver.ScheduledFiniteManeuverEvent", "ScheduledFiniteManeuver", ("start", "end")))):
    """Times of a stored event reach the integration event un-quantised and in their own slots."""
    from rsa.terms import inline_locals

    r = chk.rule(
        rid,
        "configured event times reach the integrator un-quantised, each in its own slot",
        len(events),
        "in every handleEvent of a propagation-scope event the time arguments of the integration event it queues are "
        "`JulianDate(self.start_time_jd | self.end_time_jd).convertToScenarioTime(<agent>.julian_date_start)` - the stored "
        "Julian date of that very bound converted against the agent's own start date - with no rounding / truncating "
        "operator (round, int, floor, //, % ...) anywhere on the way (helpers inlined): a burn configured with a "
        "fractional-second offset thrusts over the interval it was given, not over one snapped to a grid; start feeds the "
        "start slot and end the end slot",
        "the 40 microsecond resolution of a double-precision Julian date",
    )
    for cq, ctor, slots in events:
        ci = p.cls(f"resonaate.data.events.{cq}")
        h = ci.methods.get("handleEvent")
        cons = f"{ci.name}.handleEvent"
        if h is None:
            r.error(cons, "vanished anchor")
            continue

        def one(ci=ci, h=h, ctor=ctor, slots=slots, cons=cons):
            scope = h.params[1]
            calls = [c for c in walk_no_nested(h.node) if isinstance(c, ast.Call) and (call_name(c) == ctor or (ctor == "impulse" and isinstance(c.func, ast.Attribute) and c.func.attr == "impulse"))]
            require(len(calls) == 1, f"{cons}: one `{ctor}(...)` construction expected", h.node)
            c = calls[0]
            bad = []
            for i, which in enumerate(slots):
                require(i < len(c.args), f"{cons}: time argument {i} missing", c)
                e = inline_locals(h, c.args[i])
                # inline single-return module-level helpers (e.g. a shared conversion helper)
                for _ in range(3):
                    changed = False
                    for sub in list(ast.walk(e)):
                        if isinstance(sub, ast.Call) and isinstance(sub.func, ast.Name):
                            tg = [x for x in t.callees(sub, h) if hasattr(x, "node") and isinstance(x.node, ast.FunctionDef)]
                            if len(tg) == 1 and tg[0].cls is None:
                                rets = [x for x in walk_no_nested(tg[0].node) if isinstance(x, ast.Return) and x.value is not None]
                                if len(rets) == 1 and len(tg[0].params) == len(sub.args) and not sub.keywords:
                                    body = inline_locals(tg[0], rets[0].value)
                                    m = dict(zip(tg[0].params, sub.args))

                                    class S(ast.NodeTransformer):
                                        def visit_Name(self, nn):
                                            return copy.deepcopy(m[nn.id]) if nn.id in m else nn

                                    new = S().visit(copy.deepcopy(body))

                                    class R(ast.NodeTransformer):
                                        def visit_Call(self, nn):
                                            if nn is sub:
                                                return new
                                            return self.generic_visit(nn)

                                    e = R().visit(e)
                                    changed = True
                                    break
                    if not changed:
                        break
                lossy = sorted({call_name(x) for x in ast.walk(e) if isinstance(x, ast.Call) and call_name(x) in LOSSY_TIME_OPS} | {type(x.op).__name__ for x in ast.walk(e) if isinstance(x, ast.BinOp) and isinstance(x.op, (ast.FloorDiv, ast.Mod))})
                # strip identity wrappers
                core = e
                while isinstance(core, ast.Call) and call_name(core) in ("ScenarioTime", "float") and len(core.args) == 1:
                    core = core.args[0]
                want = f"JulianDate(self.{which}_time_jd).convertToScenarioTime({scope}.julian_date_start)"
                if lossy:
                    bad.append(f"the {which} time passes through {lossy} (`{unparse(e)[:90]}`): a {which} configured with a fractional-second offset is moved to a whole second, so the thrust interval is not the configured one")
                elif unparse(core) != want:
                    other = "end" if which == "start" else "start"
                    if unparse(core) == f"JulianDate(self.{other}_time_jd).convertToScenarioTime({scope}.julian_date_start)":
                        bad.append(f"the {which} slot receives the event's {other} time")
                    else:
                        bad.append(f"the {which} time is `{unparse(core)[:90]}`, expected `{want}`")
            if bad:
                r.violation(cons, "event-time:" + ";".join(b[:60] for b in bad), f"{cons}: " + "; ".join(bad), h.loc(c))
            else:
                r.ok(cons, f"{ctor}({', '.join(slots)}) from the stored Julian dates, un-quantised", h.loc(c))

        r.guard(cons, one)


def run(chk, p, t):
    chk.explanation = (
        "Static decision of structural necessary conditions of C15: (R1) taint of the burn's end time through the "
        "event function shows whether it can produce a sign change or an integration bound (an equality test that "
        "returns a constant cannot stop a root-finding integrator); (R2) the re-arm / retention predicates are "
        "evaluated on all weak orderings of (start, end, t0 / now) against their interval specification, the restart "
        "loop, callback and registries have their documented shape; (R3) every orbital derivative applies the armed "
        "thrust; (R4) the restart after an event steps beyond the absolute zero zone of the event functions. NOT "
        "decided: the delivered delta-v."
    )
    chk.assumptions += ["scipy.integrate.solve_ivp stops only on sign changes of a terminal event function or at the end of t_span"]
    for fn in (rule_r1, rule_r2, rule_r3, rule_r4, rule_r5, rule_r7, rule_r8):
        rid = "C15.R" + fn.__name__[-1]
        if not chk.wants(rid):
            continue
        try:
            fn(chk, p, t)
        except (Undecided, AnchorError) as e:
            rr = chk.rule(rid + ".x", fn.__name__, 0, "-")
            (rr.undecided if isinstance(e, Undecided) else rr.error)(fn.__name__, str(e))


def rule_r8(chk, p, t):
    # a burn reaches its target only if the step's window query result is delivered, to the addressed agent, for every
    # event of the query and whatever its start (a burn that starts at or before the scenario start is returned by the
    # first window): shared instance of C01.R3
    from rules import C01

    C01.rule_r3(chk, p, t, rid="C15.R8")


# ---------------------------------------------------------------------------------- path-wise reading of _applyEvents
class _BodyFn:
    """A loop body wrapped as a function for the path machinery (`continue` becomes `return`)."""

    def __init__(self, node, name):
        self.node = node
        self.name = name
        self.qualname = name


def apply_events_paths(ae):
    """Per-event semantics of `Celestial._applyEvents`, read path-wise from the body of its loop over the events.

    Returns (paths, own, complaints) where each path is a dict: `reported` (True / False / None: polarity of the test
    "the integrator reported a time for THIS event"), `due` (the event function evaluated at the stop time compared
    `== 0`: True / False / None, with the stop-time expression), `thrust` (time expression handed to
    getStateChangeCallback, or None), `impulse` (list of time expressions handed to getStateChange in `state += ...`),
    `finite` (polarity of isinstance(event, ScheduledFiniteThrust) or None)."""
    import copy

    from rsa.terms import NotEvaluable, inline_locals, path_states

    te, evs, stp = ae.params[1], ae.params[2], ae.params[3]
    loops = [n for n in walk_no_nested(ae.node) if isinstance(n, ast.For)]
    require(len(loops) >= 1, "_applyEvents does not loop over the events", ae.node)
    lp = [l for l in loops if evs in unparse(l.iter)]
    require(len(lp) == 1, "one loop over the events expected", ae.node)
    lp = lp[0]
    it = lp.iter
    ev_name = own = None
    if isinstance(it, ast.Call) and call_name(it) == "enumerate" and unparse(it.args[0]) == evs and isinstance(lp.target, ast.Tuple) and len(lp.target.elts) == 2:
        idx, ev_name = lp.target.elts[0].id, lp.target.elts[1].id
        own = f"{te}[{idx}]"
    elif isinstance(it, ast.Call) and call_name(it) == "zip" and len(it.args) == 2 and isinstance(lp.target, ast.Tuple):
        names = [unparse(a) for a in it.args]
        if set(names) == {evs, te}:
            ev_name = lp.target.elts[names.index(evs)].id
            own = lp.target.elts[names.index(te)].id
    if ev_name is None:
        raise Undecided(f"_applyEvents: the loop iterates `{unparse(it)}`, not the events paired with their reported times", lp)

    class C2R(ast.NodeTransformer):
        def visit_Continue(self, n):
            return ast.copy_location(ast.Return(value=None), n)

        def visit_For(self, n):
            return n  # inner loops keep their own continue

    body = [C2R().visit(copy.deepcopy(s_)) for s_ in lp.body]
    fn = ast.FunctionDef(name="_body", args=ast.arguments(posonlyargs=[], args=[], kwonlyargs=[], kw_defaults=[], defaults=[]), body=body, decorator_list=[], lineno=lp.lineno, col_offset=0)
    ast.fix_missing_locations(fn)
    try:
        states = path_states(_BodyFn(fn, ae.qualname + ":body"), max_paths=256)
    except NotEvaluable as e:
        raise Undecided(f"_applyEvents: loop body not loop-free ({e})", lp)

    def is_stop(e):
        txt = unparse(inline_locals(ae, e))
        return "max(" in txt and f"for times in {te} if times.size > 0" in txt and "times[-1]" in txt

    # function-level single definitions (the stop time computed before the loop) are inlined into every path, then
    # conditional expressions are split consistently across conditions and bindings, and contradictory paths dropped
    def inl(e):
        return inline_locals(ae, e)

    work = []
    for stt in states:
        work.append(dict(conds=[(inl(c), pol) for c, pol in stt["conds"]], env={k: inl(v) for k, v in stt["env"].items()}))
    states = []
    while work:
        cur = work.pop()
        exprs = [c for c, _p in cur["conds"]] + list(cur["env"].values())
        ife = next((n for e_ in exprs for n in ast.walk(e_) if isinstance(n, ast.IfExp)), None)
        if ife is None or len(states) + len(work) > 2000:
            states.append(cur)
            continue
        ttxt = unparse(ife.test)
        for pol in (True, False):

            class R2(ast.NodeTransformer):
                def visit_IfExp(self, n):
                    n = self.generic_visit(n)
                    if isinstance(n, ast.IfExp) and unparse(n.test) == ttxt:
                        return n.body if pol else n.orelse
                    return n

            work.append(dict(conds=[(R2().visit(copy.deepcopy(c)), p_) for c, p_ in cur["conds"]] + [(copy.deepcopy(ife.test), pol)], env={k: R2().visit(copy.deepcopy(v)) for k, v in cur["env"].items()}))

    def feasible(stt):
        seen = {}
        for c, pol in stt["conds"]:
            txt = unparse(c)
            neg = False
            while txt.startswith("not "):
                neg, txt = not neg, txt[4:].strip()
                if txt.startswith("(") and txt.endswith(")"):
                    txt = txt[1:-1]
            eff = pol != neg
            if txt.endswith(" is not None"):
                txt, eff = txt[: -len(" is not None")] + " is None", not eff
            if txt.endswith(" is None") and txt != "None is None":
                opnd = c
                while isinstance(opnd, ast.UnaryOp):
                    opnd = opnd.operand
                left = opnd.left if isinstance(opnd, ast.Compare) else None
                # an element of the reported times / the maximum of a non-empty list of them is a number, never None
                if isinstance(left, ast.Subscript) or (isinstance(left, ast.Call) and call_name(left) == "max"):
                    if eff:
                        return False
                    continue
            const = {"None is None": True, "None is not None": False}.get(txt)
            if const is not None and const != eff:
                return False
            if txt in seen and seen[txt] != eff:
                return False
            seen[txt] = eff
        # emptiness of the stop-time list is tied to whether any event reported: nothing to decide here
        return True

    states = [s_ for s_ in states if feasible(s_)]
    paths = []
    for stt in states:
        rec = dict(reported=None, due=None, finite=None, thrust=None, impulse=[], stop_guard=None, conds=[unparse(c) + "=" + str(pol) for c, pol in stt["conds"]])
        for c, pol in stt["conds"]:
            txt = unparse(c)
            if txt in (f"{own}.size > 0", f"{own}.size != 0", f"len({own}) > 0", f"{own}.size"):
                rec["reported"] = pol
            elif txt in (f"{own}.size == 0", f"len({own}) == 0"):
                rec["reported"] = not pol
            elif isinstance(c, ast.Call) and call_name(c) == "isinstance" and "ScheduledFiniteThrust" in txt and unparse(c.args[0]) == ev_name:
                rec["finite"] = pol
            elif isinstance(c, ast.Compare) and len(c.ops) == 1 and isinstance(c.left, ast.Call) and unparse(c.left.func) == ev_name and unparse(c.comparators[0]) in ("0.0", "0"):
                eq = isinstance(c.ops[0], ast.Eq)
                if isinstance(c.ops[0], (ast.Eq, ast.NotEq)) and c.left.args and is_stop(c.left.args[0]) and unparse(c.left.args[1]) == f"{stp}[:, 0]":
                    rec["due"] = pol if eq else not pol
        ft = stt["env"].get("self.finite_thrust")
        if ft is not None:
            if isinstance(ft, ast.Call) and call_name(ft) == "getStateChangeCallback" and unparse(ft.func.value) == ev_name and len(ft.args) == 1:
                rec["thrust"] = ft.args[0]
            else:
                rec["thrust"] = ft
        st_new = stt["env"].get(stp)
        # impulses: `state += event.getStateChange(t, state[:, 0])[:, None]`, possibly through an alias of the state
        def impulses(e, acc):
            if isinstance(e, ast.BinOp) and isinstance(e.op, ast.Add):
                impulses(e.left, acc)
                r_ = e.right
                if isinstance(r_, ast.Subscript) and isinstance(r_.value, ast.Call) and call_name(r_.value) == "getStateChange" and unparse(r_.value.func.value) == ev_name:
                    acc.append(r_.value)
                else:
                    acc.append(r_)
            return acc

        if st_new is not None:
            rec["impulse"] = impulses(st_new, [])
        paths.append(rec)
    return paths, own, lp


def apply_events_verdict(ae):
    """Complaints (list of str) about _applyEvents read path-wise; empty when, for every event: it is applied iff the
    integrator reported it or it is due (event function zero) at the stop time; at its own last reported time resp. the
    stop time; a finite thrust toggles the thrust callback, any other event adds its state change exactly once."""
    paths, own, lp = apply_events_paths(ae)
    stp = ae.params[3]
    bad = []
    n_applied = 0
    seen_due = False

    def time_ok(e, rec):
        txt = unparse(e)
        if rec["reported"] is True:
            return txt == f"{own}[-1]"
        from rsa.terms import inline_locals

        t2 = unparse(inline_locals(ae, e))
        return "max(" in t2 and "times[-1]" in t2

    for rec in paths:
        applied = rec["thrust"] is not None or bool(rec["impulse"])
        if rec["reported"] is True and not applied:
            bad.append("an event the integrator reported is not applied on some path")
        if applied:
            n_applied += 1
            if rec["reported"] is not True and rec["due"] is not True:
                bad.append(f"an event is applied although it was neither reported nor due at the stop time (path: {rec['conds'][:4]})")
            if rec["due"] is True:
                seen_due = True
            if rec["thrust"] is not None and rec["impulse"]:
                bad.append("one path both toggles the thrust and adds an impulse")
            if rec["thrust"] is not None:
                if rec["finite"] is not True:
                    bad.append("the thrust callback is set for an event that is not a finite thrust")
                elif not (isinstance(rec["thrust"], ast.AST) and time_ok(rec["thrust"], rec)):
                    bad.append(f"the thrust callback is taken at `{unparse(rec['thrust'])[:50]}`, not at the event's own firing time")
            if rec["impulse"]:
                if rec["finite"] is not False:
                    bad.append("a state change is added for a finite-thrust event")
                if len(rec["impulse"]) != 1:
                    bad.append(f"a fired impulse is added {len(rec['impulse'])} times on one path")
                else:
                    c = rec["impulse"][0]
                    if not (isinstance(c, ast.Call) and len(c.args) == 2 and time_ok(c.args[0], rec) and unparse(c.args[1]) == f"{stp}[:, 0]"):
                        bad.append(f"the impulse is `{unparse(c)[:70]}`, not getStateChange(firing time, state[:, 0])")
    if n_applied == 0:
        bad.append("no path applies an event")
    return sorted(set(bad)), seen_due, lp
