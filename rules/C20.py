"""C20 - Lambert solutions and orbit determination reproduce the arc they were given.

Decides (narrow): the radar-observation inversion is the reversed inverse chain of the measurement
model with kind-correct argument slots (R1), vector-shape discipline of the IOD pipeline (a
3-vector never reaches an unguarded velocity slice) (R2), slot / epoch agreement of the IOD
pipeline and of the Lambert f-g velocity reconstruction (R3).  Does NOT decide the Lambert
iterations (boundary-value numerics) - the larger part of the property.
"""

from __future__ import annotations

import ast

from rsa.cfg import cfg_of
from rsa.model import AnchorError, Undecided, call_name, unparse, walk_no_nested
from rsa.terms import canon, inline_locals, single_defs
from rsa.util import find_calls, require

METHODS = "resonaate.physics.transforms.methods"
IOD = "resonaate.estimation.initial_orbit_determination"
LAM = "resonaate.physics.orbit_determination.lambert"


def rule_r1(chk, p, t):
    r = chk.rule(
        "C20.R1",
        "radar observation inversion chain",
        4,
        "radarObs2eciPosition = sensor position + sez2eci(razel2sez(range, elevation, azimuth, 0, 0, 0), lat, lon of "
        "the sensor at the observation instant): the reversed inverse chain of getSlantRangeVector + (azimuth, "
        "elevation, range), with each observed quantity in the slot of its kind",
    )
    fn = p.func(f"{METHODS}.radarObs2eciPosition")

    COMPOSITES = ("sez2eci", "eci2sez", "lla2eci", "eci2lla")

    def _positional(call, fi):
        """Arguments of a call to a repo function in parameter order (keywords bound); None when not bindable."""
        ps = fi.params
        if any(isinstance(a, ast.Starred) for a in call.args) or len(call.args) > len(ps):
            return None
        out = list(call.args) + [None] * (len(ps) - len(call.args))
        for k in call.keywords:
            if k.arg not in ps or out[ps.index(k.arg)] is not None:
                return None
            out[ps.index(k.arg)] = k.value
        return out if all(x is not None for x in out) else None

    def _expand(e, depth=0):
        """Keywords bound to positions for the conversion functions; composite conversions replaced by their own
        (single-return) definition in terms of the primitives - so `sez2eci(x, lat, lon, t)` and
        `ecef2eci(sez2ecef(x, lat, lon), t)` read the same."""
        import copy

        class X(ast.NodeTransformer):
            def visit_Call(self, n):
                self.generic_visit(n)
                nm = call_name(n)
                if isinstance(n.func, ast.Name) and p.has_func(f"{METHODS}.{nm}"):
                    fi = p.func(f"{METHODS}.{nm}")
                    args = _positional(n, fi)
                    if args is None:
                        return n
                    if nm in COMPOSITES and depth < 4:
                        rets = [x for x in walk_no_nested(fi.node) if isinstance(x, ast.Return) and x.value is not None]
                        if len(rets) == 1:
                            body = inline_locals(fi, rets[0].value)
                            m = dict(zip(fi.params, args))

                            class S(ast.NodeTransformer):
                                def visit_Name(self, nn):
                                    return copy.deepcopy(m[nn.id]) if nn.id in m else nn

                            return _expand(S().visit(copy.deepcopy(body)), depth + 1)
                    return ast.copy_location(ast.Call(func=n.func, args=args, keywords=[]), n)
                return n

        return X().visit(copy.deepcopy(e))

    def one():
        ob = fn.params[0]
        rets = [n for n in walk_no_nested(fn.node) if isinstance(n, ast.Return) and n.value is not None]
        require(len(rets) == 1, "radarObs2eciPosition: single return expected", fn.node)
        got = _expand(inline_locals(fn, rets[0].value))
        T = f"julianDateToDatetime(JulianDate({ob}.julian_date))"
        LLA = f"ecef2lla(eci2ecef({ob}.sensor_eci, {T}))"
        ref_src = f"sez2eci(razel2sez({ob}.range_km, {ob}.elevation_rad, {ob}.azimuth_rad, 0, 0, 0), {LLA}[0], {LLA}[1], {T})[:3] + {ob}.sensor_eci[:3]"
        ref = _expand(ast.parse(ref_src, mode="eval").body)
        bad = []
        if canon(got) != canon(ref):
            # diagnose the usual slips: which part differs
            gtxt = unparse(got)
            rz = [c for c in ast.walk(got) if isinstance(c, ast.Call) and call_name(c) == "razel2sez"]
            if not rz:
                bad.append("the observation is not converted by razel2sez")
            else:
                args = [unparse(a) for a in rz[0].args]
                want = [f"{ob}.range_km", f"{ob}.elevation_rad", f"{ob}.azimuth_rad", "0", "0", "0"]
                names = p.func(f"{METHODS}.razel2sez").params
                for i, (a, w) in enumerate(zip(args, want)):
                    if a != w:
                        bad.append(f"razel2sez parameter `{names[i] if i < len(names) else i}` receives `{a}` (expected {w})")
            if T not in gtxt:
                bad.append("the conversions are not evaluated at the observation's own epoch")
            if "ecef2lla(" not in gtxt:
                bad.append("site angles are not the sensor's geodetic coordinates (ecef2lla of the Earth-fixed sensor position)")
            if "sez2ecef(" not in gtxt or "ecef2eci(" not in gtxt:
                bad.append("relative position is not rotated SEZ -> Earth-fixed -> inertial")
            if not bad:
                bad.append(f"result `{unparse(inline_locals(fn, rets[0].value))[:160]}` differs from sensor + sez2eci(razel2sez(range, el, az, 0, 0, 0), lat, lon, instant)")
        if bad:
            r.violation(fn.qualname, "inversion:" + ";".join(b[:60] for b in bad), "radarObs2eciPosition does not invert the measurement model: " + "; ".join(bad), fn.loc())
        else:
            r.ok(fn.qualname, "sensor + sez2eci(razel2sez(range, el, az, 0, 0, 0), lat, lon, instant) - compared after inlining locals and expanding composite conversions", fn.loc(), obligations=8)

    r.guard(fn.qualname, one)
    # the forward model measures the same three quantities of the same slant range
    meas = p.module("resonaate.physics.measurements")
    for cls_name, getter, idx in (("Range", "getRange", None), ("Azimuth", "getAzimuth", None), ("Elevation", "getElevation", None)):
        g = meas.functions.get(getter)
        if g is None:
            r.error(getter, "measurement getter not found")
            continue
        rets = [n for n in walk_no_nested(g.node) if isinstance(n, ast.Return)]
        prm = g.params[0]
        txts = [unparse(x.value) for x in rets]
        if getter == "getRange":
            ok = txts == [f"norm({prm}[:3])"]
        elif getter == "getElevation":
            ok = txts == [f"arcsin({prm}[2] / norm({prm}[:3]))"]
        else:
            # path-wise: off the zenith the azimuth is atan2(E, -S) wrapped to [0, 2pi); at the zenith the same with
            # the velocity components - however the branches are written (if / else, early return, conditional expression)
            from rsa.terms import NotEvaluable, returned_exprs

            try:
                got = {unparse(e) for e, _c in returned_exprs(g)}
            except NotEvaluable as ex:
                raise Undecided(f"getAzimuth cannot be evaluated path-wise ({ex})", g.node) from None
            want = {f"wrapAngle2Pi(arctan2({prm}[1], -1.0 * {prm}[0]))", f"wrapAngle2Pi(arctan2({prm}[4], -1.0 * {prm}[3]))"}
            ok = {canon(ast.parse(x, mode="eval").body) for x in got} == {canon(ast.parse(x, mode="eval").body) for x in want}
            txts = sorted(got)
        if ok:
            r.ok(g.qualname, f"forward model: {txts}", g.loc())
        else:
            r.violation(g.qualname, f"forward:{txts}", f"{getter} is `{txts}`: the forward measurement no longer matches the (S, E, Z) -> (az, el, range) convention that razel2sez inverts (az = atan2(E, -S), el = asin(Z/r), r = |r|)", g.loc())


def _vec3_kind(e, fn, defs, depth=4):
    """Is the expression certainly a 3-element vector?"""
    if depth <= 0:
        return False
    if isinstance(e, ast.Name):
        if e.id in defs:
            return _vec3_kind(defs[e.id], fn, defs, depth - 1)
        return False
    if isinstance(e, ast.NamedExpr):
        return _vec3_kind(e.value, fn, defs, depth - 1)
    if isinstance(e, ast.Call):
        nm = call_name(e)
        if nm in ("radarObs2eciPosition", "_determineFinalState"):
            return True
    if isinstance(e, ast.Subscript) and isinstance(e.slice, ast.Slice) and e.slice.upper is not None and unparse(e.slice.upper) == "3" and e.slice.lower is None:
        return True
    if isinstance(e, ast.BinOp) and isinstance(e.op, (ast.Add, ast.Sub)):
        return _vec3_kind(e.left, fn, defs, depth - 1) and _vec3_kind(e.right, fn, defs, depth - 1)
    return False


def rule_r2(chk, p, t):
    r = chk.rule(
        "C20.R2",
        "vector-shape discipline of the IOD pipeline",
        3,
        "a value that is certainly a 3-element position (a radar-observation inversion, a [:3] slice) never reaches a "
        "parameter that the callee slices as `[3:]` (velocity part) without a length guard: an empty velocity silently "
        "has norm 0",
    )
    cls = p.cls(f"{IOD}.LambertIOD")
    n_calls = 0
    for m in list(cls.methods.values()) + list(p.cls(f"{IOD}.InitialOrbitDetermination").methods.values()):
        defs = single_defs(m.node)
        # walrus definitions
        for n in walk_no_nested(m.node):
            if isinstance(n, ast.NamedExpr) and isinstance(n.target, ast.Name):
                defs.setdefault(n.target.id, n.value)
        for c in walk_no_nested(m.node):
            if not isinstance(c, ast.Call):
                continue
            targets = [x for x in t.callees(c, m) if hasattr(x, "params") and hasattr(x, "node") and not hasattr(x, "methods")]
            if not targets and isinstance(c.func, ast.Attribute) and isinstance(c.func.value, ast.Name) and c.func.value.id == "self":
                mm = p.lookup_method(cls, c.func.attr)
                targets = [mm] if mm else []
            if not targets and unparse(c.func) == "self.orbit_determination_method":
                targets = [p.func(f"{LAM}.lambertUniversal"), p.func(f"{LAM}.lambertBattin")]
            for callee in targets:
                params = callee.params[1:] if callee.cls is not None and callee.kind == "method" else callee.params
                for i, a in enumerate(c.args):
                    if i >= len(params) or not _vec3_kind(a, m, defs):
                        continue
                    n_calls += 1
                    prm = params[i]
                    cfg = cfg_of(callee)
                    bad_slices = []
                    for x in walk_no_nested(callee.node):
                        if isinstance(x, ast.Subscript) and isinstance(x.value, ast.Name) and x.value.id == prm and isinstance(x.slice, ast.Slice) and x.slice.lower is not None and unparse(x.slice.lower) == "3":
                            node = cfg.node_of(x)
                            guarded = False
                            for cid, lab in cfg.control_conditions(node.id):
                                tst = unparse(cfg.nodes[cid].ast)
                                if (f"len({prm})" in tst or f"{prm}.size" in tst or f"{prm}.shape" in tst) and lab is True:
                                    guarded = True
                            if not guarded:
                                bad_slices.append(x)
                    cons = f"{m.qualname}:{callee.name}({prm}={unparse(a)[:30]})"
                    if bad_slices:
                        r.violation(
                            cons,
                            f"vec3-into-velocity-slice:{callee.name}.{prm}",
                            f"`{unparse(c)[:90]}` passes a 3-element position as `{prm}`, but {callee.name} takes `{unparse(bad_slices[0])}` as a velocity: the slice is empty, its norm is 0 and the derived orbit size (semi-major axis r/2, period 35 % of the true one) is wrong - observations more than 0.35 of a period apart are rejected",
                            m.loc(c),
                        )
                    else:
                        r.ok(cons, f"position-only argument; {callee.name} takes no unguarded velocity slice of it", m.loc(c))
    if n_calls < 3:
        r.error("vec3-arguments", f"only {n_calls} calls with a certainly-3-element argument recognised (>= 3 confirmed by hand)")


def rule_r3(chk, p, t):
    r = chk.rule(
        "C20.R3",
        "IOD pipeline slots and Lambert velocity reconstruction",
        4,
        "the two positions, their time of flight and the transfer sense reach the Lambert solver in its parameter "
        "order; the time of flight is the difference of the epochs of exactly those two observations; the returned "
        "state pairs the final position with the final velocity; v1 = (r2 - f r1)/g, v2 = (gdot r2 - r1)/g",
        "convergence and accuracy of the Lambert iterations",
    )
    cls = p.cls(f"{IOD}.LambertIOD")
    m = cls.methods.get("determineNewEstimateState")

    def one():
        defs = single_defs(m.node)
        bad = []
        call = [c for c in walk_no_nested(m.node) if isinstance(c, ast.Call) and unparse(c.func) == "self.orbit_determination_method"]
        require(len(call) == 1, "the Lambert solver is not called exactly once", m.node)
        args = [unparse(a) for a in call[0].args]
        if args != ["initial_position", "final_position", "transit_time", "transfer_method"]:
            bad.append(f"solver arguments {args}")
        for q in ("lambertUniversal", "lambertBattin", "lambertGauss"):
            try:
                f = p.func(f"{LAM}.{q}")
                if f.params[:4] != ["initial_position", "current_position", "delta_time", "transfer_method"]:
                    bad.append(f"{q} parameters {f.params[:4]}")
            except AnchorError:
                pass
        ip = defs.get("initial_position")
        if ip is None or unparse(ip) != "radarObs2eciPosition(previous_observation[-1])":
            bad.append(f"initial position `{unparse(ip) if ip is not None else None}`")
        tt = defs.get("transit_time")
        if not (isinstance(tt, ast.Call) and call_name(tt) == "checkSinglePass" and [unparse(a) for a in tt.args][1:] == ["previous_observation[-1].julian_date", "current_julian_date"]):
            bad.append(f"time of flight `{unparse(tt) if tt is not None else None}` is not between the epochs of the two observations used")
        cj = defs.get("current_julian_date")
        if cj is None or unparse(cj) != "ScenarioTime(current_time).convertToJulianDate(self.julian_date_start)":
            bad.append("current epoch")
        unp = [n for n in walk_no_nested(m.node) if isinstance(n, ast.Assign) and n.value is call[0]]
        if not (unp and isinstance(unp[0].targets[0], ast.Tuple) and [unparse(x) for x in unp[0].targets[0].elts] == ["_", "final_velocity"]):
            bad.append("the solver's (initial, final) velocity pair is not unpacked as (_, final_velocity)")
        rets = [n for n in walk_no_nested(m.node) if isinstance(n, ast.Return) and "True" in unparse(n.value)]
        if not (len(rets) == 1 and "concatenate((final_position, final_velocity))" in unparse(rets[0].value)):
            bad.append("the returned state does not pair the final position with the final velocity")
        tm = defs.get("transfer_method")
        if tm is None or unparse(tm) != "determineTransferDirection(initial_position, transit_time)":
            bad.append("transfer sense")
        if bad:
            r.violation(m.qualname, "pipeline:" + ";".join(bad), "IOD pipeline: " + "; ".join(bad), m.loc())
        else:
            r.ok(m.qualname, "lambert(r1, r2, t2 - t1, sense) -> (r2, v2)", m.loc(), obligations=7)

    r.guard(m.qualname, one)
    csp = p.lookup_method(cls, "checkSinglePass")

    def two():
        defs = {}
        for n in walk_no_nested(csp.node):
            if isinstance(n, ast.Assign) and isinstance(n.targets[0], ast.Name):
                defs.setdefault(n.targets[0].id, []).append(n.value)
        a, j1, j2 = csp.params[1], csp.params[2], csp.params[3]
        tt = defs.get("transit_time", [])
        bad = []
        if not (len(tt) == 1 and canon(tt[0]) == canon(ast.parse(f"({j2} - {j1}) * DAYS2SEC", mode="eval").body)):
            bad.append(f"transit time `{[unparse(x) for x in tt]}`")
        cfg = cfg_of(csp)
        rets = [n for n in cfg.nodes if n.kind == "return"]
        false_r = [n for n in rets if unparse(n.ast.value) == "False"]
        conds = [n for n in cfg.nodes if n.kind == "cond" and unparse(n.ast) in ("transit_time >= period", "period <= transit_time")]
        if not (false_r and conds and cfg.must_pass(false_r[0].id, via_edges=[(conds[0].id, True)])):
            bad.append("rejection is not `transit_time >= period`")
        per = defs.get("period", [])
        if not (len(per) == 1 and unparse(per[0]) == "getPeriod(sma)"):
            bad.append("period")
        _ = a
        if bad:
            r.violation(csp.qualname, "single-pass:" + ";".join(bad), "checkSinglePass: " + "; ".join(bad), csp.loc())
        else:
            r.ok(csp.qualname, "transit = (jd2 - jd1) * 86400 s, rejected iff >= one period", csp.loc())

    r.guard(csp.qualname, two)
    dfs = p.lookup_method(cls, "_determineFinalState")

    def final_position():
        # the second Lambert position is the inversion of a radar observation of the current step (or the mean of
        # the inversions of exactly the observations that were inverted) - never scaled by a count of other things
        fp = single_defs(m.node).get("final_position")
        require(fp is not None and isinstance(fp, ast.Call) and unparse(fp.func) == "self._determineFinalState" and [unparse(a) for a in fp.args] == [m.params[1]], f"final_position is not self._determineFinalState({m.params[1]})", m.node)
        fn = dfs.node
        param = dfs.params[1]
        from rsa.util import parents_map

        par = parents_map(fn)
        elem = set()  # names bound to one element of the parameter
        for n in ast.walk(fn):
            if isinstance(n, (ast.For, ast.comprehension)) and isinstance(n.target, ast.Name):
                it = n.iter
                while isinstance(it, ast.Call) and call_name(it) in ("list", "tuple", "iter", "reversed", "sorted", "filter") and it.args:
                    it = it.args[-1]
                if isinstance(it, ast.Name) and it.id == param:
                    elem.add(n.target.id)

        def over_param(it):
            """an iterable of elements of the parameter: the parameter, a filtered generator / list over it, a local bound to one"""
            while isinstance(it, ast.Call) and call_name(it) in ("list", "tuple", "iter", "reversed", "sorted", "filter") and it.args:
                it = it.args[-1]
            if isinstance(it, ast.Name):
                return it.id == param or it.id in streams
            if isinstance(it, (ast.GeneratorExp, ast.ListComp)) and len(it.generators) == 1 and isinstance(it.generators[0].target, ast.Name) and isinstance(it.elt, ast.Name) and it.elt.id == it.generators[0].target.id:
                return over_param(it.generators[0].iter)
            return False

        def elem_expr(a):
            if isinstance(a, ast.Name) and a.id in elem:
                return True
            if isinstance(a, ast.Subscript) and isinstance(a.value, ast.Name) and (a.value.id == param or a.value.id in streams) and not isinstance(a.slice, ast.Slice):
                return True
            if isinstance(a, ast.Call) and call_name(a) == "next" and a.args and over_param(a.args[0]) and all(isinstance(d, ast.Constant) and d.value is None for d in a.args[1:]):
                return True
            return False

        streams = set()
        changed = True
        while changed:
            changed = False
            for n in walk_no_nested(fn):
                if isinstance(n, ast.Assign) and len(n.targets) == 1 and isinstance(n.targets[0], ast.Name):
                    nm = n.targets[0].id
                    if nm not in streams and not isinstance(n.value, ast.Name) and over_param(n.value):
                        streams.add(nm)
                        changed = True
                    if nm not in elem and elem_expr(n.value):
                        elem.add(nm)
                        changed = True
                elif isinstance(n, (ast.For, ast.comprehension)) and isinstance(n.target, ast.Name) and n.target.id not in elem and over_param(n.iter):
                    elem.add(n.target.id)
                    changed = True
            for n in ast.walk(fn):
                if isinstance(n, ast.comprehension) and isinstance(n.target, ast.Name) and n.target.id not in elem and over_param(n.iter):
                    elem.add(n.target.id)
                    changed = True

        def one_pos(e):
            return isinstance(e, ast.Call) and call_name(e) == "radarObs2eciPosition" and len(e.args) == 1 and elem_expr(e.args[0])

        assigns = {}
        for n in walk_no_nested(fn):
            if isinstance(n, ast.Assign) and len(n.targets) == 1 and isinstance(n.targets[0], ast.Name):
                assigns.setdefault(n.targets[0].id, []).append((n, n.value))
            elif isinstance(n, ast.AugAssign) and isinstance(n.target, ast.Name):
                assigns.setdefault(n.target.id, []).append((n, n))
            elif isinstance(n, ast.NamedExpr):
                assigns.setdefault(n.target.id, []).append((n, n.value))

        def pos_name(nm):
            ds = assigns.get(nm, [])
            return bool(ds) and all(not isinstance(v, ast.AugAssign) and one_pos(v) for _, v in ds)

        def conditional(stmt):
            # is the statement under an `if` (or a filtering comprehension) inside the loop over the parameter?
            node = par.get(stmt)
            while node is not None and node is not fn:
                if isinstance(node, (ast.If, ast.IfExp)) and not any(stmt is x for x in ast.walk(node.test)):
                    t = node.test
                    if not (isinstance(t, ast.Compare) and len(t.ops) == 1 and isinstance(t.ops[0], (ast.Is, ast.IsNot)) and isinstance(t.left, ast.Name) and t.left.id in assigns):
                        return node
                node = par.get(node)
            return None

        def accum(nm):
            """accumulation statements of a running sum of one-observation positions, or None"""
            out = []
            for st, v in assigns.get(nm, []):
                if isinstance(v, ast.AugAssign):
                    if isinstance(v.op, ast.Add) and (one_pos(v.value) or (isinstance(v.value, ast.Name) and pos_name(v.value.id))):
                        out.append(st)
                        continue
                    return None
                if isinstance(v, ast.Constant) or (isinstance(v, ast.Call) and call_name(v) in ("zeros", "zeros_like")):
                    continue
                terms = []
                w = v
                if isinstance(w, ast.IfExp):
                    cands = [w.body, w.orelse]
                else:
                    cands = [w]
                ok = True
                for c in cands:
                    if one_pos(c) or (isinstance(c, ast.Name) and pos_name(c.id)):
                        continue
                    if isinstance(c, ast.BinOp) and isinstance(c.op, ast.Add) and {True} == {(isinstance(x, ast.Name) and (x.id == nm or pos_name(x.id))) or one_pos(x) for x in (c.left, c.right)}:
                        continue
                    ok = False
                if not ok:
                    return None
                out.append(st)
            return out or None

        rets = [n for n in walk_no_nested(fn) if isinstance(n, ast.Return)]
        require(rets, "_determineFinalState returns nothing", fn)
        n_pos = 0
        for rt in rets:
            v = rt.value
            if v is None or (isinstance(v, ast.Constant) and v.value is None):
                continue
            if one_pos(v) or (isinstance(v, ast.Name) and pos_name(v.id)):
                n_pos += 1
                continue
            if isinstance(v, ast.BinOp) and isinstance(v.op, ast.Div) and isinstance(v.left, ast.Name):
                acc = accum(v.left.id)
                if acc is None:
                    raise Undecided(f"`{unparse(v)}`: the numerator is not a running sum of inverted observations", rt)
                conds = [conditional(s) for s in acc]
                den = v.right
                if isinstance(den, ast.Call) and call_name(den) == "len" and len(den.args) == 1 and isinstance(den.args[0], ast.Name) and den.args[0].id == param:
                    if any(c is not None for c in conds):
                        c = next(c for c in conds if c is not None)
                        r.violation(dfs.qualname + ":final-position", "mean-over-wrong-count", f"`{unparse(v)}`: the sum runs over the observations that satisfy `{unparse(c.test)}` only, the divisor counts every element of `{param}` - with an angles-only observation in the list the final position is scaled toward the Earth's centre and the orbit determined from two exact radar observations is not the observed orbit", dfs.loc(rt))
                        return
                    n_pos += 1
                    continue
                if isinstance(den, ast.Name):
                    incs = [st for st, vv in assigns.get(den.id, []) if isinstance(vv, ast.AugAssign) and isinstance(vv.op, ast.Add) and isinstance(vv.value, ast.Constant) and vv.value.value == 1]
                    others = [st for st, vv in assigns.get(den.id, []) if st not in incs and not (isinstance(vv, ast.Constant) and vv.value == 0)]
                    if incs and not others and {id(par.get(s)) for s in incs} == {id(par.get(s)) for s in acc}:
                        n_pos += 1
                        continue
                    if incs and not others and any(c is not None for c in conds) and all(conditional(s) is None for s in incs):
                        c = next(c for c in conds if c is not None)
                        r.violation(dfs.qualname + ":final-position", "mean-over-wrong-count", f"`{unparse(v)}`: the sum runs over the observations that satisfy `{unparse(c.test)}` only, the divisor `{den.id}` counts every iteration - with an angles-only observation in the list the final position is scaled toward the Earth's centre", dfs.loc(rt))
                        return
                raise Undecided(f"`{unparse(v)}`: cannot relate the divisor to the number of summed positions", rt)
            raise Undecided(f"returned final position `{unparse(v)}` is neither the inversion of one observation of `{param}` nor a mean of such inversions", rt)
        require(n_pos >= 1, "_determineFinalState never returns a position", fn)
        r.ok(dfs.qualname + ":final-position", "the second Lambert position is the inversion of one radar observation of the current step (or a mean over exactly the inverted ones)", dfs.loc())

    r.guard(dfs.qualname + ":final-position", final_position)
    cv = p.func(f"{LAM}._calculateVelocities")

    def three():
        defs = single_defs(cv.node)
        r1, r2, f, g, gd = cv.params
        v1, v2 = defs.get("initial_velocity"), defs.get("current_velocity")
        ok = v1 is not None and v2 is not None and canon(v1) == canon(ast.parse(f"({r2} - {f} * {r1}) / {g}", mode="eval").body) and canon(v2) == canon(ast.parse(f"({gd} * {r2} - {r1}) / {g}", mode="eval").body)
        rets = [n for n in walk_no_nested(cv.node) if isinstance(n, ast.Return)]
        ok = ok and rets and unparse(rets[0].value) in ("(initial_velocity, current_velocity)", "initial_velocity, current_velocity")
        if ok:
            r.ok(cv.qualname, "v1 = (r2 - f r1)/g; v2 = (gdot r2 - r1)/g", cv.loc())
        else:
            r.violation(cv.qualname, "fg-velocities", "the Lambert end-point velocities are not v1 = (r2 - f r1)/g, v2 = (gdot r2 - r1)/g returned as (initial, final)", cv.loc())
        for q in ("lambertUniversal", "lambertBattin"):
            fn = p.func(f"{LAM}.{q}")
            calls = find_calls(fn.node, "_calculateVelocities")
            rets2 = [n for n in walk_no_nested(fn.node) if isinstance(n, ast.Return)]
            okc = calls and [unparse(a) for a in calls[-1].args][:2] == [fn.params[0], fn.params[1]] and rets2 and any(isinstance(x.value, ast.Call) and call_name(x.value) == "_calculateVelocities" for x in rets2)
            if okc:
                r.ok(fn.qualname + ":velocities", "returns _calculateVelocities(r1, r2, f, g, gdot)", fn.loc())
            else:
                r.violation(fn.qualname + ":velocities", "solver-return", f"{q} does not return _calculateVelocities(initial_position, current_position, f, g, gdot)", fn.loc())
        lu = p.func(f"{LAM}.lambertUniversal")
        d = single_defs(lu.node)
        okf = all(
            d.get(k) is not None and canon(d[k]) == canon(ast.parse(src, mode="eval").body)
            for k, src in (("gauss_f", "1.0 - y_new / r0_mag"), ("gauss_g", "a_value * sqrt(y_new / mu)"), ("gauss_g_dot", "1.0 - y_new / r_mag"), ("r_mag", f"norm({lu.params[1]})"), ("r0_mag", f"norm({lu.params[0]})"), ("a_value", "transfer_method * sqrt(r_mag * r0_mag * (1.0 + cos_delta_nu))"))
        )
        if okf:
            r.ok(lu.qualname + ":fg", "f = 1 - y/r0, g = A sqrt(y/mu), gdot = 1 - y/r", lu.loc())
        else:
            r.violation(lu.qualname + ":fg", "universal-fg", "the universal-variable Lambert solver's f, g, gdot (Vallado Algorithm 58) are altered", lu.loc())

    r.guard(cv.qualname, three)

    def bracket():
        # the bisection bracket on psi covers every transfer of less than one revolution, whatever its sense:
        # psi = (change of eccentric anomaly)^2 < (2 pi)^2 for ellipses, and negative for hyperbolas
        import math

        lu = p.func(f"{LAM}.lambertUniversal")

        def values(e):
            """All values a constant expression (with conditional expressions) can take, or None."""
            if isinstance(e, ast.IfExp):
                a, b = values(e.body), values(e.orelse)
                return None if a is None or b is None else a + b
            try:
                from rsa.terms import NotEvaluable, eval_small

                return [float(eval_small(e, {"PI": math.pi, "pi": math.pi, "TWOPI": 2 * math.pi}))]
            except Exception:
                return None

        first = {}
        for n in lu.node.body:
            if isinstance(n, ast.Assign) and isinstance(n.targets[0], ast.Name) and n.targets[0].id in ("psi_up", "psi_low") and n.targets[0].id not in first:
                first[n.targets[0].id] = n
        require(set(first) == {"psi_up", "psi_low"}, "lambertUniversal: initial bracket psi_up / psi_low not found", lu.node)
        up, low = values(first["psi_up"].value), values(first["psi_low"].value)
        cons = lu.qualname + ":bracket"
        if up is None or low is None:
            raise Undecided(f"initial bracket `{unparse(first['psi_up'].value)}` / `{unparse(first['psi_low'].value)}` is not a constant", first["psi_up"])
        bad = []
        if min(up) < 4 * math.pi**2 * (1 - 1e-12):
            bad.append(f"psi_up = `{unparse(first['psi_up'].value)}` can be {min(up):.4g} < 4 pi^2: an elliptic arc through apoapsis sweeps more than 180 deg of eccentric anomaly even when the true-anomaly change is below 180 deg, its root lies above the bracket and the bisection returns wrong velocities silently")
        if max(low) > -4 * math.pi:
            bad.append(f"psi_low = `{unparse(first['psi_low'].value)}` can be {max(low):.4g} > -4 pi: fast (hyperbolic) transfers fall outside the bracket")
        if bad:
            r.violation(cons, "bracket:" + ";".join(b[:30] for b in bad), "; ".join(bad), lu.loc(first["psi_up"]))
        else:
            r.ok(cons, f"psi in [{max(low):.4g}, {min(up):.4g}] for either transfer sense", lu.loc(first["psi_up"]))

    r.guard(f"{LAM}.lambertUniversal:bracket", bracket)


def branch_corrections(fi):
    """[(name, def_stmt, if_stmt, correction_stmt)] for locals that get a plain definition and then, under an
    `if` outside any loop, a correction in terms of themselves (`v *= -1`, `v = 2 pi - v`)."""
    from rsa.util import parents_map

    pm = parents_map(fi.node)

    def ancestors(n):
        out = []
        while n in pm:
            n = pm[n]
            out.append(n)
        return out

    plain = {}
    for n in walk_no_nested(fi.node):
        if isinstance(n, ast.Assign) and len(n.targets) == 1 and isinstance(n.targets[0], ast.Name):
            nm = n.targets[0].id
            if not any(isinstance(x, ast.Name) and x.id == nm for x in ast.walk(n.value)):
                plain.setdefault(nm, []).append(n)
    out = []
    for n in walk_no_nested(fi.node):
        nm = None
        if isinstance(n, ast.AugAssign) and isinstance(n.target, ast.Name):
            nm = n.target.id
        elif isinstance(n, ast.Assign) and len(n.targets) == 1 and isinstance(n.targets[0], ast.Name) and any(isinstance(x, ast.Name) and x.id == n.targets[0].id for x in ast.walk(n.value)):
            nm = n.targets[0].id
        if nm is None or nm not in plain:
            continue
        anc = ancestors(n)
        if any(isinstance(a, (ast.For, ast.While)) for a in anc):
            continue
        ifs = [a for a in anc if isinstance(a, ast.If)]
        if not ifs or n not in ifs[0].body:
            continue
        i = ifs[0]
        # the definition it corrects: the last plain definition before the `if` in source order, not in a loop
        cands = [d for d in plain[nm] if d.lineno < i.lineno and not any(isinstance(a, (ast.For, ast.While)) for a in ancestors(d))]
        if not cands:
            continue
        out.append((nm, cands[-1], i, n))
    return out


def rule_r4(chk, p, t):
    r = chk.rule(
        "C20.R4",
        "branch corrections precede every use",
        2,
        "in the Lambert solvers a quantity that receives a transfer-sense / quadrant correction (`beta_e *= -1` for "
        "the long way, `alpha_e = 2 pi - alpha_e` beyond the minimum-energy time) is not read between its definition "
        "and that correction: a derived quantity (the minimum-energy time of flight) computed from the uncorrected "
        "value picks the wrong root for long-way transfers",
        "the values of the corrected quantities",
    )
    mod = p.module("resonaate.physics.orbit_determination.lambert")
    n = 0
    for fi in mod.functions.values():
        corr = branch_corrections(fi)
        if not corr:
            continue
        cfg = cfg_of(fi)
        for nm, d, i, c in corr:
            n += 1
            cons = f"{fi.qualname}:{nm}"
            dn = cfg.node_of(d)
            own = {x.id for x in cfg.nodes if x.ast is not None and any(y is x.ast or (hasattr(x.ast, "lineno") and False) for y in ast.walk(i))}
            cond_nodes = [x for x in cfg.nodes if x.kind == "cond" and x.ast is not None and any(y is x.ast for y in ast.walk(i.test))]
            tgt = cond_nodes[0].id if cond_nodes else cfg.node_of(c).id
            after_def = cfg.reachable(dn.id) - {dn.id}
            before_corr = cfg.reachable(tgt, forward=False)
            bad = []
            for x in cfg.nodes:
                if x.ast is None or x.id in own or x.id not in after_def or x.id not in before_corr or x.id == tgt:
                    continue
                scope = x.ast.value if isinstance(x.ast, (ast.Assign, ast.AugAssign, ast.AnnAssign, ast.Return, ast.Expr)) and getattr(x.ast, "value", None) is not None else x.ast
                if any(isinstance(y, ast.Name) and y.id == nm and isinstance(y.ctx, ast.Load) for y in ast.walk(scope)):
                    bad.append(x)
            if bad:
                r.violation(cons, f"read-before-correction:{nm}:{unparse(bad[0].ast)[:50]}", f"`{unparse(bad[0].ast)[:90]}` reads `{nm}` before its correction `if {unparse(i.test)}: {unparse(c)}`: it is computed from the uncorrected value (short-way sign) although later expressions use the corrected one", fi.loc(bad[0].ast))
            else:
                r.ok(cons, f"`{nm}` is not read between its definition and `if {unparse(i.test)}: {unparse(c)}`", fi.loc(c))
    if n == 0:
        r.error("lambert:corrections", "no branch correction found in the Lambert solvers (2 confirmed by hand in lambertBattin)")


# Vallado, Fundamentals of Astrodynamics and Applications (4th ed.), Algorithm 58 (Lambert - universal variables), in the
# local names of the implementation.  How the iteration is entered (start values of delta_tn, y_new, the step counter)
# is not part of the algorithm and is not transcribed.
_LAMBERT_UNIVERSAL_REF = """
def lambertUniversal(initial_position, current_position, delta_time, transfer_method, mu, tol, max_step):
    if delta_time <= 0.0:
        raise ValueError()
    r_mag = norm(current_position)
    r0_mag = norm(initial_position)
    cos_delta_nu = dot(initial_position, current_position) / (r0_mag * r_mag)
    a_value = transfer_method * sqrt(r_mag * r0_mag * (1.0 + cos_delta_nu))
    if fpe_equals(a_value, 0.0):
        raise ValueError()
    psi_up = 4.0 * PI**2
    psi_low = -4.0 * PI**2
    psi_n = (psi_up + psi_low) * 0.5
    c_2, c_3 = universalC2C3(psi_n)
    while abs(delta_tn - delta_time) >= tol and step <= max_step:
        y_new = _calcYNew(r0_mag, r_mag, a_value, psi_n, c_2, c_3)
        if a_value > 0.0:
            while y_new < 0.0:
                if psi_up == 0.0:
                    psi_up = 1.0
                psi_low = psi_low + 0.001 * psi_up
                psi_n = (psi_up + psi_low) * 0.5
                c_2, c_3 = universalC2C3(psi_n)
                new_y_new = _calcYNew(r0_mag, r_mag, a_value, psi_n, c_2, c_3)
                if new_y_new < y_new:
                    raise ValueError()
                y_new = new_y_new
        xi_new = sqrt(y_new / c_2)
        delta_tn = (xi_new**3 * c_3 + a_value * sqrt(y_new)) / sqrt(mu)
        if delta_tn <= delta_time:
            psi_low = psi_n
        else:
            psi_up = psi_n
        psi_n = (psi_up + psi_low) * 0.5
        c_2, c_3 = universalC2C3(psi_n)
        step += 1
    gauss_f = 1.0 - y_new / r0_mag
    gauss_g = a_value * sqrt(y_new / mu)
    gauss_g_dot = 1.0 - y_new / r_mag
    return _calculateVelocities(initial_position, current_position, gauss_f, gauss_g, gauss_g_dot)


def _calcYNew(r0_mag, r_mag, a_value, psi_n, c_2, c_3):
    return r0_mag + r_mag + a_value * (psi_n * c_3 - 1.0) / sqrt(c_2)


def _calculateVelocities(initial_position, current_position, gauss_f, gauss_g, gauss_g_dot):
    initial_velocity = (current_position - gauss_f * initial_position) / gauss_g
    current_velocity = (gauss_g_dot * current_position - initial_position) / gauss_g
    return initial_velocity, current_velocity
"""


def _ref_rule(r, p, ref_src, modq, init_ok=(), skip=(), branch_skip=()):
    """Compare every function of the reference text with the function of the same name in module `modq`."""
    from rsa import refdefs

    tree = ast.parse(ref_src)
    for ref in tree.body:
        if not isinstance(ref, ast.FunctionDef):
            continue
        fn = p.func(f"{modq}.{ref.name}")

        def one(fn=fn, ref=ref):
            # keyword arguments of calls of sibling functions are bound positionally first (spelling only)
            node = _bind_keywords(p, fn, modq)
            ref_b = _bind_keywords(p, None, modq, node=ref)
            names = None
            # helpers of the module that the reference text never mentions: new functions that hold part of the algorithm
            mod_ = p.module(modq)
            unknown = {nm_ for nm_ in mod_.functions if nm_ not in ref_src and not nm_.startswith("__")}
            res = refdefs.compare(node, ref_b, names=names, init_ok=init_ok, skip_under=branch_skip, unknown_calls=unknown)
            for nm, text, ln in res["mismatch"]:
                if nm in skip:
                    continue
                r.violation(fn.qualname, f"formula:{fn.name}:{nm}:{text[:50]}", f"{fn.name} deviates from the cited algorithm: {text}", f"{fn.file}:{ln or fn.lineno}")
            for nm, text, ln in res["unsure"]:
                if nm in skip:
                    continue
                r.undecided(f"{fn.qualname}:{nm}", text, f"{fn.file}:{ln or fn.lineno}")
            if not [m for m in res["mismatch"] if m[0] not in skip]:
                r.ok(fn.qualname, f"{res['matched']} definitions of {len(res['names'])} quantities agree with the reference, guards included", fn.loc(), obligations=max(1, res["matched"]))

        r.guard(fn.qualname, one)


def _bind_keywords(p, fn, modq, node=None):
    import copy

    node = copy.deepcopy(fn.node if node is None else node)
    mod = p.module(modq)

    class B(ast.NodeTransformer):
        def visit_Call(self, n):
            self.generic_visit(n)
            nm = call_name(n)
            callee = mod.functions.get(nm) if isinstance(n.func, ast.Name) else None
            if callee is not None and n.keywords and all(k.arg in callee.params for k in n.keywords):
                ps = callee.params
                slots = {ps[i]: a for i, a in enumerate(n.args) if i < len(ps)}
                for k in n.keywords:
                    slots[k.arg] = k.value
                k = 0
                args = []
                while k < len(ps) and ps[k] in slots:
                    args.append(slots[ps[k]])
                    k += 1
                if len(args) == len(slots):
                    n.args, n.keywords = args, []
            return n

    return B().visit(node)


def rule_r6(chk, p, t):
    r = chk.rule(
        "C20.R6",
        "the universal-variable Lambert solver is the cited algorithm",
        3,
        "lambertUniversal cites Vallado Algorithm 58.  Definition by definition (rsa/refdefs.py: every right-hand side "
        "as a rational function over opaque atoms, with the conditions that dominate it) it must be that algorithm: "
        "cos(dnu) = r0.r / (r0 r); A = t_m sqrt(r r0 (1 + cos dnu)); y = r0 + r + A (psi c3 - 1) / sqrt(c2); chi = "
        "sqrt(y / c2); dt = (chi^3 c3 + A sqrt(y)) / sqrt(mu); the bisection keeps psi_low when dt <= the requested time "
        "(time of flight grows with psi) and psi_up otherwise, psi is the midpoint and c2, c3 are refreshed from it; "
        "the negative-y correction applies for A > 0 only; f = 1 - y / r0, g = A sqrt(y / mu), gdot = 1 - y / r; v1 = "
        "(r2 - f r1) / g, v2 = (gdot r2 - r1) / g",
        "convergence and accuracy of the iteration (loops are not unrolled, nothing is evaluated); strictness of comparisons",
    )
    _ref_rule(r, p, _LAMBERT_UNIVERSAL_REF, LAM, init_ok=("delta_tn", "y_new", "step"))


# Battin's method as cited (Battin 1987 eqs. 7.57, 7.89, 7.101, 7.102; Vallado Algorithm 59; the continued-fraction and
# cubic helpers of the cited MATLAB implementation), in the local names of the implementation.  The hyperbolic branch is
# not transcribed: the property quantifies over bound orbits (see DESIGN 5.4 for an observation on that branch).
_LAMBERT_BATTIN_REF = """
def lambertBattin(initial_position, current_position, delta_time, transfer_method, mu, tol, max_step):
    if delta_time <= 0.0:
        raise ValueError()
    r2 = norm(current_position)
    r1 = norm(initial_position)
    cos_delta_nu = dot(initial_position, current_position) / (r1 * r2)
    sin_delta_nu = transfer_method * norm(cross(current_position, initial_position)) / (r1 * r2)
    delta_nu = wrapAngle2Pi(arctan2(sin_delta_nu, cos_delta_nu))
    c = sqrt(r1**2 + r2**2 - 2.0 * r1 * r2 * cos_delta_nu)
    s = (r1 + r2 + c) * 0.5
    r2_over_r1 = r2 / r1
    epsilon = r2_over_r1 - 1.0
    tan_squared_two_omega = (epsilon**2 * 0.25) / (sqrt(r2_over_r1) + r2_over_r1 * (2.0 + sqrt(r2_over_r1)))
    cos_delta_nu_over_2 = cos(delta_nu * 0.5)
    r_op = 0.25 * (r1 + r2 + 2 * sqrt(r1 * r2) * cos_delta_nu_over_2)
    if delta_nu < PI:
        numerator = sin(delta_nu * 0.25) ** 2 + tan_squared_two_omega
        l_val = numerator / (numerator + cos_delta_nu_over_2)
    else:
        denominator = cos(delta_nu * 0.25) ** 2 + tan_squared_two_omega
        l_val = (denominator - cos_delta_nu_over_2) / denominator
    m_val = (mu * delta_time**2) / (8 * r_op**3)
    x = l_val
    lim1 = sqrt(m_val / l_val)
    while x_err > tol and step <= max_step:
        xi_x = _battinGetXi(x)
        h1 = ((l_val + x) ** 2 * (1.0 + 3.0 * x + xi_x)) / ((1.0 + 2.0 * x + l_val) * (4.0 * x + xi_x * (3.0 + x)))
        h2 = (m_val * (x - l_val + xi_x)) / ((1.0 + 2.0 * x + l_val) * (4.0 * x + xi_x * (3.0 + x)))
        xn, y = _cubicSplineBattin(y, h1, h2, m_val, l_val, lim1)
        x_err = abs(x - xn)
        x = xn
        step += 1
    sma = (mu * delta_time**2) / (16.0 * r_op**2 * x * y**2)
    if sma > 0.0:
        beta_e = 2.0 * arcsin(sqrt((s - c) / (2.0 * sma)))
        if delta_nu > PI:
            beta_e *= -1.0
        a_min = s * 0.5
        t_min = sqrt(a_min**3 / mu) * (PI - beta_e + sin(beta_e))
        alpha_e = 2.0 * arcsin(sqrt(s / (2.0 * sma)))
        if delta_time > t_min:
            alpha_e = 2.0 * PI - alpha_e
        delta_e = alpha_e - beta_e
        gauss_f = 1.0 - (sma / r1) * (1.0 - cos(delta_e))
        gauss_g = delta_time - sqrt(sma**3 / mu) * (delta_e - sin(delta_e))
        gauss_g_dot = 1.0 - (sma / r2) * (1.0 - cos(delta_e))
    return _calculateVelocities(initial_position, current_position, gauss_f, gauss_g, gauss_g_dot)


def _battinGetXi(x, tol):
    sqrt_1_plus_x = sqrt(1.0 + x)
    eta = x / (1.0 + sqrt_1_plus_x) ** 2
    cont_frac_sum = _battinContinuedFraction(_BATTIN_SUPPORT_COEFFICIENTS_ETA, eta, tol)
    return 1.0 / ((1.0 / (8.0 * (1.0 + sqrt_1_plus_x))) * (3.0 + cont_frac_sum / (1.0 + eta * cont_frac_sum)))


def _battinGetKappa(u, tol):
    return _battinContinuedFraction(_BATTIN_SUPPORT_COEFFICIENTS_KAPPA, u, tol)


def _battinContinuedFraction(coefficients, factor, tol):
    del_old = 1.0
    term_old = coefficients[0]
    continued_frac = term_old
    step = 0
    while abs(term_old) > tol and step < len(coefficients) - 1:
        del_new = 1.0 / (1.0 + coefficients[step + 1] * factor * del_old)
        term = term_old * (del_new - 1.0)
        continued_frac += term
        step += 1
        del_old = del_new
        term_old = term
    return continued_frac


def _cubicSplineBattin(y, h1, h2, m, L, lim):
    b = (27.0 * h2) / (4.0 * (1.0 + h1) ** 3)
    x = -1.0
    if b < -1.0:
        x = 1.0 - 2.0 * L
    elif y > lim:
        x *= lim / y
    else:
        u = b / (2.0 * (sqrt(1.0 + b) + 1.0))
        k = _battinGetKappa(u)
        y = ((1.0 + h1) / 3.0) * (2.0 + sqrt(1.0 + b) / (1.0 + 2.0 * u * k**2))
        x = sqrt(((1.0 - L) * 0.5) ** 2 + (m / y**2)) - (1.0 + L) * 0.5
    return x, y
"""

_HYPERBOLIC = ("alpha_h", "beta_h", "delta_h")


def rule_r7(chk, p, t):
    r = chk.rule(
        "C20.R7",
        "Battin's Lambert solver is the cited algorithm",
        6,
        "lambertBattin and its helpers cite Battin (eqs. 7.57, 7.89, 7.101, 7.102), Vallado Algorithm 59 and the MATLAB "
        "implementation.  Definition by definition (as for R6) they must be that algorithm: chord c, semiperimeter s, "
        "tan^2(2w), r_op, l by the sign of pi - dnu, m, h1, h2, the cubic's B, U, K(U), y and x, the semi-major axis, the "
        "elliptic alpha / beta with their long-way and beyond-minimum-energy corrections under the cited conditions, f, g, "
        "gdot; xi(x) and the continued-fraction recurrence; and the two coefficient tables follow their closed forms: "
        "c_eta[k] = (k + 2)^2 / ((2 (k + 2))^2 - 1) for k >= 1, c_kappa[2n + 1] = 2 (3n + 2)(6n + 1) / (9 (4n + 1)(4n + 3)), c_kappa[2n] = 2 (3n + 1)(6n - 1) "
        "/ (9 (4n - 1)(4n + 1)) (constant folding of the literals, exact rationals)",
        "convergence and accuracy of the iteration; the hyperbolic branch (outside the property's bound orbits); strictness of comparisons",
    )
    from fractions import Fraction

    from rsa.terms import const_value

    _ref_rule(r, p, _LAMBERT_BATTIN_REF, LAM, init_ok=("x_err", "step", "y", "x"), skip=_HYPERBOLIC, branch_skip=("sma < 0.0",))
    mod = p.module(LAM)

    def tables():
        def lits(name):
            v = mod.assigns.get(name)
            require(v is not None, f"coefficient table {name} not found", mod.tree)
            arr = v.args[0] if isinstance(v, ast.Call) and v.args else v
            require(isinstance(arr, (ast.List, ast.Tuple)), f"{name} is not a literal table", v)
            vals = [const_value(e) for e in arr.elts]
            require(all(x is not None for x in vals), f"{name} has non-literal entries", v)
            return vals, v

        eta, n1 = lits("_BATTIN_SUPPORT_COEFFICIENTS_ETA")
        kap, n2 = lits("_BATTIN_SUPPORT_COEFFICIENTS_KAPPA")
        bad = []

        def close(a, b):
            return abs(a - b) <= Fraction(1, 10**12) * max(abs(a), abs(b))

        if not close(eta[0], Fraction(1, 5)):
            bad.append(f"c_eta[0] = {float(eta[0])} (0.2)")
        for k in range(1, len(eta)):
            n = k + 2
            want = Fraction(n * n, (2 * n) ** 2 - 1)
            if not close(eta[k], want):
                bad.append(f"c_eta[{k}] = {float(eta[k]):.12g}, closed form {want}")
        if not close(kap[0], Fraction(1, 3)):
            bad.append(f"c_kappa[0] = {float(kap[0])} (1/3)")
        for k in range(1, len(kap)):
            n = k // 2
            want = Fraction(2 * (3 * n + 2) * (6 * n + 1), 9 * (4 * n + 1) * (4 * n + 3)) if k % 2 else Fraction(2 * (3 * n + 1) * (6 * n - 1), 9 * (4 * n - 1) * (4 * n + 1))
            if not close(kap[k], want):
                bad.append(f"c_kappa[{k}] = {float(kap[k]):.12g}, closed form {want}")
        if len(eta) < 10 or len(kap) < 10:
            bad.append(f"tables truncated to {len(eta)} / {len(kap)} terms")
        if bad:
            r.violation(LAM + ":tables", "battin-coefficients:" + ";".join(b[:30] for b in bad[:3]), "Battin continued-fraction coefficients deviate from their closed forms: " + "; ".join(bad[:4]), f"{mod.relpath}:{n1.lineno}")
        else:
            r.ok(LAM + ":tables", f"{len(eta)} + {len(kap)} coefficients follow the closed forms", f"{mod.relpath}:{n1.lineno}", obligations=len(eta) + len(kap))

    r.guard(LAM + ":tables", tables)


def run(chk, p, t):
    chk.explanation = (
        "Static decision of a narrow set of structural necessary conditions of C20: (R1) the radar-observation "
        "inversion is the reversed inverse chain of the measurement model with each observed quantity in the slot of "
        "its kind; (R2) no certainly-3-element position reaches an unguarded velocity slice in the IOD pipeline; (R3) "
        "the IOD pipeline hands the solver (r1, r2, t2 - t1, sense) of exactly the two observations used and returns "
        "(r2, v2); f-g velocity reconstruction as documented; (R4) sense / quadrant corrections in the solvers precede "
        "every use of the corrected quantity. NOT decided: both Lambert iterations and the accuracy of "
        "the IOD result (boundary-value numerics) - the larger part of the property."
    )
    chk.assumptions += ["sez2eci / razel2sez are the inverses of eci2sez / sez2razel (C04)"]
    def rule_r5(chk, p, t):
        # the measurement model that the radar inversion inverts: forward spherical model and its recoveries (C04.R10)
        from rules import C04

        C04.rule_r10(chk, p, t, rid="C20.R5", parts=("forward", "measurement"))

    for fn in (rule_r1, rule_r2, rule_r3, rule_r4, rule_r5, rule_r6, rule_r7):
        rid = "C20.R" + fn.__name__[-1]
        if not chk.wants(rid):
            continue
        try:
            fn(chk, p, t)
        except (Undecided, AnchorError) as e:
            rr = chk.rule(rid + ".x", fn.__name__, 0, "-")
            (rr.undecided if isinstance(e, Undecided) else rr.error)(fn.__name__, str(e))


_ = inline_locals
